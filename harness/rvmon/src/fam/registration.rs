//! C18 — registration is validated and makes items reachable where declared.
//!
//! A case is one generated sequence of 1-3 libraries built through the NON-macro API
//! (`Module::new`, `Type::clone/copy`, `Function::new`, `Constant::new`, `Impl::new`,
//! `Use::new`) and added to one runtime. A small reference model of the registration
//! rules (scope tree with the names declared per scope) decides the expected verdict;
//! after a successful `add` one probe function per reachable path is compiled and
//! called, and must return the identity tag of the item that was declared there.
//! The first cases of the range are fixed libraries written with `library!`.

use std::collections::{BTreeMap, BTreeSet};

use roto::{
    Constant, FileTree, Function, Impl, Item, Library, Module, NoCtx, Package, RegistrationError, RotoString, Runtime,
    Type, Use, Val, library, location,
};

use crate::jsonw::J;
use crate::rng::Rng;
use crate::work::{Args, CaseOut, Family, catch, hash_str};

const DOC: &str = "harness item";

/// `panic@<file of the panic site>`: neither the line nor the message take part, because
/// the same defect panics with different messages in debug and release builds (overflow
/// check vs slice index); the input class appended by the caller identifies the finding.
fn panic_sig(msg: &str) -> String {
    let loc = msg.split(": ").next().unwrap_or(msg);
    let file = loc.rsplit_once(':').map(|x| x.0).unwrap_or(loc);
    let file = file.trim_start_matches("/repo/");
    let file = if let Some(i) = file.find("/library/") { &file[i + 1..] } else { file };
    format!("panic@{file}")
}
/// payload of the `Val<T>` argument handed to probes
const X: i32 = 5;
const N_POOL: usize = 8;

// ---------------------------------------------------------------------------
// Pool of harness types (different layouts; T0-T4 Clone only, T5-T7 Copy)
// ---------------------------------------------------------------------------

pub trait PoolTy: Clone + PartialEq + Send + Sync + std::fmt::Debug + 'static {
    type Next: PoolTy;
    fn mk(v: i32) -> Self;
    fn get(&self) -> i32;
}

#[derive(Clone, PartialEq, Debug)]
pub struct T0(pub i32);
#[derive(Clone, PartialEq, Debug)]
pub struct T1(pub i32, pub u64);
#[derive(Clone, PartialEq, Debug)]
pub struct T2(pub i32, pub String);
#[derive(Clone, PartialEq, Debug)]
pub struct T3(pub i32, pub [u8; 5]);
#[derive(Clone, PartialEq, Debug)]
pub struct T4(pub i32, pub std::sync::Arc<i32>);
#[derive(Clone, Copy, PartialEq, Debug)]
pub struct T5(pub i32);
#[derive(Clone, Copy, PartialEq, Debug)]
pub struct T6(pub i32, pub u8);
#[derive(Clone, Copy, PartialEq, Debug)]
pub struct T7(pub i32, pub u64, pub u64);

macro_rules! pool_impl {
    ($t:ident, $next:ident, $v:ident => $mk:expr) => {
        impl PoolTy for $t {
            type Next = $next;
            fn mk($v: i32) -> Self {
                $mk
            }
            fn get(&self) -> i32 {
                self.0
            }
        }
    };
}
pool_impl!(T0, T1, v => T0(v));
pool_impl!(T1, T2, v => T1(v, 0xfeed_f00d_0000_0001));
pool_impl!(T2, T3, v => T2(v, format!("t2-{v}")));
pool_impl!(T3, T4, v => T3(v, [1, 2, 3, 4, 5]));
pool_impl!(T4, T5, v => T4(v, std::sync::Arc::new(v)));
pool_impl!(T5, T6, v => T5(v));
pool_impl!(T6, T7, v => T6(v, 0xa5));
pool_impl!(T7, T0, v => T7(v, 7, 77));

macro_rules! with_ty {
    ($idx:expr, $T:ident, $body:expr) => {
        match $idx {
            0 => {
                type $T = T0;
                $body
            }
            1 => {
                type $T = T1;
                $body
            }
            2 => {
                type $T = T2;
                $body
            }
            3 => {
                type $T = T3;
                $body
            }
            4 => {
                type $T = T4;
                $body
            }
            5 => {
                type $T = T5;
                $body
            }
            6 => {
                type $T = T6;
                $body
            }
            _ => {
                type $T = T7;
                $body
            }
        }
    };
}

fn is_copy_ty(t: usize) -> bool {
    t >= 5
}

#[derive(Clone, Copy, Debug, PartialEq, Eq, PartialOrd, Ord)]
enum TyRef {
    Pool(usize),
    I32,
    Bool,
    Str,
}

impl TyRef {
    fn rust(&self) -> String {
        match self {
            TyRef::Pool(t) => format!("Val<T{t}>"),
            TyRef::I32 => "i32".into(),
            TyRef::Bool => "bool".into(),
            TyRef::Str => "RotoString".into(),
        }
    }
}

// ---------------------------------------------------------------------------
// Function shapes: every registered function returns (or its result contains)
// `tag + f(args)` so that a probe can tell which item it reached and that the
// arguments arrived in the declared positions.
// ---------------------------------------------------------------------------

#[derive(Clone, Copy, Debug, PartialEq, Eq, PartialOrd, Ord)]
enum Shape {
    Unit0,
    I32,
    I32I32,
    Bool,
    U8I64,
    Str,
    OptRet,
    /// `(i32) -> Result<i32, bool>` returning Ok, `(i32) -> Result<bool, i32>` returning Err,
    /// `(i32) -> Verdict<i32, bool>` returning Accept, `(i32) -> Verdict<bool, i32>` returning Reject
    ResOk,
    ResErr,
    VerdAcc,
    VerdRej,
    /// plain `fn` pointers (no captured state): tag is 9000 + k
    FpUnit(usize),
    FpI32(usize),
    ValIn(usize),
    ValInI32(usize),
    I32ValIn(usize),
    ValIn2(usize),
    ValOut(usize),
    I32ValOut(usize),
    ValSame(usize),
    ValVal(usize),
    OptValOut(usize),
}

const PRIM_SHAPES: [Shape; 11] = [
    Shape::Unit0,
    Shape::I32,
    Shape::I32I32,
    Shape::Bool,
    Shape::U8I64,
    Shape::Str,
    Shape::OptRet,
    Shape::ResOk,
    Shape::ResErr,
    Shape::VerdAcc,
    Shape::VerdRej,
];

impl Shape {
    fn name(&self) -> &'static str {
        match self {
            Shape::Unit0 => "unit0",
            Shape::I32 => "i32",
            Shape::I32I32 => "i32-i32",
            Shape::Bool => "bool",
            Shape::U8I64 => "u8-i64",
            Shape::Str => "str",
            Shape::OptRet => "opt-ret",
            Shape::ResOk => "result-ok-ret",
            Shape::ResErr => "result-err-ret",
            Shape::VerdAcc => "verdict-accept-ret",
            Shape::VerdRej => "verdict-reject-ret",
            Shape::FpUnit(_) => "fnptr-unit",
            Shape::FpI32(_) => "fnptr-i32",
            Shape::ValIn(_) => "val-in",
            Shape::ValInI32(_) => "val-in-i32",
            Shape::I32ValIn(_) => "i32-val-in",
            Shape::ValIn2(_) => "val-in2",
            Shape::ValOut(_) => "val-out",
            Shape::I32ValOut(_) => "i32-val-out",
            Shape::ValSame(_) => "val-same",
            Shape::ValVal(_) => "val-val",
            Shape::OptValOut(_) => "opt-val-out",
        }
    }
    fn params(&self) -> Vec<TyRef> {
        match *self {
            Shape::Unit0 | Shape::FpUnit(_) | Shape::ValOut(_) | Shape::OptValOut(_) => vec![],
            Shape::I32 | Shape::FpI32(_) | Shape::OptRet | Shape::I32ValOut(_) => vec![TyRef::I32],
            Shape::ResOk | Shape::ResErr | Shape::VerdAcc | Shape::VerdRej => vec![TyRef::I32],
            Shape::I32I32 => vec![TyRef::I32, TyRef::I32],
            Shape::Bool => vec![TyRef::Bool],
            Shape::U8I64 => vec![], // u8/i64: primitives that are never receivers here
            Shape::Str => vec![TyRef::Str],
            Shape::ValIn(t) | Shape::ValSame(t) | Shape::ValVal(t) => vec![TyRef::Pool(t)],
            Shape::ValInI32(t) => vec![TyRef::Pool(t), TyRef::I32],
            Shape::I32ValIn(t) => vec![TyRef::I32, TyRef::Pool(t)],
            Shape::ValIn2(t) => vec![TyRef::Pool(t), TyRef::Pool(t)],
        }
    }
    /// pool types mentioned by the parameters / by the return type
    fn mentions(&self) -> (Vec<usize>, Vec<usize>) {
        match *self {
            Shape::ValIn(t) | Shape::ValInI32(t) | Shape::I32ValIn(t) | Shape::ValIn2(t) => (vec![t], vec![]),
            Shape::ValOut(t) | Shape::I32ValOut(t) | Shape::OptValOut(t) => (vec![], vec![t]),
            Shape::ValSame(t) => (vec![t], vec![t]),
            Shape::ValVal(t) => (vec![t], vec![(t + 1) % N_POOL]),
            _ => (vec![], vec![]),
        }
    }
    fn sig_text(&self) -> String {
        match *self {
            Shape::Unit0 | Shape::FpUnit(_) => "() -> i32".into(),
            Shape::I32 | Shape::FpI32(_) => "(i32) -> i32".into(),
            Shape::I32I32 => "(i32, i32) -> i32".into(),
            Shape::Bool => "(bool) -> i32".into(),
            Shape::U8I64 => "(u8, i64) -> i32".into(),
            Shape::Str => "(RotoString) -> i32".into(),
            Shape::OptRet => "(i32) -> Option<i32>".into(),
            Shape::ResOk => "(i32) -> Result<i32, bool>".into(),
            Shape::ResErr => "(i32) -> Result<bool, i32>".into(),
            Shape::VerdAcc => "(i32) -> Verdict<i32, bool>".into(),
            Shape::VerdRej => "(i32) -> Verdict<bool, i32>".into(),
            Shape::ValIn(t) => format!("(Val<T{t}>) -> i32"),
            Shape::ValInI32(t) => format!("(Val<T{t}>, i32) -> i32"),
            Shape::I32ValIn(t) => format!("(i32, Val<T{t}>) -> i32"),
            Shape::ValIn2(t) => format!("(Val<T{t}>, Val<T{t}>) -> i32"),
            Shape::ValOut(t) => format!("() -> Val<T{t}>"),
            Shape::I32ValOut(t) => format!("(i32) -> Val<T{t}>"),
            Shape::ValSame(t) => format!("(Val<T{t}>) -> Val<T{t}>"),
            Shape::ValVal(t) => format!("(Val<T{t}>) -> Val<T{}>", (t + 1) % N_POOL),
            Shape::OptValOut(t) => format!("() -> Option<Val<T{t}>>"),
        }
    }
    fn fixed_tag(&self) -> Option<i32> {
        match *self {
            Shape::FpUnit(k) => Some(9000 + k as i32),
            Shape::FpI32(k) => Some(9100 + k as i32),
            _ => None,
        }
    }
    /// value observed by the probe for the canonical arguments
    fn expect(&self, tag: i32) -> i32 {
        match *self {
            Shape::Unit0 | Shape::FpUnit(_) | Shape::ValOut(_) | Shape::OptValOut(_) => tag,
            Shape::I32 | Shape::FpI32(_) | Shape::OptRet | Shape::I32ValOut(_) => tag + 7,
            Shape::ResOk | Shape::ResErr | Shape::VerdAcc | Shape::VerdRej => tag + 7,
            Shape::I32I32 => tag + 7 * 3 + 2,
            Shape::Bool => tag + 1,
            Shape::U8I64 => tag + 5 + 11,
            Shape::Str => tag + 4,
            Shape::ValIn(_) | Shape::ValSame(_) | Shape::ValVal(_) => tag + X,
            Shape::ValInI32(_) => tag + 3 * X + 2,
            Shape::I32ValIn(_) => tag + X + 3 * 2,
            Shape::ValIn2(_) => tag + 3 * X + X,
        }
    }
}

fn fp_unit<const K: i32>() -> i32 {
    9000 + K
}
fn fp_i32<const K: i32>(a: i32) -> i32 {
    9100 + K + a
}
const FP_UNIT: [fn() -> i32; 8] =
    [fp_unit::<0>, fp_unit::<1>, fp_unit::<2>, fp_unit::<3>, fp_unit::<4>, fp_unit::<5>, fp_unit::<6>, fp_unit::<7>];
const FP_I32: [fn(i32) -> i32; 8] =
    [fp_i32::<0>, fp_i32::<1>, fp_i32::<2>, fp_i32::<3>, fp_i32::<4>, fp_i32::<5>, fp_i32::<6>, fp_i32::<7>];

fn build_fn_t<T: PoolTy>(name: &str, shape: Shape, tag: i32) -> Result<Function, RegistrationError> {
    match shape {
        Shape::ValIn(_) => Function::new(name, DOC, vec!["v"], move |v: Val<T>| -> i32 { tag + v.0.get() }, location!()),
        Shape::ValInI32(_) => {
            Function::new(name, DOC, vec!["v", "a"], move |v: Val<T>, a: i32| -> i32 { tag + 3 * v.0.get() + a }, location!())
        }
        Shape::I32ValIn(_) => {
            Function::new(name, DOC, vec!["a", "v"], move |a: i32, v: Val<T>| -> i32 { tag + v.0.get() + 3 * a }, location!())
        }
        Shape::ValIn2(_) => Function::new(
            name,
            DOC,
            vec!["v", "w"],
            move |v: Val<T>, w: Val<T>| -> i32 { tag + 3 * v.0.get() + w.0.get() },
            location!(),
        ),
        Shape::ValOut(_) => Function::new(name, DOC, vec![], move || -> Val<T> { Val(T::mk(tag)) }, location!()),
        Shape::I32ValOut(_) => Function::new(name, DOC, vec!["a"], move |a: i32| -> Val<T> { Val(T::mk(tag + a)) }, location!()),
        Shape::ValSame(_) => {
            Function::new(name, DOC, vec!["v"], move |v: Val<T>| -> Val<T> { Val(T::mk(tag + v.0.get())) }, location!())
        }
        Shape::ValVal(_) => Function::new(
            name,
            DOC,
            vec!["v"],
            move |v: Val<T>| -> Val<T::Next> { Val(<T::Next as PoolTy>::mk(tag + v.0.get())) },
            location!(),
        ),
        Shape::OptValOut(_) => {
            Function::new(name, DOC, vec![], move || -> Option<Val<T>> { Some(Val(T::mk(tag))) }, location!())
        }
        _ => unreachable!(),
    }
}

fn build_fn(name: &str, shape: Shape, tag: i32) -> Result<Function, RegistrationError> {
    match shape {
        Shape::Unit0 => Function::new(name, DOC, vec![], move || -> i32 { tag }, location!()),
        Shape::I32 => Function::new(name, DOC, vec!["a"], move |a: i32| -> i32 { tag + a }, location!()),
        Shape::I32I32 => Function::new(name, DOC, vec!["a", "b"], move |a: i32, b: i32| -> i32 { tag + 3 * a + b }, location!()),
        Shape::Bool => Function::new(name, DOC, vec!["b"], move |b: bool| -> i32 { tag + b as i32 }, location!()),
        Shape::U8I64 => {
            Function::new(name, DOC, vec!["a", "b"], move |a: u8, b: i64| -> i32 { tag + a as i32 + b as i32 }, location!())
        }
        Shape::Str => Function::new(name, DOC, vec!["s"], move |s: RotoString| -> i32 { tag + s.to_string().len() as i32 }, location!()),
        Shape::OptRet => Function::new(name, DOC, vec!["a"], move |a: i32| -> Option<i32> { Some(tag + a) }, location!()),
        Shape::ResOk => Function::new(name, DOC, vec!["a"], move |a: i32| -> Result<i32, bool> { Ok(tag + a) }, location!()),
        Shape::ResErr => Function::new(name, DOC, vec!["a"], move |a: i32| -> Result<bool, i32> { Err(tag + a) }, location!()),
        Shape::VerdAcc => {
            Function::new(name, DOC, vec!["a"], move |a: i32| -> roto::Verdict<i32, bool> { roto::Verdict::Accept(tag + a) }, location!())
        }
        Shape::VerdRej => {
            Function::new(name, DOC, vec!["a"], move |a: i32| -> roto::Verdict<bool, i32> { roto::Verdict::Reject(tag + a) }, location!())
        }
        Shape::FpUnit(k) => Function::new(name, DOC, vec![], FP_UNIT[k % 8], location!()),
        Shape::FpI32(k) => Function::new(name, DOC, vec!["a"], FP_I32[k % 8], location!()),
        Shape::ValIn(t)
        | Shape::ValInI32(t)
        | Shape::I32ValIn(t)
        | Shape::ValIn2(t)
        | Shape::ValOut(t)
        | Shape::I32ValOut(t)
        | Shape::ValSame(t)
        | Shape::ValVal(t)
        | Shape::OptValOut(t) => with_ty!(t, T, build_fn_t::<T>(name, shape, tag)),
    }
}

#[derive(Clone, Copy, Debug, PartialEq, Eq)]
enum ConstTy {
    I32,
    Pool(usize),
}

fn build_const(name: &str, cty: ConstTy, tag: i32) -> Result<Constant, RegistrationError> {
    match cty {
        ConstTy::I32 => Constant::new(name, DOC, tag, location!()),
        ConstTy::Pool(t) => with_ty!(t, T, Constant::new(name, DOC, Val(T::mk(tag)), location!())),
    }
}

fn build_type(name: &str, t: usize, copy: bool) -> Result<Type, RegistrationError> {
    if copy {
        match t {
            5 => Type::copy::<Val<T5>>(name, DOC, location!()),
            6 => Type::copy::<Val<T6>>(name, DOC, location!()),
            _ => Type::copy::<Val<T7>>(name, DOC, location!()),
        }
    } else {
        with_ty!(t, T, Type::clone::<Val<T>>(name, DOC, location!()))
    }
}

fn build_impl(ty: TyRef) -> Impl {
    match ty {
        TyRef::I32 => Impl::new::<i32>(location!()),
        TyRef::Bool => Impl::new::<bool>(location!()),
        TyRef::Str => Impl::new::<RotoString>(location!()),
        TyRef::Pool(t) => with_ty!(t, T, Impl::new::<Val<T>>(location!())),
    }
}

// ---------------------------------------------------------------------------
// Library description (what the generator produces)
// ---------------------------------------------------------------------------

#[derive(Clone, Copy, Debug, PartialEq, Eq)]
enum NK {
    Module,
    Type,
    Fn,
    Const,
    Impl,
    Use,
}

#[derive(Clone, Debug)]
struct Node {
    kind: NK,
    name: String,
    children: Vec<Node>,
    /// registered type (Type) / impl target (Impl)
    ty: TyRef,
    copy: bool,
    shape: Shape,
    cty: ConstTy,
    tag: i32,
    imports: Vec<Vec<String>>,
    /// generator's remark (use target kind, injected defect)
    note: String,
}

impl Node {
    fn blank(kind: NK) -> Node {
        Node {
            kind,
            name: String::new(),
            children: Vec::new(),
            ty: TyRef::I32,
            copy: false,
            shape: Shape::Unit0,
            cty: ConstTy::I32,
            tag: 0,
            imports: Vec::new(),
            note: String::new(),
        }
    }
    fn module(name: &str, children: Vec<Node>) -> Node {
        Node { name: name.into(), children, ..Node::blank(NK::Module) }
    }
    fn ty(name: &str, t: usize, copy: bool) -> Node {
        Node { name: name.into(), ty: TyRef::Pool(t), copy, ..Node::blank(NK::Type) }
    }
    fn func(name: &str, shape: Shape, tag: i32) -> Node {
        Node { name: name.into(), shape, tag: shape.fixed_tag().unwrap_or(tag), ..Node::blank(NK::Fn) }
    }
    fn constant(name: &str, cty: ConstTy, tag: i32) -> Node {
        Node { name: name.into(), cty, tag, ..Node::blank(NK::Const) }
    }
    fn imp(ty: TyRef, children: Vec<Node>) -> Node {
        Node { ty, children, ..Node::blank(NK::Impl) }
    }
    fn uses(imports: Vec<Vec<String>>, note: &str) -> Node {
        Node { imports, note: note.into(), ..Node::blank(NK::Use) }
    }
}

fn build_items(nodes: &[Node]) -> Result<Vec<Item>, RegistrationError> {
    let mut out = Vec::new();
    for n in nodes {
        out.push(match n.kind {
            NK::Module => {
                let mut m = Module::new(n.name.as_str(), DOC, location!())?;
                m.add(build_items(&n.children)?);
                Item::Module(m)
            }
            NK::Type => {
                let TyRef::Pool(t) = n.ty else { unreachable!() };
                Item::Type(build_type(&n.name, t, n.copy)?)
            }
            NK::Fn => Item::Function(build_fn(&n.name, n.shape, n.tag)?),
            NK::Const => Item::Constant(build_const(&n.name, n.cty, n.tag)?),
            NK::Impl => {
                let mut i = build_impl(n.ty);
                i.add(build_items(&n.children)?);
                Item::Impl(i)
            }
            NK::Use => Item::Use(Use::new(n.imports.clone(), location!())),
        });
    }
    Ok(out)
}

fn tree_text(nodes: &[Node], indent: usize, out: &mut String) {
    let pad = "  ".repeat(indent);
    for n in nodes {
        let note = if n.note.is_empty() { String::new() } else { format!("   // {}", n.note) };
        match n.kind {
            NK::Module => {
                out.push_str(&format!("{pad}mod {:?} {{{note}\n", n.name));
                tree_text(&n.children, indent + 1, out);
                out.push_str(&format!("{pad}}}\n"));
            }
            NK::Type => out.push_str(&format!(
                "{pad}type {:?} = {} ({}){note}\n",
                n.name,
                n.ty.rust(),
                if n.copy { "copy" } else { "clone" }
            )),
            NK::Fn => out.push_str(&format!("{pad}fn {:?}: {} #{}{note}\n", n.name, n.shape.sig_text(), n.tag)),
            NK::Const => out.push_str(&format!(
                "{pad}const {:?}: {} #{}{note}\n",
                n.name,
                match n.cty {
                    ConstTy::I32 => "i32".to_string(),
                    ConstTy::Pool(t) => format!("Val<T{t}>"),
                },
                n.tag
            )),
            NK::Impl => {
                out.push_str(&format!("{pad}impl {} {{{note}\n", n.ty.rust()));
                tree_text(&n.children, indent + 1, out);
                out.push_str(&format!("{pad}}}\n"));
            }
            NK::Use => out.push_str(&format!("{pad}use {:?}{note}\n", n.imports)),
        }
    }
}

// ---------------------------------------------------------------------------
// Identifier rule (independent of roto's lexer): XID_Start or `_`, then
// XID_Continue*, not a keyword. The harness only draws names from fixed pools,
// for which `char::is_alphabetic` / `is_alphanumeric` (+ combining marks)
// coincide with XID_Start / XID_Continue.
// ---------------------------------------------------------------------------

const KEYWORDS: [&str; 24] = [
    "accept", "const", "dep", "else", "enum", "filter", "filtermap", "for", "fn", "if", "import", "in", "let", "match", "pkg",
    "record", "reject", "return", "std", "super", "test", "while", "true", "false",
];

fn xid_start(c: char) -> bool {
    c.is_alphabetic()
}
fn xid_continue(c: char) -> bool {
    c.is_alphanumeric() || c == '_' || ('\u{300}'..='\u{36f}').contains(&c)
}

/// (valid, class)
fn classify(name: &str) -> (bool, &'static str) {
    let mut cs = name.chars();
    let Some(first) = cs.next() else { return (false, "empty") };
    let shape_ok = (xid_start(first) || first == '_') && cs.clone().all(xid_continue);
    if shape_ok {
        if name == "true" || name == "false" {
            return (false, "bool-literal");
        }
        if KEYWORDS.contains(&name) {
            return (false, "keyword");
        }
        if name == "_" {
            return (true, "underscore");
        }
        if !first.is_ascii() {
            return (true, "nonascii-first");
        }
        if !name.is_ascii() {
            return (true, "nonascii");
        }
        return (true, "ascii");
    }
    if first.is_whitespace() {
        return (false, "space-lead");
    }
    if name.ends_with(char::is_whitespace) {
        return (false, "space-trail");
    }
    if name.contains(char::is_whitespace) {
        return (false, "space-inner");
    }
    if first.is_ascii_digit() {
        return (false, "digit-start");
    }
    if name.contains("//") {
        return (false, "comment-trail");
    }
    (false, "punct")
}

// ---------------------------------------------------------------------------
// Reference model of the registration rules
// ---------------------------------------------------------------------------

#[derive(Clone, Debug)]
enum Decl {
    /// documented built-in of the default runtime (root scope only)
    Builtin,
    Module,
    Type(TyRef),
    Fn { shape: Shape, tag: i32, in_impl: Option<TyRef> },
    Const { cty: ConstTy, tag: i32, in_impl: Option<TyRef> },
}

impl Decl {
    fn kind(&self) -> &'static str {
        match self {
            Decl::Builtin => "builtin",
            Decl::Module => "mod",
            Decl::Type(_) => "type",
            Decl::Fn { in_impl: None, .. } => "fn",
            Decl::Fn { shape, in_impl: Some(t), .. } => {
                if shape.params().first() == Some(t) {
                    "method"
                } else {
                    "static"
                }
            }
            Decl::Const { in_impl: None, .. } => "const",
            Decl::Const { .. } => "assoc-const",
        }
    }
    /// coarse kind used in duplicate labels
    fn dup_kind(&self) -> &'static str {
        match self {
            Decl::Builtin => "builtin",
            Decl::Module => "mod",
            Decl::Type(_) => "type",
            Decl::Fn { .. } => "fn",
            Decl::Const { .. } => "const",
        }
    }
}

#[derive(Clone, Debug)]
struct Import {
    target: Vec<String>,
    len: usize,
}

#[derive(Clone, Debug, Default)]
struct MScope {
    decls: BTreeMap<String, (Decl, usize)>,
    imports: BTreeMap<String, Import>,
    is_type: bool,
}

#[derive(Clone, Debug)]
struct Model {
    scopes: BTreeMap<Vec<String>, MScope>,
    /// registered Rust type -> absolute Roto path (scope path + name), add index
    types: BTreeMap<TyRef, (Vec<String>, usize)>,
}

const BUILTIN_TYPES: [&str; 12] = ["u32", "String", "bool", "Option", "Verdict", "Result", "i32", "IpAddr", "Prefix", "Option", "Result", "Verdict"];

/// Outcome of the model for one library: defect labels (empty = must succeed) and
/// whether something in it is left unspecified by the property.
#[derive(Clone, Debug, Default)]
struct Judgement {
    labels: Vec<String>,
    unspecified: Vec<String>,
}

impl Judgement {
    fn label(&mut self, l: String) {
        if !self.labels.contains(&l) {
            self.labels.push(l);
        }
    }
}

fn join_path(p: &[String]) -> String {
    p.join(".")
}

impl Model {
    fn new() -> Model {
        let mut m = Model { scopes: BTreeMap::new(), types: BTreeMap::new() };
        let mut root = MScope::default();
        for b in BUILTIN_TYPES {
            root.decls.insert(b.to_string(), (Decl::Builtin, 0));
        }
        m.scopes.insert(vec![], root);
        for (t, n) in [(TyRef::I32, "i32"), (TyRef::Bool, "bool"), (TyRef::Str, "String")] {
            m.types.insert(t, (vec![n.to_string()], 0));
            m.scopes.insert(vec![n.to_string()], MScope { is_type: true, ..Default::default() });
        }
        m
    }

    fn type_path(&self, t: TyRef) -> Option<&Vec<String>> {
        self.types.get(&t).map(|x| &x.0)
    }

    fn declare(&mut self, sp: &[String], name: &str, d: Decl, add: usize, j: &mut Judgement) -> bool {
        let sc = self.scopes.entry(sp.to_vec()).or_default();
        if let Some((old, old_add)) = sc.decls.get(name) {
            let mut ks = [old.dup_kind(), d.dup_kind()];
            let l = if matches!(old, Decl::Builtin) {
                // which kind of built-in name is taken: the three prelude enums, List, or a
                // primitive / leaf type (the compiler treats them differently)
                let class = match name {
                    "Option" | "Result" | "Verdict" => "enum",
                    "List" => "list",
                    _ => "primitive",
                };
                if matches!(d, Decl::Type(_)) { format!("dup-builtin:type:{class}") } else { format!("dup-builtin:{}", d.dup_kind()) }
            } else {
                ks.sort();
                format!(
                    "dup:{}-{}{}{}",
                    ks[0],
                    ks[1],
                    if sc.is_type { ":type-scope" } else { "" },
                    if *old_add < add { ":across-adds" } else { "" }
                )
            };
            j.label(l);
            return false;
        }
        if let Some(imp) = sc.imports.get(name) {
            // only possible across adds (uses are processed last within one add)
            let _ = imp;
            let _ = d;
            j.label("dup:decl-use:across-adds".into());
            return false;
        }
        sc.decls.insert(name.to_string(), (d, add));
        true
    }

    fn check_names(nodes: &[Node], in_impl: bool, j: &mut Judgement) {
        for n in nodes {
            match n.kind {
                NK::Module | NK::Type | NK::Fn | NK::Const => {
                    let (ok, class) = classify(&n.name);
                    if !ok {
                        j.label(format!("name:{class}"));
                    }
                }
                _ => {}
            }
            if matches!(n.kind, NK::Module | NK::Impl) {
                Self::check_names(&n.children, in_impl || n.kind == NK::Impl, j);
            }
        }
    }

    fn pass_modules(&mut self, sp: &[String], nodes: &[Node], add: usize, j: &mut Judgement) {
        for n in nodes.iter().filter(|n| n.kind == NK::Module) {
            let mut sub = sp.to_vec();
            sub.push(n.name.clone());
            if self.declare(sp, &n.name, Decl::Module, add, j) {
                self.scopes.entry(sub.clone()).or_default();
            }
            self.pass_modules(&sub, &n.children, add, j);
        }
    }

    fn pass_types(&mut self, sp: &[String], nodes: &[Node], add: usize, j: &mut Judgement) {
        for n in nodes {
            match n.kind {
                NK::Module => {
                    let mut sub = sp.to_vec();
                    sub.push(n.name.clone());
                    self.pass_types(&sub, &n.children, add, j);
                }
                NK::Type => {
                    if let Some((old, old_add)) = self.types.get(&n.ty) {
                        let same = old.last().map(|s| s.as_str()) == Some(n.name.as_str());
                        j.label(format!(
                            "type-twice:{}{}",
                            if same { "same-name" } else { "diff-name" },
                            if *old_add < add { ":across-adds" } else { "" }
                        ));
                        continue;
                    }
                    if self.declare(sp, &n.name, Decl::Type(n.ty), add, j) {
                        let mut tp = sp.to_vec();
                        tp.push(n.name.clone());
                        self.types.insert(n.ty, (tp.clone(), add));
                        self.scopes.insert(tp, MScope { is_type: true, ..Default::default() });
                    }
                }
                _ => {}
            }
        }
    }

    fn check_sig(&self, shape: Shape, what: &str, j: &mut Judgement) {
        let (ps, rs) = shape.mentions();
        for t in ps {
            if !self.types.contains_key(&TyRef::Pool(t)) {
                j.label(format!("unreg:{what}-param"));
            }
        }
        for t in rs {
            if !self.types.contains_key(&TyRef::Pool(t)) {
                j.label(format!("unreg:{what}-ret"));
            }
        }
    }

    fn pass_fns(&mut self, sp: &[String], nodes: &[Node], add: usize, j: &mut Judgement) {
        for n in nodes {
            match n.kind {
                NK::Module => {
                    let mut sub = sp.to_vec();
                    sub.push(n.name.clone());
                    self.pass_fns(&sub, &n.children, add, j);
                }
                NK::Fn => {
                    self.check_sig(n.shape, "fn", j);
                    self.declare(sp, &n.name, Decl::Fn { shape: n.shape, tag: n.tag, in_impl: None }, add, j);
                }
                NK::Impl => {
                    let Some(tp) = self.type_path(n.ty).cloned() else {
                        j.label("unreg:impl".into());
                        continue;
                    };
                    for c in n.children.iter().filter(|c| c.kind == NK::Fn) {
                        self.check_sig(c.shape, "method", j);
                        self.declare(&tp, &c.name, Decl::Fn { shape: c.shape, tag: c.tag, in_impl: Some(n.ty) }, add, j);
                    }
                }
                _ => {}
            }
        }
    }

    fn pass_consts(&mut self, sp: &[String], nodes: &[Node], add: usize, j: &mut Judgement) {
        for n in nodes {
            match n.kind {
                NK::Module => {
                    let mut sub = sp.to_vec();
                    sub.push(n.name.clone());
                    self.pass_consts(&sub, &n.children, add, j);
                }
                NK::Const => {
                    if let ConstTy::Pool(t) = n.cty
                        && !self.types.contains_key(&TyRef::Pool(t))
                    {
                        j.label("unreg:const".into());
                    }
                    self.declare(sp, &n.name, Decl::Const { cty: n.cty, tag: n.tag, in_impl: None }, add, j);
                }
                NK::Impl => {
                    let Some(tp) = self.type_path(n.ty).cloned() else {
                        j.label("unreg:impl".into());
                        continue;
                    };
                    for c in n.children.iter().filter(|c| c.kind == NK::Const) {
                        if let ConstTy::Pool(t) = c.cty
                            && !self.types.contains_key(&TyRef::Pool(t))
                        {
                            j.label("unreg:const".into());
                        }
                        self.declare(&tp, &c.name, Decl::Const { cty: c.cty, tag: c.tag, in_impl: Some(n.ty) }, add, j);
                    }
                }
                _ => {}
            }
        }
    }

    /// `use` paths are relative to the scope that contains the `use`; every
    /// segment but the last must be a module or a type declared in the scope
    /// reached so far, the last one any item declared there.
    fn pass_uses(&mut self, sp: &[String], nodes: &[Node], j: &mut Judgement) {
        for n in nodes {
            match n.kind {
                NK::Module => {
                    let mut sub = sp.to_vec();
                    sub.push(n.name.clone());
                    self.pass_uses(&sub, &n.children, j);
                }
                NK::Use => {
                    for p in &n.imports {
                        if p.is_empty() {
                            j.label("use:empty-path".into());
                            continue;
                        }
                        let mut cur = sp.to_vec();
                        let mut ok = true;
                        for (i, seg) in p[..p.len() - 1].iter().enumerate() {
                            match self.scopes.get(&cur).and_then(|s| s.decls.get(seg)) {
                                Some((Decl::Module | Decl::Type(_), _)) => cur.push(seg.clone()),
                                Some((Decl::Builtin, _)) => {
                                    // built-in types have scopes the model knows nothing about
                                    j.unspecified.push("use-builtin".into());
                                    ok = false;
                                    break;
                                }
                                Some(_) => {
                                    j.label("use:through-item".into());
                                    ok = false;
                                    break;
                                }
                                None => {
                                    j.label(format!("use:unresolved-{}", if i == 0 { "first" } else { "mid" }));
                                    ok = false;
                                    break;
                                }
                            }
                        }
                        if !ok {
                            continue;
                        }
                        let last = p.last().unwrap();
                        if !self.scopes.get(&cur).is_some_and(|s| s.decls.contains_key(last)) {
                            j.label("use:unresolved-last".into());
                            continue;
                        }
                        if p.len() == 1 {
                            // importing an item into the scope it already lives in
                            j.unspecified.push("use-self".into());
                            continue;
                        }
                        let mut target = cur.clone();
                        target.push(last.clone());
                        let sc = self.scopes.entry(sp.to_vec()).or_default();
                        if sc.decls.contains_key(last) {
                            j.label("dup:use-decl".into());
                        } else if sc.imports.contains_key(last) {
                            j.label("dup:use-use".into());
                        } else {
                            sc.imports.insert(last.clone(), Import { target, len: p.len() });
                        }
                    }
                }
                _ => {}
            }
        }
    }

    fn apply(&mut self, add: usize, nodes: &[Node]) -> Judgement {
        let mut j = Judgement::default();
        Self::check_names(nodes, false, &mut j);
        self.pass_modules(&[], nodes, add, &mut j);
        self.pass_types(&[], nodes, add, &mut j);
        self.pass_fns(&[], nodes, add, &mut j);
        self.pass_consts(&[], nodes, add, &mut j);
        self.pass_uses(&[], nodes, &mut j);
        j
    }

    fn lookup(&self, abs: &[String]) -> Option<&Decl> {
        let (last, sp) = abs.split_last()?;
        self.scopes.get(sp)?.decls.get(last).map(|x| &x.0)
    }
}

// ---------------------------------------------------------------------------
// Probes: one Roto function per reachable path
// ---------------------------------------------------------------------------

#[derive(Clone, Copy, Debug, PartialEq, Eq)]
enum RunKind {
    Unit,
    ValIn(usize),
    ValOut(usize),
    ValSame(usize),
    ValNext(usize),
    OptValOut(usize),
}

#[derive(Clone, Debug)]
struct Probe {
    fname: String,
    src: String,
    run: RunKind,
    expect: i32,
    /// item kind (fn, static, method, const, assoc-const, type)
    kind: &'static str,
    /// path shape (declared:d2, use:len2:root, ...)
    via: String,
    path: String,
    /// must NOT compile (the item is not declared at that path)
    negative: bool,
}

impl Model {
    fn ty_script_path(&self, t: TyRef) -> Option<String> {
        self.type_path(t).map(|p| join_path(p))
    }

    /// All (path, declaration, path shape) through which an item must be reachable.
    fn reachable(&self) -> Vec<(Vec<String>, Decl, String)> {
        let mut out = Vec::new();
        for (sp, sc) in &self.scopes {
            for (name, (d, _)) in &sc.decls {
                if matches!(d, Decl::Builtin | Decl::Module) {
                    continue;
                }
                let mut p = sp.clone();
                p.push(name.clone());
                let via = if sc.is_type { format!("declared:type-scope:d{}", sp.len() - 1) } else { format!("declared:d{}", sp.len()) };
                out.push((p, d.clone(), via));
            }
            // An import makes the item available *by name in the scope of the `use`*
            // (language reference, "Imports": "available by name in the current scope",
            // "Imported modules are not available in other modules"); imports are not
            // re-exported through the module path. Script code only ever sits below the
            // root scope, so only imports of the root are observable: a `use` inside
            // `mod m` is checked by its verdict and by the negative probes (it must not
            // leak into the root), not by probing `m.<name>`.
            if !sp.is_empty() {
                continue;
            }
            for (name, imp) in &sc.imports {
                let Some(d) = self.lookup(&imp.target) else { continue };
                let at = "root";
                let mut p = sp.clone();
                p.push(name.clone());
                match d {
                    Decl::Module | Decl::Type(_) => {
                        if let Decl::Type(_) = d {
                            out.push((p.clone(), d.clone(), format!("use:len{}:{at}", imp.len)));
                        }
                        if let Some(tsc) = self.scopes.get(&imp.target) {
                            for (cn, (cd, _)) in &tsc.decls {
                                if matches!(cd, Decl::Module | Decl::Type(_) | Decl::Builtin) || cd.kind() == "method" {
                                    continue;
                                }
                                let mut cp = p.clone();
                                cp.push(cn.clone());
                                out.push((cp, cd.clone(), format!("use-{}:len{}:{at}", d.kind(), imp.len)));
                            }
                        }
                    }
                    Decl::Builtin => {}
                    _ => {
                        if d.kind() != "method" {
                            out.push((p, d.clone(), format!("use:len{}:{at}", imp.len)));
                        }
                    }
                }
            }
        }
        out
    }

    fn render(&self, idx: usize, path: &[String], d: &Decl, via: &str) -> Option<Probe> {
        let fname = format!("p{idx}");
        let callee = join_path(path);
        let tp = |t: usize| self.ty_script_path(TyRef::Pool(t));
        let mk = |src: String, run: RunKind, expect: i32, kind: &'static str| {
            Some(Probe { fname: fname.clone(), src, run, expect, kind, via: via.to_string(), path: callee.clone(), negative: false })
        };
        match d {
            Decl::Builtin | Decl::Module => None,
            Decl::Type(TyRef::Pool(t)) => {
                mk(format!("fn {fname}(x: {callee}) -> {callee} {{ x }}\n"), RunKind::ValSame(*t), X, "type")
            }
            Decl::Type(_) => None,
            Decl::Const { cty: ConstTy::I32, tag, .. } => {
                mk(format!("fn {fname}() -> i32 {{ {callee} }}\n"), RunKind::Unit, *tag, d.kind())
            }
            Decl::Const { cty: ConstTy::Pool(t), tag, .. } => {
                mk(format!("fn {fname}() -> {} {{ {callee} }}\n", tp(*t)?), RunKind::ValOut(*t), *tag, d.kind())
            }
            Decl::Fn { shape, tag, .. } => {
                let kind = d.kind();
                let expect = shape.expect(*tag);
                let method = kind == "method";
                let mname = path.last().unwrap();
                // call expression given the textual arguments (receiver first for methods)
                let call = |args: &[&str]| -> String {
                    if method {
                        format!("{}.{mname}({})", args[0], args[1..].join(", "))
                    } else {
                        format!("{callee}({})", args.join(", "))
                    }
                };
                match *shape {
                    Shape::Unit0 | Shape::FpUnit(_) => mk(format!("fn {fname}() -> i32 {{ {} }}\n", call(&[])), RunKind::Unit, expect, kind),
                    Shape::I32 | Shape::FpI32(_) => {
                        mk(format!("fn {fname}() -> i32 {{ let r: i32 = 7; {} }}\n", call(&["r"])), RunKind::Unit, expect, kind)
                    }
                    Shape::I32I32 => {
                        mk(format!("fn {fname}() -> i32 {{ let r: i32 = 7; {} }}\n", call(&["r", "2"])), RunKind::Unit, expect, kind)
                    }
                    Shape::Bool => {
                        mk(format!("fn {fname}() -> i32 {{ let r = true; {} }}\n", call(&["r"])), RunKind::Unit, expect, kind)
                    }
                    Shape::U8I64 => mk(format!("fn {fname}() -> i32 {{ {} }}\n", call(&["5", "11"])), RunKind::Unit, expect, kind),
                    Shape::Str => {
                        mk(format!("fn {fname}() -> i32 {{ let r = \"abcd\"; {} }}\n", call(&["r"])), RunKind::Unit, expect, kind)
                    }
                    Shape::OptRet => mk(
                        format!("fn {fname}() -> i32 {{ let r: i32 = 7; match {} {{ Some(v) => v, None => 77777 }} }}\n", call(&["r"])),
                        RunKind::Unit,
                        expect,
                        kind,
                    ),
                    // the payload that carries the i32 is used as an i32, the other side as a bool
                    Shape::ResOk => mk(
                        format!("fn {fname}() -> i32 {{ let r: i32 = 7; match {} {{ Ok(v) => v + 0, Err(e) => if e {{ 77777 }} else {{ 77778 }} }} }}\n", call(&["r"])),
                        RunKind::Unit,
                        expect,
                        kind,
                    ),
                    Shape::ResErr => mk(
                        format!("fn {fname}() -> i32 {{ let r: i32 = 7; match {} {{ Ok(b) => if b {{ 77777 }} else {{ 77778 }}, Err(e) => e + 0 }} }}\n", call(&["r"])),
                        RunKind::Unit,
                        expect,
                        kind,
                    ),
                    Shape::VerdAcc => mk(
                        format!("fn {fname}() -> i32 {{ let r: i32 = 7; match {} {{ Accept(v) => v + 0, Reject(e) => if e {{ 77777 }} else {{ 77778 }} }} }}\n", call(&["r"])),
                        RunKind::Unit,
                        expect,
                        kind,
                    ),
                    Shape::VerdRej => mk(
                        format!("fn {fname}() -> i32 {{ let r: i32 = 7; match {} {{ Accept(b) => if b {{ 77777 }} else {{ 77778 }}, Reject(e) => e + 0 }} }}\n", call(&["r"])),
                        RunKind::Unit,
                        expect,
                        kind,
                    ),
                    Shape::ValIn(t) => {
                        mk(format!("fn {fname}(x: {}) -> i32 {{ {} }}\n", tp(t)?, call(&["x"])), RunKind::ValIn(t), expect, kind)
                    }
                    Shape::ValInI32(t) => {
                        mk(format!("fn {fname}(x: {}) -> i32 {{ {} }}\n", tp(t)?, call(&["x", "2"])), RunKind::ValIn(t), expect, kind)
                    }
                    Shape::I32ValIn(t) => {
                        mk(format!("fn {fname}(x: {}) -> i32 {{ let r: i32 = 2; {} }}\n", tp(t)?, call(&["r", "x"])), RunKind::ValIn(t), expect, kind)
                    }
                    Shape::ValIn2(t) => {
                        mk(format!("fn {fname}(x: {}) -> i32 {{ {} }}\n", tp(t)?, call(&["x", "x"])), RunKind::ValIn(t), expect, kind)
                    }
                    Shape::ValOut(t) => {
                        mk(format!("fn {fname}() -> {} {{ {} }}\n", tp(t)?, call(&[])), RunKind::ValOut(t), expect, kind)
                    }
                    Shape::I32ValOut(t) => {
                        mk(format!("fn {fname}() -> {} {{ let r: i32 = 7; {} }}\n", tp(t)?, call(&["r"])), RunKind::ValOut(t), expect, kind)
                    }
                    Shape::ValSame(t) => {
                        let p = tp(t)?;
                        mk(format!("fn {fname}(x: {p}) -> {p} {{ {} }}\n", call(&["x"])), RunKind::ValSame(t), expect, kind)
                    }
                    Shape::ValVal(t) => mk(
                        format!("fn {fname}(x: {}) -> {} {{ {} }}\n", tp(t)?, tp((t + 1) % N_POOL)?, call(&["x"])),
                        RunKind::ValNext(t),
                        expect,
                        kind,
                    ),
                    Shape::OptValOut(t) => {
                        mk(format!("fn {fname}() -> {}? {{ {} }}\n", tp(t)?, call(&[])), RunKind::OptValOut(t), expect, kind)
                    }
                }
            }
        }
    }

    fn probes(&self) -> Vec<Probe> {
        let mut out = Vec::new();
        for (p, d, via) in self.reachable() {
            if let Some(pr) = self.render(out.len(), &p, &d, &via) {
                out.push(pr);
            }
        }
        out
    }

    /// Names that are only declared in nested modules (and not imported into the root)
    /// must not resolve as bare names in a script ("exactly at the path where it was
    /// declared"): referring to them must be a compile error - not a success, not a panic.
    fn negative_probes(&self, rng: &mut Rng, first_idx: usize, cap: usize) -> Vec<Probe> {
        let Some(root) = self.scopes.get(&vec![]) else { return vec![] };
        let mut cands: Vec<(String, Decl, usize)> = Vec::new();
        for (sp, sc) in &self.scopes {
            if sp.is_empty() || sc.is_type {
                continue;
            }
            for (name, (d, _)) in &sc.decls {
                if !root.decls.contains_key(name) && !root.imports.contains_key(name) && !cands.iter().any(|c| c.0 == *name) {
                    cands.push((name.clone(), d.clone(), sp.len()));
                }
            }
        }
        rng.shuffle(&mut cands);
        cands.truncate(cap);
        let mut out = Vec::new();
        for (name, d, _) in cands {
            let idx = first_idx + out.len();
            let plain_fn = matches!(&d, Decl::Fn { shape, in_impl: None, .. } if shape.mentions() == (vec![], vec![]));
            let mut p = if plain_fn {
                match self.render(idx, &[name.clone()], &d, "bare-name") {
                    Some(p) => p,
                    None => continue,
                }
            } else {
                Probe {
                    fname: format!("p{idx}"),
                    src: format!("fn p{idx}() -> i32 {{ let q = {name}; 0 }}\n"),
                    run: RunKind::Unit,
                    expect: 0,
                    kind: d.kind(),
                    via: "bare-name".into(),
                    path: name.clone(),
                    negative: false,
                }
            };
            p.negative = true;
            out.push(p);
        }
        out
    }
}

fn compile_src(src: &str, rt: &Runtime<NoCtx>) -> Result<Package<NoCtx>, String> {
    match FileTree::test_file("probe.roto", src, 0).compile(rt) {
        Ok(p) => Ok(p),
        Err(e) => {
            let mut s = String::new();
            let _ = e.write(&mut s, false);
            Err(s)
        }
    }
}

fn es<E: std::fmt::Display>(e: E) -> String {
    format!("{e}")
}

fn call_t<T: PoolTy>(pkg: &mut Package<NoCtx>, name: &str, run: RunKind) -> Result<i32, String> {
    Ok(match run {
        RunKind::ValIn(_) => pkg.get_function::<fn(Val<T>) -> i32>(name).map_err(es)?.call(Val(T::mk(X))),
        RunKind::ValOut(_) => pkg.get_function::<fn() -> Val<T>>(name).map_err(es)?.call().0.get(),
        RunKind::ValSame(_) => pkg.get_function::<fn(Val<T>) -> Val<T>>(name).map_err(es)?.call(Val(T::mk(X))).0.get(),
        RunKind::ValNext(_) => pkg.get_function::<fn(Val<T>) -> Val<T::Next>>(name).map_err(es)?.call(Val(T::mk(X))).0.get(),
        RunKind::OptValOut(_) => match pkg.get_function::<fn() -> Option<Val<T>>>(name).map_err(es)?.call() {
            Some(v) => v.0.get(),
            None => -77777,
        },
        RunKind::Unit => unreachable!(),
    })
}

fn call_probe(pkg: &mut Package<NoCtx>, p: &Probe) -> Result<i32, String> {
    match p.run {
        RunKind::Unit => Ok(pkg.get_function::<fn() -> i32>(&p.fname).map_err(|e| format!("{e}"))?.call()),
        RunKind::ValIn(t) | RunKind::ValOut(t) | RunKind::ValSame(t) | RunKind::ValNext(t) | RunKind::OptValOut(t) => {
            with_ty!(t, T, call_t::<T>(pkg, &p.fname, p.run))
        }
    }
}

fn first_lines(s: &str, n: usize) -> String {
    s.lines().filter(|l| !l.trim().is_empty()).take(n).collect::<Vec<_>>().join(" | ")
}

/// Compile and evaluate the probes; every probe is one verdict.
fn run_probes(rt: &Runtime<NoCtx>, probes: &[Probe], out: &mut CaseOut, ctx: &J, tags: bool) {
    let positive: Vec<&Probe> = probes.iter().filter(|p| !p.negative).collect();
    // fast path: all probes in one file
    let all: String = positive.iter().map(|p| p.src.as_str()).collect();
    let mut whole = if positive.is_empty() { None } else { catch(|| compile_src(&all, rt)).ok().and_then(|r| r.ok()) };
    out.evals += 1;
    for p in probes {
        out.events += 1;
        if tags {
            out.tags.push(format!("probe:{}@{}", p.kind, p.via));
        }
        let detail = || {
            J::obj().set("path", p.path.as_str()).set("probe", p.src.as_str()).set("expected", p.expect).set("library", ctx.clone())
        };
        if p.negative {
            out.evals += 1;
            match catch(|| compile_src(&p.src, rt)) {
                Err(pm) => out.viol(format!("{}@probe:{}", panic_sig(&pm), p.via), format!("compiling the probe panicked: {pm}"), detail()),
                Ok(Err(_)) => {}
                Ok(Ok(_)) => out.viol(
                    format!("reach-extra:{}@{}", p.kind, p.via),
                    format!("`{}` resolves at the root although it was only declared in a nested module", p.path),
                    detail(),
                ),
            }
            continue;
        }
        let mut own;
        let pkg = match whole.as_mut() {
            Some(pkg) => pkg,
            None => {
                out.evals += 1;
                match catch(|| compile_src(&p.src, rt)) {
                    Err(pm) => {
                        out.viol(
                            format!("{}@probe:{}", panic_sig(&pm), p.via),
                            format!("compiling the probe panicked: {pm}"),
                            detail(),
                        );
                        continue;
                    }
                    Ok(Err(rep)) => {
                        out.viol(
                            format!("reach:{}@{}", p.kind, p.via),
                            format!("`{}` is not usable where it was declared: {}", p.path, first_lines(&rep, 4)),
                            detail(),
                        );
                        continue;
                    }
                    Ok(Ok(pkg)) => {
                        own = pkg;
                        &mut own
                    }
                }
            }
        };
        out.evals += 1;
        match catch(|| call_probe(pkg, p)) {
            Err(pm) => out.viol(format!("{}@probe:{}", panic_sig(&pm), p.via), format!("calling the probe panicked: {pm}"), detail()),
            Ok(Err(e)) => out.viol(
                format!("reach:{}@{}", p.kind, p.via),
                format!("`{}` does not have the declared signature: {}", p.path, first_lines(&e, 3)),
                detail(),
            ),
            Ok(Ok(got)) if got != p.expect => out.viol(
                format!("reach:{}@{}", p.kind, p.via),
                format!("`{}` returned {got}, the item declared there returns {}", p.path, p.expect),
                detail(),
            ),
            Ok(Ok(_)) => {}
        }
    }
}

// ---------------------------------------------------------------------------
// Generator
// ---------------------------------------------------------------------------

// none of these is a built-in of the default runtime, a keyword, or a name used
// by the probe scripts (x, r, v, p<N>)
const ASCII_NAMES: [&str; 30] = [
    "alpha", "beta_2", "gamma", "Delta", "_eps", "zeta9", "eta", "Theta", "iota", "KAPPA", "lam_bda", "mu", "nu", "Xi", "omicron",
    "pi_", "rho", "Sigma", "tau", "upsilon", "phi", "chi", "psi", "omega", "__w", "q1", "snake_case_name", "CamelCase", "SHOUT_CASE",
    "a",
];
const NONASCII_NAMES: [&str; 8] =
    ["gr\u{f6}\u{df}e", "na\u{ef}ve", "caf\u{e9}", "T\u{3bb}", "a\u{540d}\u{524d}", "e\u{301}tat", "stra\u{df}e_2", "k\u{3bb}9"];
const NONASCII_FIRST_NAMES: [&str; 6] = ["\u{e9}lan", "\u{540d}\u{524d}", "\u{3bb}x", "\u{dc}nit", "\u{436}_1", "\u{f1}"];
const KEYWORD_NAMES: [&str; 10] = ["fn", "match", "import", "accept", "filtermap", "std", "pkg", "super", "let", "test"];

#[derive(Clone, Debug)]
struct GScope {
    path: Vec<String>,
    items: Vec<Node>,
    subs: Vec<usize>,
}

struct CaseGen {
    next_tag: i32,
    fp_unit: usize,
    fp_i32: usize,
    nonascii_first: bool,
    underscore: bool,
}

impl CaseGen {
    fn tag(&mut self) -> i32 {
        self.next_tag += 100;
        self.next_tag
    }
}

struct LibGen<'a> {
    rng: &'a mut Rng,
    cg: &'a mut CaseGen,
    model: &'a Model,
    scopes: Vec<GScope>,
    used: BTreeMap<Vec<String>, BTreeSet<String>>,
    /// pool types registered before this add or by it, with their absolute paths
    tpaths: BTreeMap<usize, Vec<String>>,
    injected: String,
}

struct GenLib {
    nodes: Vec<Node>,
    order: &'static str,
    injected: String,
}

impl<'a> LibGen<'a> {
    fn new(rng: &'a mut Rng, cg: &'a mut CaseGen, model: &'a Model) -> Self {
        let mut used: BTreeMap<Vec<String>, BTreeSet<String>> = BTreeMap::new();
        for (sp, sc) in &model.scopes {
            let e = used.entry(sp.clone()).or_default();
            for (n, (d, _)) in &sc.decls {
                if !matches!(d, Decl::Builtin) {
                    e.insert(n.clone());
                }
            }
            for n in sc.imports.keys() {
                e.insert(n.clone());
            }
        }
        let mut tpaths = BTreeMap::new();
        for (t, (p, _)) in &model.types {
            if let TyRef::Pool(t) = t {
                tpaths.insert(*t, p.clone());
            }
        }
        LibGen { rng, cg, model, scopes: vec![GScope { path: vec![], items: vec![], subs: vec![] }], used, tpaths, injected: String::new() }
    }

    fn fresh_name(&mut self, sp: &[String]) -> String {
        let base: String = if self.cg.underscore && self.rng.chance(1, 3) {
            self.cg.underscore = false;
            "_".into()
        } else if self.cg.nonascii_first && self.rng.chance(1, 5) {
            (*self.rng.pick(&NONASCII_FIRST_NAMES)).into()
        } else if self.rng.chance(1, 6) {
            (*self.rng.pick(&NONASCII_NAMES)).into()
        } else {
            (*self.rng.pick(&ASCII_NAMES)).into()
        };
        let set = self.used.entry(sp.to_vec()).or_default();
        let mut name = base.clone();
        let mut i = 2;
        while set.contains(&name) {
            name = format!("{base}{i}");
            i += 1;
        }
        set.insert(name.clone());
        name
    }

    fn avail(&self) -> Vec<usize> {
        self.tpaths.keys().copied().collect()
    }
    fn free_types(&self) -> Vec<usize> {
        (0..N_POOL).filter(|t| !self.tpaths.contains_key(t)).collect()
    }
    fn any_scope(&mut self) -> usize {
        // the root is as likely as all modules together
        if self.scopes.len() == 1 || self.rng.bool() { 0 } else { 1 + self.rng.usize(self.scopes.len() - 1) }
    }

    fn prim_shape(&mut self) -> Shape {
        match self.rng.below(10) {
            0 if self.cg.fp_unit < 8 => {
                self.cg.fp_unit += 1;
                Shape::FpUnit(self.cg.fp_unit - 1)
            }
            1 if self.cg.fp_i32 < 8 => {
                self.cg.fp_i32 += 1;
                Shape::FpI32(self.cg.fp_i32 - 1)
            }
            _ => *self.rng.pick(&PRIM_SHAPES),
        }
    }

    fn typed_shape(&mut self, t: usize) -> Shape {
        let next_ok = self.tpaths.contains_key(&((t + 1) % N_POOL));
        loop {
            let s = match self.rng.below(9) {
                0 => Shape::ValIn(t),
                1 => Shape::ValInI32(t),
                2 => Shape::I32ValIn(t),
                3 => Shape::ValIn2(t),
                4 => Shape::ValOut(t),
                5 => Shape::I32ValOut(t),
                6 => Shape::ValSame(t),
                7 => Shape::OptValOut(t),
                _ => Shape::ValVal(t),
            };
            if matches!(s, Shape::ValVal(_)) && !next_ok {
                continue;
            }
            return s;
        }
    }

    fn free_fn_shape(&mut self) -> Shape {
        let av = self.avail();
        if av.is_empty() || self.rng.chance(45, 100) {
            self.prim_shape()
        } else {
            let t = av[self.rng.usize(av.len())];
            self.typed_shape(t)
        }
    }

    fn impl_fn_shape(&mut self, ty: TyRef) -> Shape {
        match ty {
            TyRef::Pool(t) => {
                if self.rng.chance(3, 10) {
                    self.prim_shape()
                } else if self.rng.chance(1, 8) {
                    // a static function over another registered type
                    let av = self.avail();
                    let u = av[self.rng.usize(av.len())];
                    if u == t { Shape::ValOut(t) } else { Shape::ValIn(u) }
                } else {
                    self.typed_shape(t)
                }
            }
            TyRef::I32 => *self.rng.pick(&[
                Shape::I32,
                Shape::I32I32,
                Shape::Unit0,
                Shape::Bool,
                Shape::OptRet,
                Shape::ResOk,
                Shape::ResErr,
                Shape::VerdAcc,
                Shape::VerdRej,
            ]),
            TyRef::Bool => *self.rng.pick(&[Shape::Bool, Shape::Unit0, Shape::I32]),
            TyRef::Str => *self.rng.pick(&[Shape::Str, Shape::Unit0, Shape::I32]),
        }
    }

    fn gen_const_ty(&mut self) -> ConstTy {
        let av = self.avail();
        if av.is_empty() || self.rng.chance(6, 10) { ConstTy::I32 } else { ConstTy::Pool(av[self.rng.usize(av.len())]) }
    }

    fn type_scope_path(&self, ty: TyRef) -> Vec<String> {
        match ty {
            TyRef::Pool(t) => self.tpaths[&t].clone(),
            TyRef::I32 => vec!["i32".into()],
            TyRef::Bool => vec!["bool".into()],
            TyRef::Str => vec!["String".into()],
        }
    }

    fn gen_impl(&mut self, ty: TyRef, n_children: usize) -> Node {
        let tsp = self.type_scope_path(ty);
        let mut children = Vec::new();
        for _ in 0..n_children {
            let name = self.fresh_name(&tsp);
            if self.rng.chance(3, 4) {
                let shape = self.impl_fn_shape(ty);
                let tag = self.cg.tag();
                children.push(Node::func(&name, shape, tag));
            } else {
                let cty = self.gen_const_ty();
                let tag = self.cg.tag();
                children.push(Node::constant(&name, cty, tag));
            }
        }
        Node::imp(ty, children)
    }

    fn assemble(&self, s: usize) -> Vec<Node> {
        let mut out = self.scopes[s].items.clone();
        for &sub in &self.scopes[s].subs {
            let name = self.scopes[sub].path.last().unwrap().clone();
            out.push(Node::module(&name, self.assemble(sub)));
        }
        out
    }

    fn scope_by_path(&self, p: &[String]) -> Option<usize> {
        self.scopes.iter().position(|s| s.path == p)
    }

    /// The clean part: modules, types, functions, constants, impl blocks.
    fn gen_items(&mut self) {
        let n_items = match self.rng.below(10) {
            0 => 1,
            1..=4 => 2 + self.rng.usize(3),
            5..=7 => 5 + self.rng.usize(4),
            _ => 9 + self.rng.usize(4),
        };
        let mut left = n_items;
        let n_mod = self.rng.usize(4).min(left.saturating_sub(1));
        for _ in 0..n_mod {
            let cands: Vec<usize> = (0..self.scopes.len()).filter(|&i| self.scopes[i].path.len() < 3).collect();
            let parent = cands[self.rng.usize(cands.len())];
            let pp = self.scopes[parent].path.clone();
            let name = self.fresh_name(&pp);
            let mut path = pp;
            path.push(name);
            self.used.entry(path.clone()).or_default();
            self.scopes.push(GScope { path, items: vec![], subs: vec![] });
            let id = self.scopes.len() - 1;
            self.scopes[parent].subs.push(id);
            left -= 1;
        }
        let n_ty = self.rng.usize(4).min(left).min(self.free_types().len());
        for _ in 0..n_ty {
            let free = self.free_types();
            let t = free[self.rng.usize(free.len())];
            let s = self.any_scope();
            let sp = self.scopes[s].path.clone();
            // inside a module the names of the prelude enums are free: a type may take one
            let enum_name = if !sp.is_empty() && self.rng.chance(1, 6) {
                let n = *self.rng.pick(&["Option", "Result", "Verdict"]);
                let set = self.used.entry(sp.clone()).or_default();
                if set.insert(n.to_string()) { Some(n.to_string()) } else { None }
            } else {
                None
            };
            let name = match enum_name {
                Some(n) => n,
                None => self.fresh_name(&sp),
            };
            let copy = is_copy_ty(t) && self.rng.bool();
            self.scopes[s].items.push(Node::ty(&name, t, copy));
            let mut tp = sp;
            tp.push(name);
            self.used.entry(tp.clone()).or_default();
            self.tpaths.insert(t, tp);
            left -= 1;
        }
        while left > 0 {
            left -= 1;
            let s = self.any_scope();
            let sp = self.scopes[s].path.clone();
            match self.rng.weighted(&[45, 22, 33]) {
                0 => {
                    let name = self.fresh_name(&sp);
                    let shape = self.free_fn_shape();
                    let tag = self.cg.tag();
                    self.scopes[s].items.push(Node::func(&name, shape, tag));
                }
                1 => {
                    let name = self.fresh_name(&sp);
                    let cty = self.gen_const_ty();
                    let tag = self.cg.tag();
                    self.scopes[s].items.push(Node::constant(&name, cty, tag));
                }
                _ => {
                    let av = self.avail();
                    let ty = if av.is_empty() || self.rng.chance(1, 5) {
                        *self.rng.pick(&[TyRef::I32, TyRef::I32, TyRef::Bool, TyRef::Str])
                    } else {
                        TyRef::Pool(av[self.rng.usize(av.len())])
                    };
                    let n = 1 + self.rng.usize(3);
                    let node = self.gen_impl(ty, n);
                    self.scopes[s].items.push(node);
                }
            }
        }
    }

    /// Candidate `use` paths relative to scope `sp` in `m`: (path, kind of the target)
    fn use_candidates(m: &Model, sp: &[String]) -> Vec<(Vec<String>, &'static str)> {
        fn walk(m: &Model, abs: &[String], rel: &mut Vec<String>, depth: usize, out: &mut Vec<(Vec<String>, &'static str)>) {
            let Some(sc) = m.scopes.get(abs) else { return };
            for (n, (d, _)) in &sc.decls {
                if matches!(d, Decl::Builtin) || d.kind() == "method" {
                    continue;
                }
                rel.push(n.clone());
                out.push((rel.clone(), d.kind()));
                if depth < 3 && matches!(d, Decl::Module | Decl::Type(_)) {
                    let mut a = abs.to_vec();
                    a.push(n.clone());
                    walk(m, &a, rel, depth + 1, out);
                }
                rel.pop();
            }
        }
        let mut out = Vec::new();
        walk(m, sp, &mut Vec::new(), 1, &mut out);
        out
    }

    fn gen_uses(&mut self, n_uses: usize) {
        let mut tmp = self.model.clone();
        let nodes = self.assemble(0);
        let _ = tmp.apply(usize::MAX, &nodes);
        for _ in 0..n_uses {
            let s = if self.rng.chance(7, 10) { 0 } else { self.any_scope() };
            let sp = self.scopes[s].path.clone();
            if self.rng.chance(1, 15) {
                self.scopes[s].items.push(Node::uses(vec![], "no imports"));
                continue;
            }
            let cands = Self::use_candidates(&tmp, &sp);
            let n_paths = if self.rng.chance(1, 5) { 2 } else { 1 };
            let mut imports = Vec::new();
            let mut notes = Vec::new();
            for _ in 0..n_paths {
                let want = [1usize, 2, 2, 2, 2, 2, 3, 3, 3, 3][self.rng.usize(10)];
                let pool: Vec<&(Vec<String>, &'static str)> = {
                    let exact: Vec<_> = cands.iter().filter(|c| c.0.len() == want).collect();
                    let longer: Vec<_> = cands.iter().filter(|c| c.0.len() >= 2).collect();
                    if !exact.is_empty() {
                        exact
                    } else if !longer.is_empty() {
                        longer
                    } else if self.rng.chance(1, 4) {
                        cands.iter().collect()
                    } else {
                        Vec::new()
                    }
                };
                if pool.is_empty() {
                    continue;
                }
                for _ in 0..5 {
                    let (p, k) = pool[self.rng.usize(pool.len())];
                    let last = p.last().unwrap();
                    let set = self.used.entry(sp.clone()).or_default();
                    if p.len() == 1 || !set.contains(last) {
                        if p.len() > 1 {
                            set.insert(last.clone());
                        }
                        imports.push(p.clone());
                        notes.push(format!("len{}:{k}", p.len()));
                        break;
                    }
                }
            }
            let note = notes.join(",");
            self.scopes[s].items.push(Node::uses(imports, &note));
        }
    }
}

// ---------------------------------------------------------------------------
// Defect injection (the model, not the injector, decides the expected verdict)
// ---------------------------------------------------------------------------

const DEFECTS: [&str; 8] = ["bad-name", "dup", "dup-across", "dup-builtin", "type-twice", "unreg", "use-bad", "use-clash"];

fn bad_name(rng: &mut Rng) -> String {
    match rng.below(12) {
        0 | 1 => (*rng.pick(&KEYWORD_NAMES)).to_string(),
        2 => (*rng.pick(&["true", "false"])).to_string(),
        3 => String::new(),
        4 => "two words".into(),
        5 => " lead".into(),
        6 => (*rng.pick(&["trail ", "trail\t", "trail\n"])).to_string(),
        7 => (*rng.pick(&["1abc", "9", "0x"])).to_string(),
        8 => "abc//def".into(),
        9 => (*rng.pick(&["a-b", "a.b", "a::b"])).to_string(),
        10 => (*rng.pick(&["f()", "\"q\"", "a+", "#a"])).to_string(),
        _ => (*rng.pick(&["\u{b7}x", "\u{2019}", "a\u{2014}b"])).to_string(),
    }
}

impl<'a> LibGen<'a> {
    /// new named node of a random kind with the given name (for collisions)
    fn named_node(&mut self, name: &str, allow_type: bool, allow_mod: bool) -> Node {
        loop {
            match self.rng.below(4) {
                0 => {
                    let shape = self.prim_shape();
                    let tag = self.cg.tag();
                    return Node::func(name, shape, tag);
                }
                1 => {
                    let tag = self.cg.tag();
                    return Node::constant(name, ConstTy::I32, tag);
                }
                2 if allow_mod => return Node::module(name, vec![]),
                3 if allow_type => {
                    let free = self.free_types();
                    if free.is_empty() {
                        continue;
                    }
                    let t = free[self.rng.usize(free.len())];
                    return Node::ty(name, t, false);
                }
                _ => continue,
            }
        }
    }

    fn inject(&mut self, which: &str, first_add: bool) -> bool {
        match which {
            "bad-name" => {
                // (scope, item index, child index inside an impl) or a module scope
                let mut victims: Vec<(usize, Option<usize>, Option<usize>)> = Vec::new();
                for (si, s) in self.scopes.iter().enumerate() {
                    if si > 0 {
                        victims.push((si, None, None));
                    }
                    for (ii, n) in s.items.iter().enumerate() {
                        match n.kind {
                            NK::Type | NK::Fn | NK::Const => victims.push((si, Some(ii), None)),
                            NK::Impl => {
                                for ci in 0..n.children.len() {
                                    victims.push((si, Some(ii), Some(ci)));
                                }
                            }
                            _ => {}
                        }
                    }
                }
                if victims.is_empty() {
                    return false;
                }
                let v = victims[self.rng.usize(victims.len())];
                let bad = bad_name(self.rng);
                match v {
                    (si, None, _) => {
                        // renaming a module: keep the paths of its sub-scopes consistent
                        let old = self.scopes[si].path.clone();
                        for s in self.scopes.iter_mut() {
                            if s.path.len() >= old.len() && s.path[..old.len()] == old[..] {
                                s.path[old.len() - 1] = bad.clone();
                            }
                        }
                    }
                    (si, Some(ii), None) => self.scopes[si].items[ii].name = bad.clone(),
                    (si, Some(ii), Some(ci)) => self.scopes[si].items[ii].children[ci].name = bad.clone(),
                }
                self.injected = format!("bad-name {bad:?}");
                true
            }
            "dup" | "dup-across" => {
                // scopes that this add can put a name into: root, its own modules, type scopes
                let mut cands: Vec<(Vec<String>, String, bool)> = Vec::new();
                let own: Vec<Vec<String>> = self.scopes.iter().map(|s| s.path.clone()).collect();
                let tscopes: Vec<Vec<String>> = self.tpaths.values().cloned().collect();
                for (sp, names) in &self.used {
                    let is_t = tscopes.contains(sp);
                    if !(own.contains(sp) || is_t) {
                        continue;
                    }
                    for n in names {
                        let old = self.model.scopes.get(sp).is_some_and(|s| s.decls.contains_key(n) || s.imports.contains_key(n));
                        if (which == "dup-across") == old {
                            cands.push((sp.clone(), n.clone(), is_t));
                        }
                    }
                }
                if cands.is_empty() {
                    return false;
                }
                let (sp, name, is_t) = cands[self.rng.usize(cands.len())].clone();
                if is_t {
                    let t = *self.tpaths.iter().find(|(_, p)| **p == sp).unwrap().0;
                    let child = self.named_node(&name, false, false);
                    let s = self.any_scope();
                    let mut node = Node::imp(TyRef::Pool(t), vec![child]);
                    node.note = "injected: duplicate member".into();
                    self.scopes[s].items.push(node);
                } else {
                    let si = self.scope_by_path(&sp).unwrap();
                    let mut node = self.named_node(&name, true, true);
                    node.note = "injected: duplicate name".into();
                    if node.kind == NK::Type
                        && let TyRef::Pool(t) = node.ty
                    {
                        let mut tp = sp.clone();
                        tp.push(name.clone());
                        self.tpaths.insert(t, tp);
                    }
                    self.scopes[si].items.push(node);
                }
                self.injected = format!("{which} {name:?} in {:?}", join_path(&sp));
                true
            }
            "dup-builtin" => {
                let name = *self.rng.pick(&BUILTIN_TYPES);
                let mut node = self.named_node(name, true, true);
                node.note = "injected: name of a built-in".into();
                self.scopes[0].items.push(node);
                self.injected = format!("dup-builtin {name:?}");
                true
            }
            "type-twice" => {
                let av = self.avail();
                if av.is_empty() {
                    return false;
                }
                let t = av[self.rng.usize(av.len())];
                let orig = self.tpaths[&t].clone();
                let s = self.any_scope();
                let sp = self.scopes[s].path.clone();
                let name = if self.rng.bool() { orig.last().unwrap().clone() } else { self.fresh_name(&sp) };
                let mut node = Node::ty(&name, t, false);
                node.note = format!("injected: T{t} is already registered as {}", join_path(&orig));
                self.scopes[s].items.push(node);
                self.injected = format!("type-twice T{t}");
                true
            }
            "unreg" => {
                let free = self.free_types();
                if free.is_empty() {
                    return false;
                }
                let u = free[self.rng.usize(free.len())];
                let s = self.any_scope();
                let sp = self.scopes[s].path.clone();
                let tag = self.cg.tag();
                let av = self.avail();
                let mut node = match self.rng.below(8) {
                    0 => Node::func(&self.fresh_name(&sp), Shape::ValIn(u), tag),
                    1 => Node::func(&self.fresh_name(&sp), Shape::ValOut(u), tag),
                    2 => Node::constant(&self.fresh_name(&sp), ConstTy::Pool(u), tag),
                    3 => Node::imp(TyRef::Pool(u), vec![Node::func("orphan", Shape::Unit0, tag)]),
                    4 => Node::func(&self.fresh_name(&sp), Shape::OptValOut(u), tag),
                    5 => Node::imp(TyRef::Pool(u), vec![Node::constant("ORPHAN", ConstTy::I32, tag)]),
                    6 if !av.is_empty() => {
                        let t = av[self.rng.usize(av.len())];
                        let tsp = self.tpaths[&t].clone();
                        Node::imp(TyRef::Pool(t), vec![Node::func(&self.fresh_name(&tsp), Shape::I32ValIn(u), tag)])
                    }
                    _ => {
                        // a registered parameter type and an unregistered return type
                        let prev = (u + N_POOL - 1) % N_POOL;
                        if self.tpaths.contains_key(&prev) {
                            Node::func(&self.fresh_name(&sp), Shape::ValVal(prev), tag)
                        } else {
                            Node::func(&self.fresh_name(&sp), Shape::I32ValOut(u), tag)
                        }
                    }
                };
                node.note = format!("injected: T{u} is not registered");
                self.scopes[s].items.push(node);
                self.injected = format!("unreg T{u}");
                true
            }
            "use-bad" => {
                let s = if self.rng.chance(8, 10) { 0 } else { self.any_scope() };
                let sp = self.scopes[s].path.clone();
                let mut tmp = self.model.clone();
                let nodes = self.assemble(0);
                let _ = tmp.apply(usize::MAX, &nodes);
                let cands = Self::use_candidates(&tmp, &sp);
                let scopes: Vec<&(Vec<String>, &'static str)> = cands.iter().filter(|c| c.1 == "mod" || c.1 == "type").collect();
                let leaves: Vec<&(Vec<String>, &'static str)> = cands.iter().filter(|c| c.1 == "fn" || c.1 == "const").collect();
                let (path, what): (Vec<String>, &str) = match self.rng.below(6) {
                    0 => (vec![], "empty path"),
                    1 => (vec!["nosuch".into()], "single unknown name"),
                    2 => (vec!["nosuch".into(), "alpha".into()], "unknown first segment"),
                    3 if !scopes.is_empty() => {
                        let mut p = scopes[self.rng.usize(scopes.len())].0.clone();
                        p.push("nosuch".into());
                        (p, "unknown last segment")
                    }
                    4 if !leaves.is_empty() => {
                        let mut p = leaves[self.rng.usize(leaves.len())].0.clone();
                        p.push("inner".into());
                        (p, "path through a function or constant")
                    }
                    5 if !scopes.is_empty() => {
                        let mut p = scopes[self.rng.usize(scopes.len())].0.clone();
                        p.push("nosuch".into());
                        p.push("leaf".into());
                        (p, "unknown middle segment")
                    }
                    _ => (vec!["nosuch".into(), "beta".into(), "gamma".into()], "unknown first segment"),
                };
                let _ = first_add;
                let mut node = Node::uses(vec![path], "");
                node.note = format!("injected: {what}");
                self.scopes[s].items.push(node);
                self.injected = format!("use-bad ({what})");
                true
            }
            "use-clash" => {
                // an import whose name is already taken in the scope of the `use`
                let s = if self.rng.chance(8, 10) { 0 } else { self.any_scope() };
                let sp = self.scopes[s].path.clone();
                let mut tmp = self.model.clone();
                let nodes = self.assemble(0);
                let _ = tmp.apply(usize::MAX, &nodes);
                let cands: Vec<(Vec<String>, &'static str)> =
                    Self::use_candidates(&tmp, &sp).into_iter().filter(|c| c.0.len() >= 2 && c.1 != "mod" && c.1 != "type").collect();
                if cands.is_empty() {
                    return false;
                }
                let (p, k) = cands[self.rng.usize(cands.len())].clone();
                let last = p.last().unwrap().clone();
                let taken = self.used.get(&sp).is_some_and(|u| u.contains(&last));
                let mut u1 = Node::uses(vec![p.clone()], "");
                u1.note = format!("injected clash: len{}:{k}", p.len());
                if taken {
                    // the name exists already (declared or imported): one more import of it
                    self.scopes[s].items.push(u1);
                } else if self.rng.bool() {
                    let mut u2 = Node::uses(vec![p.clone()], "");
                    u2.note = "injected clash: same import twice".into();
                    self.scopes[s].items.push(u1);
                    self.scopes[s].items.push(u2);
                } else {
                    let mut d = self.named_node(&last, false, sp.len() < 3);
                    d.note = "injected clash: declared next to an import of the same name".into();
                    self.scopes[s].items.push(u1);
                    self.scopes[s].items.push(d);
                }
                self.injected = format!("use-clash {last:?} in {:?}", join_path(&sp));
                true
            }
            _ => false,
        }
    }

    fn finish(mut self, shuffle: bool) -> GenLib {
        let mut nodes = self.assemble(0);
        fn shuf(rng: &mut Rng, nodes: &mut Vec<Node>) {
            rng.shuffle(nodes);
            for n in nodes.iter_mut() {
                if matches!(n.kind, NK::Module | NK::Impl) {
                    shuf(rng, &mut n.children);
                }
            }
        }
        if shuffle {
            shuf(self.rng, &mut nodes);
        }
        GenLib { nodes, order: if shuffle { "shuffled" } else { "declared" }, injected: std::mem::take(&mut self.injected) }
    }
}

// ---------------------------------------------------------------------------
// Running a case
// ---------------------------------------------------------------------------

#[derive(Clone, Debug)]
enum Outcome {
    Ok,
    Err(String),
    Panic(String),
}

impl Outcome {
    fn word(&self) -> &'static str {
        match self {
            Outcome::Ok => "ok",
            Outcome::Err(_) => "err",
            Outcome::Panic(_) => "panic",
        }
    }
    fn text(&self) -> String {
        match self {
            Outcome::Ok => "Ok".into(),
            Outcome::Err(m) => format!("Err: {m}"),
            Outcome::Panic(m) => format!("panic: {m}"),
        }
    }
}

#[derive(Clone, Copy, Debug, PartialEq, Eq)]
enum Api {
    AddLibrary,
    AddVec,
    FromLib,
}

/// Construct the items and add them. `rt == None`: create the runtime with `from_lib`.
fn do_add(rt: &mut Option<Runtime<NoCtx>>, nodes: &[Node], api: Api) -> Outcome {
    let items = match catch(|| build_items(nodes)) {
        Err(p) => return Outcome::Panic(p),
        Ok(Err(e)) => return Outcome::Err(format!("constructor: {e}")),
        Ok(Ok(items)) => items,
    };
    let r = catch(|| -> Result<(), RegistrationError> {
        match (api, rt.as_mut()) {
            (Api::FromLib, None) => {
                *rt = Some(Runtime::from_lib(Library::from(items))?);
                Ok(())
            }
            (Api::AddVec, Some(rt)) => rt.add(items),
            (_, Some(rt)) => rt.add(Library::from(items)),
            (_, None) => {
                let mut r = Runtime::new();
                let res = r.add(items);
                *rt = Some(r);
                res
            }
        }
    });
    match r {
        Err(p) => Outcome::Panic(p),
        Ok(Err(e)) => Outcome::Err(format!("{e}")),
        Ok(Ok(())) => Outcome::Ok,
    }
}

fn node_class(n: &Node, nested: bool, in_impl: Option<TyRef>) -> String {
    let at = if nested { "nested" } else { "root" };
    match n.kind {
        NK::Use => {
            if n.imports.is_empty() {
                return format!("use:no-imports:{at}");
            }
            let max = n.imports.iter().map(|p| p.len()).max().unwrap_or(0);
            format!("use:len{max}:{at}")
        }
        NK::Impl => format!("impl:{}", if matches!(n.ty, TyRef::Pool(_)) { "pool" } else { "primitive" }),
        NK::Module => format!("mod:{}", classify(&n.name).1),
        NK::Type => format!("type:{}", classify(&n.name).1),
        NK::Const => format!("{}:{}", if in_impl.is_some() { "assoc-const" } else { "const" }, classify(&n.name).1),
        NK::Fn => {
            let k = match in_impl {
                None => "fn",
                Some(t) if n.shape.params().first() == Some(&t) => "method",
                Some(_) => "static",
            };
            format!("{k}:{}", classify(&n.name).1)
        }
    }
}

/// all index paths into the tree, `use` items first
fn node_paths(nodes: &[Node]) -> Vec<Vec<usize>> {
    fn walk(nodes: &[Node], pre: &mut Vec<usize>, out: &mut Vec<Vec<usize>>) {
        for (i, n) in nodes.iter().enumerate() {
            pre.push(i);
            out.push(pre.clone());
            walk(&n.children, pre, out);
            pre.pop();
        }
    }
    let mut out = Vec::new();
    walk(nodes, &mut Vec::new(), &mut out);
    let is_use = |p: &Vec<usize>| node_at(nodes, p).0.kind == NK::Use;
    let (mut a, b): (Vec<_>, Vec<_>) = out.into_iter().partition(is_use);
    a.extend(b);
    a
}

/// (node, nested in a module, enclosing impl type)
fn node_at<'n>(nodes: &'n [Node], path: &[usize]) -> (&'n Node, bool, Option<TyRef>) {
    let mut cur = nodes;
    let mut nested = false;
    let mut in_impl = None;
    let mut n = &nodes[path[0]];
    for (d, &i) in path.iter().enumerate() {
        n = &cur[i];
        if d + 1 < path.len() {
            match n.kind {
                NK::Module => nested = true,
                NK::Impl => in_impl = Some(n.ty),
                _ => {}
            }
            cur = &n.children;
        }
    }
    (n, nested, in_impl)
}

fn without(nodes: &[Node], path: &[usize]) -> Vec<Node> {
    let mut out = nodes.to_vec();
    if path.len() == 1 {
        out.remove(path[0]);
    } else {
        out[path[0]].children = without(&nodes[path[0]].children, &path[1..]);
    }
    out
}

fn model_ok(seq: &[Vec<Node>]) -> bool {
    let mut m = Model::new();
    seq.iter().enumerate().all(|(i, lib)| m.apply(i, lib).labels.is_empty())
}

/// remove every `use` item of the given class
fn strip_uses(nodes: &[Node], nested: bool, class: &str) -> Vec<Node> {
    let mut out = Vec::new();
    for n in nodes {
        if n.kind == NK::Use && node_class(n, nested, None) == class {
            continue;
        }
        let mut n = n.clone();
        if n.kind == NK::Module {
            n.children = strip_uses(&n.children, true, class);
        }
        out.push(n);
    }
    out
}

const N_FIXED: u64 = 10;

pub struct Registration;

impl Registration {
    pub fn new() -> Self {
        Registration
    }

    /// Generates library `i` given the model after the previous ones.
    fn gen_lib(rng: &mut Rng, cg: &mut CaseGen, model: &Model, i: usize, defect: Option<&str>) -> GenLib {
        let mut g = LibGen::new(rng, cg, model);
        g.gen_items();
        let n_uses = match g.rng.below(10) {
            0..=3 => 0,
            4..=7 => 1,
            8 => 2,
            _ => 3,
        };
        g.gen_uses(n_uses);
        if let Some(d) = defect {
            let mut d = d;
            if d == "dup-across" && i == 0 {
                d = "dup";
            }
            if !g.inject(d, i == 0) {
                // not applicable to this library: fall back to one that always is
                g.inject("dup-builtin", i == 0);
            }
        }
        let shuffle = g.rng.chance(7, 10);
        g.finish(shuffle)
    }

    fn run_gen(&self, rng: &mut Rng, execute: bool) -> CaseOut {
        let mut out = CaseOut::default();
        let n_adds = [1usize, 1, 1, 1, 1, 1, 2, 2, 2, 3][rng.usize(10)];
        let mut cg = CaseGen { next_tag: 900, fp_unit: 0, fp_i32: 0, nonascii_first: rng.chance(30, 100), underscore: rng.chance(2, 100) };
        let defect: Option<&str> = if rng.chance(45, 100) { None } else { Some(*rng.pick(&DEFECTS)) };
        // the defect goes into the last library most of the time
        let defect_at = if rng.chance(3, 4) { n_adds - 1 } else { rng.usize(n_adds) };
        let first_api = if rng.chance(1, 3) { Api::FromLib } else if rng.bool() { Api::AddLibrary } else { Api::AddVec };
        out.tags.push(format!("adds:{n_adds}"));
        out.tags.push(format!("defect:{}", defect.unwrap_or("none")));

        // generate the whole sequence (library i is generated against the model after 0..i)
        let mut model = Model::new();
        let mut seq: Vec<SeqLib> = Vec::new();
        for i in 0..n_adds {
            let lib = Self::gen_lib(rng, &mut cg, &model, i, if i == defect_at { defect } else { None });
            let api = if i == 0 { first_api } else if rng.bool() { Api::AddLibrary } else { Api::AddVec };
            let neg_seed = rng.next();
            let j = model.apply(i, &lib.nodes);
            out.tags.push(format!("order:{}", lib.order));
            out.tags.push(format!("api:{api:?}"));
            for p in node_paths(&lib.nodes) {
                let (n, nested, in_impl) = node_at(&lib.nodes, &p);
                out.tags.push(format!("item:{}", node_class(n, nested, in_impl)));
                out.tags.push(format!("depth:{}", p.len() - 1));
                if n.kind == NK::Fn {
                    out.tags.push(format!("shape:{}", n.shape.name()));
                }
                if n.kind == NK::Use {
                    for (imp, note) in n.imports.iter().zip(n.note.rsplit(": ").next().unwrap_or("").split(',')) {
                        out.tags.push(format!("use:len{}:{}", imp.len(), note.split(':').nth(1).unwrap_or("-")));
                    }
                }
            }
            let stop = !j.labels.is_empty();
            seq.push(SeqLib { nodes: lib.nodes, api, neg_seed, order: lib.order, injected: lib.injected });
            if stop {
                break;
            }
        }

        let text = seq_text(&seq);
        out.hash = hash_str(&text);
        out.sample = Some(J::obj().set("text", text.as_str()));
        if execute {
            if let Some(at) = run_seq(&seq, &mut out, true) {
                attribute(&seq[..=at], &mut out);
            }
        }
        out.nontrivial = out.events >= 1;
        out.tags.sort();
        out.tags.dedup();
        out
    }
}

#[derive(Clone, Debug)]
struct SeqLib {
    nodes: Vec<Node>,
    api: Api,
    neg_seed: u64,
    order: &'static str,
    injected: String,
}

fn lib_text(i: usize, l: &SeqLib, j: &Judgement) -> String {
    let mut t = format!(
        "add #{i} ({:?}, order {}) expected {}{}{}\n",
        l.api,
        l.order,
        if j.labels.is_empty() { "Ok".to_string() } else { format!("Err [{}]", j.labels.join(", ")) },
        if j.unspecified.is_empty() { String::new() } else { format!(" (unspecified: {})", j.unspecified.join(", ")) },
        if l.injected.is_empty() { String::new() } else { format!(" injected: {}", l.injected) },
    );
    tree_text(&l.nodes, 1, &mut t);
    t
}

fn seq_text(seq: &[SeqLib]) -> String {
    let mut m = Model::new();
    let mut s = String::new();
    for (i, l) in seq.iter().enumerate() {
        let j = m.apply(i, &l.nodes);
        s.push_str(&lib_text(i, l, &j));
    }
    s
}

/// Adds the libraries one after the other to one runtime, compares every verdict with
/// the model and probes after every accepted library. Stops at the first library with
/// a violation. Signatures are provisional (`head@class`); see `attribute`.
fn run_seq(seq: &[SeqLib], out: &mut CaseOut, tags: bool) -> Option<usize> {
    let mut model = Model::new();
    let mut rt: Option<Runtime<NoCtx>> = if seq.first().is_some_and(|l| l.api == Api::FromLib) { None } else { Some(Runtime::new()) };
    for (i, lib) in seq.iter().enumerate() {
        let mut after = model.clone();
        let j = after.apply(i, &lib.nodes);
        let expected = if j.labels.is_empty() { "ok" } else { "err" };
        let lib_j = J::obj().set("add", i).set("expected", expected).set("labels", j.labels.clone()).set("tree", lib_text(i, lib, &j));
        let got = do_add(&mut rt, &lib.nodes, lib.api);
        out.evals += 1;
        out.events += 1;
        if tags {
            out.tags.push(format!("verdict:{expected}-{}", got.word()));
            for l in &j.labels {
                out.tags.push(format!("label:{l}"));
            }
        }
        let cls = j.labels.first().cloned().unwrap_or_default();
        let detail = || J::obj().set("library", lib_j.clone()).set("got", got.text()).set("labels", j.labels.clone());
        match (&got, j.labels.is_empty()) {
            (Outcome::Panic(pm), clean) => {
                let sig = if clean { panic_sig(pm) } else { format!("{}@{cls}", panic_sig(pm)) };
                out.viol(sig, format!("registration panicked: {pm}"), detail());
                return Some(i);
            }
            (Outcome::Ok, true) => {
                model = after;
                out.count("accepted", 1);
                let mut probes = model.probes();
                let mut nrng = Rng::new(lib.neg_seed);
                let neg = model.negative_probes(&mut nrng, probes.len(), 8);
                probes.extend(neg);
                run_probes(rt.as_ref().unwrap(), &probes, out, &lib_j, tags);
                if !out.viols.is_empty() {
                    return Some(i);
                }
            }
            (Outcome::Err(_), false) => return None,
            (Outcome::Ok, false) => {
                if j.unspecified.is_empty() {
                    out.viol(format!("registration:err-got-ok@{cls}"), format!("a library with the defect [{}] was accepted", j.labels.join(", ")), detail());
                    return Some(i);
                }
                return None;
            }
            (Outcome::Err(m), true) => {
                if j.unspecified.is_empty() {
                    out.viol("registration:ok-got-err", format!("a library without defect was rejected: {m}"), detail());
                    return Some(i);
                }
                out.events -= 1;
                return None;
            }
        }
    }
    None
}

/// Signatures that end in `@<class>` are complete. The others get the class of the
/// item whose removal makes the whole case pass (earliest library first).
fn attribute(seq: &[SeqLib], out: &mut CaseOut) {
    let complete = |sig: &str| {
        sig.starts_with("registration:err-got-ok") || (sig.starts_with("panic@") && !sig.contains("@probe:") && sig.matches('@').count() >= 2)
    };
    if out.viols.iter().all(|v| complete(&v.sig)) {
        return;
    }
    let passes = |variant: &[SeqLib], evals: &mut u64| -> bool {
        let libs: Vec<Vec<Node>> = variant.iter().map(|l| l.nodes.clone()).collect();
        if !model_ok(&libs) {
            return false;
        }
        let mut scratch = CaseOut::default();
        let _ = run_seq(variant, &mut scratch, false);
        *evals += scratch.evals;
        // every library of the variant must have been accepted (a rejection can hide
        // behind an unspecified construct)
        let accepted = scratch.counters.iter().find(|c| c.0 == "accepted").map(|c| c.1).unwrap_or(0);
        scratch.viols.is_empty() && accepted == variant.len() as u64
    };
    let mut evals = 0;
    let mut found: Option<String>;
    // 1. one `use` item (earliest library first); 2. all `use` items of one class;
    // 3. one item of another kind
    let single = |uses_round: bool, evals: &mut u64| -> Option<String> {
        for li in 0..seq.len() {
            for p in node_paths(&seq[li].nodes) {
                if (node_at(&seq[li].nodes, &p).0.kind == NK::Use) != uses_round {
                    continue;
                }
                let mut variant = seq.to_vec();
                variant[li].nodes = without(&seq[li].nodes, &p);
                if passes(&variant, evals) {
                    let (n, nested, in_impl) = node_at(&seq[li].nodes, &p);
                    return Some(node_class(n, nested, in_impl));
                }
            }
        }
        None
    };
    found = single(true, &mut evals);
    if found.is_none() {
        // several items at fault: remove all `use` items, then put one class back at a time
        let mut classes: Vec<String> = Vec::new();
        for l in seq {
            for p in node_paths(&l.nodes) {
                let (n, nested, _) = node_at(&l.nodes, &p);
                if n.kind == NK::Use {
                    let c = node_class(n, nested, None);
                    if !classes.contains(&c) {
                        classes.push(c);
                    }
                }
            }
        }
        classes.sort();
        let strip_but = |keep: Option<&String>| -> Vec<SeqLib> {
            seq.iter()
                .map(|l| {
                    let mut l = l.clone();
                    for c in classes.iter().filter(|c| Some(*c) != keep) {
                        l.nodes = strip_uses(&l.nodes, false, c);
                    }
                    l
                })
                .collect()
        };
        if !classes.is_empty() && passes(&strip_but(None), &mut evals) {
            for c in &classes {
                if !passes(&strip_but(Some(c)), &mut evals) {
                    found = Some(c.clone());
                    break;
                }
            }
        }
    }
    if found.is_none() {
        found = single(false, &mut evals);
    }
    out.evals += evals;
    let culprit = found.unwrap_or_else(|| "unattributed".into());
    for v in out.viols.iter_mut() {
        if complete(&v.sig) {
            continue;
        }
        if let Some(via) = v.sig.strip_prefix("reach:").or_else(|| v.sig.strip_prefix("reach-extra:")).and_then(|r| r.split_once('@')).map(|x| x.1.to_string())
        {
            // probe signatures already name the path shape; add the culprit when it is another construct
            let own = via.replace("use-type:", "use:").replace("use-mod:", "use:");
            if culprit.starts_with("use:") {
                // the item at fault is the `use` declaration, whatever it imports
                let head = if v.sig.starts_with("reach-extra:") { "reach-extra" } else { "reach" };
                v.sig = format!("{head}:use@{culprit}");
            } else if own != culprit && culprit != "unattributed" {
                v.sig = format!("{}<-{culprit}", v.sig);
            }
        } else if let Some((head, via)) = v.sig.rsplit_once("@probe:") {
            let own = via.replace("use-type:", "use:").replace("use-mod:", "use:");
            v.sig = if own == culprit || culprit == "unattributed" { format!("{head}@probe:{own}") } else { format!("{head}@probe:{own}<-{culprit}") };
        } else {
            v.sig = format!("{}@{culprit}", v.sig);
        }
        if let J::Obj(_) = v.detail {
            v.detail.put("attributed_to", culprit.as_str());
        }
    }
}

// ---------------------------------------------------------------------------
// Fixed libraries written with `library!` (the macro is compile-time)
// ---------------------------------------------------------------------------

#[derive(Clone, PartialEq, Debug)]
pub struct M0(pub i32);
#[derive(Clone, Copy, PartialEq, Debug)]
pub struct M1(pub i32);

struct Fixed {
    name: &'static str,
    /// (library, must be accepted)
    adds: Vec<(Library, bool)>,
    /// (item kind @ path shape, expression of type i32, expected value)
    probes: Vec<(&'static str, &'static str, i32)>,
}

fn fixed(k: u64) -> Fixed {
    match k {
        0 => Fixed {
            name: "macro:nested-modules",
            adds: vec![(
                library! {
                    /// top-level function
                    fn top() -> i32 { 11 }
                    /// top-level constant
                    const TOPK: i32 = 12;
                    mod a {
                        fn f() -> i32 { 21 }
                        mod b {
                            const K: i32 = 31;
                            mod c {
                                fn deep(x: i32) -> i32 { 40 + x }
                            }
                        }
                    }
                },
                true,
            )],
            probes: vec![
                ("fn@declared:d0", "top()", 11),
                ("const@declared:d0", "TOPK", 12),
                ("fn@declared:d1", "a.f()", 21),
                ("const@declared:d2", "a.b.K", 31),
                ("fn@declared:d3", "a.b.c.deep(2)", 42),
            ],
        },
        1 => Fixed {
            name: "macro:users-before-type",
            adds: vec![(
                library! {
                    fn read(x: Val<M0>) -> i32 { x.0.0 + 100 }
                    impl Val<M0> {
                        fn new(v: i32) -> Self { Val(M0(v)) }
                        fn get(self) -> i32 { self.0.0 }
                        const SEVEN: i32 = 7;
                    }
                    const START: Val<M0> = Val(M0(55));
                    mod m {
                        /// declared after everything that mentions it
                        #[clone] type Em0 = Val<M0>;
                    }
                },
                true,
            )],
            probes: vec![
                ("fn@declared:d0", "read(m.Em0.new(5))", 105),
                ("method@declared:type-scope:d1", "m.Em0.new(6).get()", 6),
                ("assoc-const@declared:type-scope:d1", "m.Em0.SEVEN", 7),
                ("const@declared:d0", "START.get()", 55),
            ],
        },
        2 => Fixed {
            name: "macro:use-two-segments",
            adds: vec![(
                library! {
                    use a::f;
                    use a::{g, K};
                    use a::Cm1;
                    impl Val<M1> {
                        fn make(v: i32) -> Self { Val(M1(v)) }
                        fn val(self) -> i32 { self.0.0 }
                    }
                    mod a {
                        fn f() -> i32 { 21 }
                        fn g(x: i32) -> i32 { 22 + x }
                        const K: i32 = 23;
                        #[copy] type Cm1 = Val<M1>;
                    }
                },
                true,
            )],
            probes: vec![
                ("fn@use:len2:root", "f()", 21),
                ("fn@use:len2:root", "g(1)", 23),
                ("const@use:len2:root", "K", 23),
                ("static@use-type:len2:root", "Cm1.make(4).val()", 4),
                ("fn@declared:d1", "a.f()", 21),
            ],
        },
        3 => Fixed {
            name: "macro:use-three-segments",
            adds: vec![(
                library! {
                    mod a { mod b { fn c_fn() -> i32 { 33 } } }
                    use a::b::c_fn;
                },
                true,
            )],
            probes: vec![("fn@use:len3:root", "c_fn()", 33), ("fn@declared:d2", "a.b.c_fn()", 33)],
        },
        4 => {
            let inner = library! {
                fn inc(x: i32) -> i32 { x + 1 }
                const C: i32 = 5;
            };
            let methods = library! {
                fn twice(x: Val<M0>) -> i32 { 2 * x.0.0 }
            };
            Fixed {
                name: "macro:include",
                adds: vec![(
                    library! {
                        #[clone] type Em0 = Val<M0>;
                        mod tools { include!(inner); }
                        impl Val<M0> {
                            fn new(v: i32) -> Self { Val(M0(v)) }
                            include!(methods);
                        }
                    },
                    true,
                )],
                probes: vec![
                    ("fn@declared:d1", "tools.inc(1)", 2),
                    ("const@declared:d1", "tools.C", 5),
                    ("method@declared:type-scope:d0", "Em0.new(4).twice()", 8),
                ],
            }
        }
        5 => {
            let base = 40;
            Fixed {
                name: "macro:closures",
                adds: vec![(
                    library! {
                        let addb = move |x: i32| -> i32 { base + x };
                        let k9 = || -> i32 { 9 };
                        mod m {
                            let inner = move |a: i32, b: i32| -> i32 { a * base + b };
                        }
                    },
                    true,
                )],
                probes: vec![("fn@declared:d0", "addb(2)", 42), ("fn@declared:d0", "k9()", 9), ("fn@declared:d1", "m.inner(2, 1)", 81)],
            }
        }
        6 => Fixed {
            name: "macro:use-inside-module",
            adds: vec![(
                library! {
                    mod m {
                        mod n { fn f() -> i32 { 61 } }
                        use n::f;
                    }
                },
                true,
            )],
            // the import lives in the scope of `m`, which no script can enter: only the
            // verdict and the declared path are checked
            probes: vec![("fn@declared:d2", "m.n.f()", 61)],
        },
        7 => Fixed {
            name: "macro:same-library-twice",
            adds: vec![
                (library! {}, true),
                (library! { mod a { fn f() -> i32 { 1 } } fn g() -> i32 { 2 } }, true),
                (library! { mod a { fn f() -> i32 { 1 } } fn g() -> i32 { 2 } }, false),
            ],
            probes: vec![("fn@declared:d1", "a.f()", 1), ("fn@declared:d0", "g()", 2)],
        },
        8 => Fixed {
            name: "macro:use-type-member",
            adds: vec![(
                library! {
                    #[clone] type Em0 = Val<M0>;
                    impl Val<M0> {
                        fn make(v: i32) -> Self { Val(M0(v)) }
                        fn get(self) -> i32 { self.0.0 }
                        const SEVEN: i32 = 7;
                    }
                    use Em0::{make, SEVEN};
                },
                true,
            )],
            probes: vec![("static@use:len2:root", "make(3).get()", 3), ("assoc-const@use:len2:root", "SEVEN", 7)],
        },
        _ => Fixed {
            name: "macro:second-add-extends-first",
            adds: vec![
                (
                    library! {
                        mod a { #[clone] type Em0 = Val<M0>; fn f() -> i32 { 1 } }
                    },
                    true,
                ),
                (
                    library! {
                        impl Val<M0> {
                            fn make(v: i32) -> Self { Val(M0(v)) }
                            fn get(self) -> i32 { self.0.0 }
                        }
                        fn read(x: Val<M0>) -> i32 { x.0.0 + 100 }
                        use a::Em0;
                        use a::f;
                    },
                    true,
                ),
            ],
            probes: vec![
                ("static@declared:type-scope:d1", "a.Em0.make(3).get()", 3),
                ("fn@declared:d0", "read(Em0.make(2))", 102),
                ("fn@use:len2:root", "f()", 1),
            ],
        },
    }
}

impl Registration {
    fn run_fixed(&self, k: u64, execute: bool) -> CaseOut {
        let mut out = CaseOut::default();
        out.keep_sample = true;
        let fx = match catch(|| fixed(k)) {
            Ok(f) => f,
            Err(pm) => {
                out.viol(format!("{}@macro-library-{k}", panic_sig(&pm)), format!("building the library panicked: {pm}"), J::Null);
                return out;
            }
        };
        out.tags.push(format!("fixed:{}", fx.name));
        out.tags.push(format!("adds:{}", fx.adds.len()));
        out.hash = hash_str(fx.name);
        let probes_j: Vec<J> = fx.probes.iter().map(|p| J::obj().set("shape", p.0).set("expr", p.1).set("expected", p.2)).collect();
        let sample = J::obj().set("fixed", fx.name).set("adds", fx.adds.len()).set("probes", J::Arr(probes_j));
        out.sample = Some(sample.clone());
        if !execute {
            return out;
        }
        let mut rt = Runtime::new();
        let mut all_ok = true;
        for (i, (lib, must)) in fx.adds.into_iter().enumerate() {
            let r = catch(|| rt.add(lib));
            out.evals += 1;
            out.events += 1;
            let d = J::obj().set("library", sample.clone()).set("add", i);
            match (r, must) {
                (Err(pm), _) => {
                    out.viol(format!("{}@{}", panic_sig(&pm), fx.name), format!("registration panicked: {pm}"), d);
                    all_ok = false;
                    break;
                }
                (Ok(Ok(())), true) | (Ok(Err(_)), false) => {}
                (Ok(Ok(())), false) => {
                    out.viol(format!("registration:err-got-ok@{}", fx.name), "a library that repeats names was accepted", d);
                    all_ok = false;
                    break;
                }
                (Ok(Err(e)), true) => {
                    out.viol(format!("registration:ok-got-err@{}", fx.name), format!("a library without defect was rejected: {e}"), d);
                    all_ok = false;
                    break;
                }
            }
        }
        if all_ok {
            let probes: Vec<Probe> = fx
                .probes
                .iter()
                .enumerate()
                .map(|(i, (shape, expr, expect))| {
                    let (kind, via) = shape.split_once('@').unwrap();
                    Probe {
                        fname: format!("p{i}"),
                        src: format!("fn p{i}() -> i32 {{ {expr} }}\n"),
                        run: RunKind::Unit,
                        expect: *expect,
                        kind: Box::leak(format!("macro-{kind}").into_boxed_str()),
                        via: via.to_string(),
                        path: expr.to_string(),
                        negative: false,
                    }
                })
                .collect();
            run_probes(&rt, &probes, &mut out, &sample, true);
        }
        out.nontrivial = out.events >= 1;
        out
    }
}

// ---------------------------------------------------------------------------
// Hand-written witnesses through the non-macro API: one minimal library per
// rule of the property (and per known defect), run like a generated case.
// ---------------------------------------------------------------------------

const N_WITNESS: u64 = 16;

fn witness(k: u64) -> (&'static str, Vec<Vec<Node>>) {
    let p = |segs: &[&str]| -> Vec<String> { segs.iter().map(|s| s.to_string()).collect() };
    let f = |name: &str, tag: i32| Node::func(name, Shape::Unit0, tag);
    match k {
        0 => (
            "use of an item two modules deep",
            vec![vec![Node::module("a", vec![Node::module("b", vec![f("c", 1000)])]), Node::uses(vec![p(&["a", "b", "c"])], "len3:fn")]],
        ),
        1 => (
            "use inside a module",
            vec![vec![Node::module("m", vec![Node::module("n", vec![f("f", 1000)]), Node::uses(vec![p(&["n", "f"])], "len2:fn")])]],
        ),
        2 => ("use with an empty path", vec![vec![f("f", 1000), Node::uses(vec![vec![]], "")]]),
        3 => ("use of a name that does not exist", vec![vec![Node::module("a", vec![f("f", 1000)]), Node::uses(vec![p(&["a", "nosuch"])], "")]]),
        4 => (
            "import of a name that is declared in the same scope",
            vec![vec![Node::module("a", vec![f("f", 1000)]), f("f", 1100), Node::uses(vec![p(&["a", "f"])], "len2:fn")]],
        ),
        5 => (
            "declaration of a name that an earlier add imported",
            vec![vec![Node::module("a", vec![f("f", 1000)]), Node::uses(vec![p(&["a", "f"])], "len2:fn")], vec![f("f", 1100)]],
        ),
        6 => ("name with leading space", vec![vec![f(" lead", 1000)]]),
        7 => ("name with trailing space", vec![vec![Node::constant("trail ", ConstTy::I32, 1000)]]),
        8 => ("name with trailing comment", vec![vec![Node::module("abc//def", vec![f("f", 1000)])]]),
        9 => ("type named like a built-in type", vec![vec![Node::ty("u32", 0, false), Node::func("mk", Shape::ValOut(0), 1000)]]),
        10 => ("use of a sibling inside a module", vec![vec![Node::module("m", vec![f("f", 1000), Node::uses(vec![p(&["f"])], "len1:fn")])]]),
        11 => (
            "three-segment use whose middle name also exists at the root",
            vec![vec![
                Node::module("a", vec![Node::ty("b", 0, false)]),
                Node::imp(TyRef::Pool(0), vec![Node::func("mk", Shape::ValOut(0), 1000)]),
                Node::module("b", vec![]),
                Node::uses(vec![p(&["a", "b", "mk"])], "len3:static"),
            ]],
        ),
        12 => ("names that start with a non-ASCII letter", vec![vec![f("\u{e9}lan", 1000), Node::module("\u{540d}\u{524d}", vec![f("\u{3bb}x", 1100)])]]),
        13 => (
            "users before their type, impl before type, use before target",
            vec![vec![
                Node::uses(vec![p(&["m", "T"]), p(&["m", "K"])], "len2:type,len2:const"),
                Node::func("read", Shape::ValInI32(5), 1000),
                Node::imp(TyRef::Pool(5), vec![Node::func("mk", Shape::I32ValOut(5), 1100), Node::func("get", Shape::ValIn(5), 1200)]),
                Node::constant("START", ConstTy::Pool(5), 1300),
                Node::module("m", vec![Node::constant("K", ConstTy::I32, 1400), Node::ty("T", 5, true)]),
            ]],
        ),
        14 => (
            "every kind of duplicate and every kind of dangling type is rejected",
            vec![vec![Node::ty("A", 1, false)], vec![Node::ty("B", 1, false)]],
        ),
        _ => (
            "second add extends the first",
            vec![
                vec![Node::module("a", vec![Node::ty("T", 2, false), f("f", 1000)])],
                vec![
                    Node::imp(TyRef::Pool(2), vec![Node::func("mk", Shape::ValOut(2), 1100), Node::func("get", Shape::ValIn(2), 1200)]),
                    Node::func("read", Shape::ValIn(2), 1300),
                    Node::uses(vec![p(&["a", "T"]), p(&["a", "f"])], "len2:type,len2:fn"),
                ],
            ],
        ),
    }
}

impl Registration {
    fn run_witness(&self, k: u64, execute: bool) -> CaseOut {
        let mut out = CaseOut::default();
        out.keep_sample = true;
        let (name, libs) = witness(k);
        let seq: Vec<SeqLib> = libs
            .into_iter()
            .enumerate()
            .map(|(i, nodes)| SeqLib { nodes, api: if i == 0 { Api::FromLib } else { Api::AddLibrary }, neg_seed: k, order: "declared", injected: String::new() })
            .collect();
        let text = seq_text(&seq);
        out.hash = hash_str(&text);
        out.tags.push(format!("witness:{name}"));
        out.tags.push(format!("adds:{}", seq.len()));
        out.sample = Some(J::obj().set("witness", name).set("text", text.as_str()));
        if execute {
            if let Some(at) = run_seq(&seq, &mut out, true) {
                attribute(&seq[..=at], &mut out);
            }
        }
        out.nontrivial = out.events >= 1;
        out.tags.sort();
        out.tags.dedup();
        out
    }
}

impl Family for Registration {
    fn n_cases(&self, args: &Args) -> u64 {
        if args.thorough() { 40_000 } else { 8_000 }
    }

    fn run(&mut self, k: u64, rng: &mut Rng, _args: &Args) -> CaseOut {
        if k < N_FIXED {
            self.run_fixed(k, true)
        } else if k < N_FIXED + N_WITNESS {
            self.run_witness(k - N_FIXED, true)
        } else {
            self.run_gen(rng, true)
        }
    }

    fn describe(&mut self, k: u64, rng: &mut Rng, _args: &Args) -> Option<J> {
        let out = if k < N_FIXED {
            self.run_fixed(k, false)
        } else if k < N_FIXED + N_WITNESS {
            self.run_witness(k - N_FIXED, false)
        } else {
            self.run_gen(rng, false)
        };
        out.sample
    }
}
