//! Type catalogue for C04 (`sig-gate`) and C05 (`boundary`).
//!
//! One `macro_rules!` table (`catalogue!` at the bottom of this file) lists the
//! *type terms* once: Rust type `=>` Roto spelling. Everything else a term needs
//! (structural description, value generator with edge values first, equality with
//! bitwise floats and NaN == NaN, printing) comes from the `Term` trait, which is
//! implemented by hand for the leaves and compositionally for
//! `Option`/`List`/`Result`/`Verdict`. The Roto spelling derived from the
//! structural description must agree with the spelling written in the table
//! (checked when the catalogue is built), so the mapping is stated twice,
//! independently of roto's own `TypeRegistry`.
//!
//! For every term the table expands to type-erased constructors of the
//! monomorphised *shapes* (`fn(T)`, `fn() -> T`, `fn(T) -> T`, T at position p of
//! 7, ...), so that the cross product (script term, requested Rust term) can be
//! walked at run time.

use std::cell::RefCell;
use std::collections::BTreeMap;
use std::net::{IpAddr, Ipv4Addr, Ipv6Addr};

use inetnum::addr::Prefix;
use inetnum::asn::Asn;
use roto::{Function, Impl, Library, List, NoCtx, Package, RotoString, Runtime, TypedFunc, Val, Value, Verdict, location};

use crate::host::{self, Cp, Trk, Trk1, TrkZ, Za8};
use crate::jsonw::J;
use crate::rng::{Rng, hash_str};

/// `work::catch` is generic over the closure and carries the panic-hook set-up in
/// every instance; the catalogue calls it from thousands of monomorphised sites, so
/// it goes through one non-generic instance here.
fn catch_dyn(f: &mut dyn FnMut()) -> Result<(), String> {
    crate::work::catch(|| f())
}

pub fn catch<R>(f: impl FnOnce() -> R) -> Result<R, String> {
    let mut f = Some(f);
    let mut out = None;
    catch_dyn(&mut || {
        if let Some(f) = f.take() {
            out = Some(f());
        }
    })?;
    out.ok_or_else(|| "harness: closure did not run".to_string())
}

pub mod boundary;
pub mod ctx;
pub mod fwd;
pub mod gate;

// ---------------------------------------------------------------------------
// Structural description of a term (the oracle's view of a type)
// ---------------------------------------------------------------------------

#[derive(Clone, Debug, PartialEq, Eq, Hash, PartialOrd, Ord)]
pub enum Desc {
    /// directly mapped leaf, by Roto name
    Leaf(&'static str),
    /// registered type, by Roto name
    Val(&'static str),
    Opt(Box<Desc>),
    List(Box<Desc>),
    Res(Box<Desc>, Box<Desc>),
    Verd(Box<Desc>, Box<Desc>),
}

impl Desc {
    /// Canonical Roto spelling.
    pub fn roto(&self) -> String {
        match self {
            Desc::Leaf(n) | Desc::Val(n) => (*n).to_string(),
            Desc::Opt(x) => format!("Option[{}]", x.roto()),
            Desc::List(x) => format!("List[{}]", x.roto()),
            Desc::Res(a, b) => format!("Result[{}, {}]", a.roto(), b.roto()),
            Desc::Verd(a, b) => format!("Verdict[{}, {}]", a.roto(), b.roto()),
        }
    }
    /// Alternative spelling: `T?` where the documentation allows the shorthand.
    pub fn roto_alt(&self) -> String {
        match self {
            Desc::Leaf(n) | Desc::Val(n) => (*n).to_string(),
            Desc::Opt(x) => match **x {
                Desc::Leaf("()") | Desc::Opt(_) => format!("Option[{}]", x.roto_alt()),
                _ => format!("{}?", x.roto_alt()),
            },
            Desc::List(x) => format!("List[{}]", x.roto_alt()),
            Desc::Res(a, b) => format!("Result[{}, {}]", a.roto_alt(), b.roto_alt()),
            Desc::Verd(a, b) => format!("Verdict[{}, {}]", a.roto_alt(), b.roto_alt()),
        }
    }
    pub fn depth(&self) -> usize {
        match self {
            Desc::Leaf(_) | Desc::Val(_) => 0,
            Desc::Opt(x) | Desc::List(x) => 1 + x.depth(),
            Desc::Res(a, b) | Desc::Verd(a, b) => 1 + a.depth().max(b.depth()),
        }
    }
    pub fn ctor(&self) -> &'static str {
        match self {
            Desc::Leaf(_) => "leaf",
            Desc::Val(_) => "val",
            Desc::Opt(_) => "Option",
            Desc::List(_) => "List",
            Desc::Res(..) => "Result",
            Desc::Verd(..) => "Verdict",
        }
    }
    pub fn contains(&self, f: &dyn Fn(&Desc) -> bool) -> bool {
        if f(self) {
            return true;
        }
        match self {
            Desc::Leaf(_) | Desc::Val(_) => false,
            Desc::Opt(x) | Desc::List(x) => x.contains(f),
            Desc::Res(a, b) | Desc::Verd(a, b) => a.contains(f) || b.contains(f),
        }
    }
    pub fn has_zst_val(&self) -> bool {
        self.contains(&|d| matches!(d, Desc::Val("TrkZ")))
    }
    pub fn has_enum_layer(&self) -> bool {
        self.contains(&|d| matches!(d, Desc::Opt(_) | Desc::Res(..) | Desc::Verd(..)))
    }
    /// A script expression that takes the value in `var` apart with `match` and
    /// builds it again with the constructors, through every enum layer that is not
    /// below a list.
    pub fn rebuild(&self, var: &str, lvl: usize) -> String {
        let v = format!("v{lvl}");
        match self {
            Desc::Leaf(_) | Desc::Val(_) | Desc::List(_) => var.to_string(),
            Desc::Opt(x) => {
                format!("match {var} {{ Some({v}) => Some({}), None => None, }}", x.rebuild(&v, lvl + 1))
            }
            Desc::Res(a, b) => format!(
                "match {var} {{ Ok({v}) => Ok({}), Err({v}) => Err({}), }}",
                a.rebuild(&v, lvl + 1),
                b.rebuild(&v, lvl + 1)
            ),
            Desc::Verd(a, b) => format!(
                "match {var} {{ Accept({v}) => Verdict.Accept({}), Reject({v}) => Verdict.Reject({}), }}",
                a.rebuild(&v, lvl + 1),
                b.rebuild(&v, lvl + 1)
            ),
        }
    }
}

fn int_of(n: &str) -> Option<(bool, u32)> {
    let signed = match n.as_bytes().first()? {
        b'i' => true,
        b'u' => false,
        _ => return None,
    };
    let w: u32 = n[1..].parse().ok()?;
    matches!(w, 8 | 16 | 32 | 64).then_some((signed, w))
}

/// Structural class of the difference between a script type and a requested type.
pub fn classify(s: &Desc, t: &Desc) -> String {
    use Desc::*;
    if s == t {
        return "same".into();
    }
    fn two(name: &str, a1: &Desc, b1: &Desc, a2: &Desc, b2: &Desc) -> String {
        if a1 == b2 && b1 == a2 {
            format!("{name}<swapped>")
        } else if a1 == a2 {
            format!("{name}<_,{}>", classify(b1, b2))
        } else if b1 == b2 {
            format!("{name}<{},_>", classify(a1, a2))
        } else {
            format!("{name}<{},{}>", classify(a1, a2), classify(b1, b2))
        }
    }
    match (s, t) {
        (Leaf(a), Leaf(b)) => match (int_of(a), int_of(b)) {
            (Some((sa, wa)), Some((sb, wb))) => {
                if wa == wb {
                    "signedness".into()
                } else if sa == sb {
                    "width".into()
                } else {
                    "width+signedness".into()
                }
            }
            (Some(_), None) | (None, Some(_)) if a.starts_with('f') || b.starts_with('f') => "int-vs-float".into(),
            _ if a.starts_with('f') && b.starts_with('f') => "float-width".into(),
            _ => format!("{a}-vs-{b}"),
        },
        (Val(_), Val(_)) => "val-vs-val".into(),
        (Leaf(a), Val(_)) => format!("{a}-vs-val"),
        (Val(_), Leaf(b)) => format!("val-vs-{b}"),
        (Opt(a), Opt(b)) => format!("Option<{}>", classify(a, b)),
        (List(a), List(b)) => format!("List<{}>", classify(a, b)),
        (Res(a1, b1), Res(a2, b2)) => two("Result", a1, b1, a2, b2),
        (Verd(a1, b1), Verd(a2, b2)) => two("Verdict", a1, b1, a2, b2),
        _ => {
            // re-nesting: one side is the other with a layer added or removed
            let inner = |d: &Desc, o: &Desc| match d {
                Opt(x) | List(x) => **x == *o,
                Res(a, b) | Verd(a, b) => **a == *o || **b == *o,
                _ => false,
            };
            if inner(s, t) {
                format!("{}-layer-dropped", s.ctor())
            } else if inner(t, s) {
                format!("{}-layer-added", t.ctor())
            } else {
                format!("{}-vs-{}", s.ctor(), t.ctor())
            }
        }
    }
}

/// The class with leaf names blanked: the granularity of coverage tags.
pub fn classify_coarse(s: &Desc, t: &Desc) -> String {
    const LEAVES: [&str; 17] =
        ["bool", "char", "()", "Asn", "IpAddr", "Prefix", "String", "u8", "u16", "u32", "u64", "i8", "i16", "i32", "i64", "f32", "f64"];
    let full = classify(s, t);
    let mut out = String::new();
    let mut tok = String::new();
    let flush = |tok: &mut String, out: &mut String| {
        out.push_str(if LEAVES.contains(&tok.as_str()) { "leaf" } else { tok.as_str() });
        tok.clear();
    };
    for c in full.chars() {
        if matches!(c, '<' | '>' | ',' | '-' | '+') {
            flush(&mut tok, &mut out);
            out.push(c);
        } else {
            tok.push(c);
        }
    }
    flush(&mut tok, &mut out);
    out
}

// ---------------------------------------------------------------------------
// The term trait
// ---------------------------------------------------------------------------

/// Edge index meaning "no edge value: draw a random one".
pub const RANDOM: usize = usize::MAX;

pub trait Term: Value<Transformed: PartialEq + Send + Sync> + Clone + Send + Sync + 'static {
    fn desc() -> Desc;
    /// number of edge values; `generate(rng, e)` for `e < n_edges()` is the e-th edge value
    fn n_edges() -> usize;
    fn generate(rng: &mut Rng, edge: usize) -> Self;
    /// identity as the property states it: structural, floats bitwise, NaN == NaN
    fn same(a: &Self, b: &Self) -> bool;
    fn show(a: &Self) -> String;
    /// check that tracked payloads inside are live instances (alarms go to the ledger)
    fn probe(_a: &Self, _what: &'static str) {}
    /// registered methods (only registered types have them)
    fn register_methods(_lib: &mut Library) {}
    /// `fn(bool, A, B) -> Self` for the two-sided constructors
    fn get_build(_pkg: &mut Package<NoCtx>, _name: &str) -> Option<Got> {
        None
    }
}

/// The k-th value of a term under a seed: edge values first, then random ones.
pub fn value<T: Term>(seed: u64, k: usize) -> T {
    let mut rng = Rng::new(seed ^ (k as u64).wrapping_mul(0x9E37_79B9_7F4A_7C15) ^ hash_str(std::any::type_name::<T>()));
    T::generate(&mut rng, k)
}

fn inner_edge(rng: &mut Rng, n: usize) -> usize {
    if n > 0 && rng.chance(1, 3) { rng.usize(n) } else { RANDOM }
}

macro_rules! int_term {
    ($($t:ident),*) => {$(
        impl Term for $t {
            fn desc() -> Desc { Desc::Leaf(stringify!($t)) }
            fn n_edges() -> usize { 8 }
            fn generate(rng: &mut Rng, edge: usize) -> $t {
                match edge {
                    0 => 0,
                    1 => $t::MIN,
                    2 => $t::MAX,
                    3 => 1,
                    4 => (0 as $t).wrapping_sub(1),
                    5 => $t::MAX / 2 + 1,
                    6 => 0x5555_5555_5555_5555u64 as $t,
                    7 => 0xAAAA_AAAA_AAAA_AAAAu64 as $t,
                    _ => {
                        if rng.chance(1, 4) {
                            let e = rng.usize(8);
                            Self::generate(rng, e)
                        } else if rng.chance(1, 4) {
                            // small magnitudes
                            (rng.next() % 256) as $t
                        } else {
                            rng.next() as $t
                        }
                    }
                }
            }
            fn same(a: &$t, b: &$t) -> bool { a == b }
            fn show(a: &$t) -> String { format!("{a}{}", stringify!($t)) }
        }
    )*};
}
int_term!(u8, u16, u32, u64, i8, i16, i32, i64);

macro_rules! float_term {
    ($t:ident, $bits:ident, $nan1:expr, $nan2:expr) => {
        impl Term for $t {
            fn desc() -> Desc { Desc::Leaf(stringify!($t)) }
            fn n_edges() -> usize { 14 }
            fn generate(rng: &mut Rng, edge: usize) -> $t {
                match edge {
                    0 => 0.0,
                    1 => -0.0,
                    2 => 1.0,
                    3 => -1.0,
                    4 => $t::NAN,
                    5 => $t::from_bits($nan1),
                    6 => $t::from_bits($nan2),
                    7 => $t::INFINITY,
                    8 => $t::NEG_INFINITY,
                    9 => $t::MIN_POSITIVE,
                    10 => $t::from_bits(1),
                    11 => $t::MAX,
                    12 => $t::MIN,
                    13 => 0.1,
                    _ => {
                        if rng.chance(1, 4) {
                            let e = rng.usize(14);
                            Self::generate(rng, e)
                        } else {
                            $t::from_bits(rng.next() as $bits)
                        }
                    }
                }
            }
            fn same(a: &$t, b: &$t) -> bool { (a.is_nan() && b.is_nan()) || a.to_bits() == b.to_bits() }
            fn show(a: &$t) -> String { format!("{a:?}{}/{:#x}", stringify!($t), a.to_bits()) }
        }
    };
}
float_term!(f32, u32, 0xffc0_0001, 0x7f80_0001);
float_term!(f64, u64, 0xfff8_0000_0000_0001, 0x7ff0_0000_0000_0001);

impl Term for bool {
    fn desc() -> Desc { Desc::Leaf("bool") }
    fn n_edges() -> usize { 2 }
    fn generate(rng: &mut Rng, edge: usize) -> bool {
        match edge {
            0 => false,
            1 => true,
            _ => rng.bool(),
        }
    }
    fn same(a: &bool, b: &bool) -> bool { a == b }
    fn show(a: &bool) -> String { format!("{a}") }
}

impl Term for () {
    fn desc() -> Desc { Desc::Leaf("()") }
    fn n_edges() -> usize { 1 }
    fn generate(_: &mut Rng, _: usize) {}
    fn same(_: &(), _: &()) -> bool { true }
    fn show(_: &()) -> String { "()".into() }
}

const CHARS: [char; 11] =
    ['\0', 'a', '\u{7f}', '\u{80}', '\u{e9}', '\u{7ff}', '\u{d7ff}', '\u{e000}', '\u{ffff}', '\u{10000}', '\u{10ffff}'];

impl Term for char {
    fn desc() -> Desc { Desc::Leaf("char") }
    fn n_edges() -> usize { CHARS.len() }
    fn generate(rng: &mut Rng, edge: usize) -> char {
        if edge < CHARS.len() {
            return CHARS[edge];
        }
        loop {
            let c = match rng.below(3) {
                0 => rng.below(0x80) as u32,
                1 => rng.below(0x1_0000) as u32,
                _ => rng.below(0x11_0000) as u32,
            };
            if let Some(c) = char::from_u32(c) {
                return c;
            }
        }
    }
    fn same(a: &char, b: &char) -> bool { a == b }
    fn show(a: &char) -> String { format!("'{}'", a.escape_default()) }
}

const ASNS: [u32; 7] = [0, 1, 23456, 65535, 65536, 4_200_000_000, u32::MAX];

impl Term for Asn {
    fn desc() -> Desc { Desc::Leaf("Asn") }
    fn n_edges() -> usize { ASNS.len() }
    fn generate(rng: &mut Rng, edge: usize) -> Asn {
        if edge < ASNS.len() { Asn::from_u32(ASNS[edge]) } else { Asn::from_u32(rng.next() as u32) }
    }
    fn same(a: &Asn, b: &Asn) -> bool { a.into_u32() == b.into_u32() }
    fn show(a: &Asn) -> String { format!("AS{}", a.into_u32()) }
}

fn edge_ip(e: usize) -> Option<IpAddr> {
    Some(match e {
        0 => IpAddr::V4(Ipv4Addr::new(0, 0, 0, 0)),
        1 => IpAddr::V4(Ipv4Addr::new(255, 255, 255, 255)),
        2 => IpAddr::V4(Ipv4Addr::new(127, 0, 0, 1)),
        3 => IpAddr::V4(Ipv4Addr::new(1, 2, 3, 4)),
        4 => IpAddr::V6(Ipv6Addr::UNSPECIFIED),
        5 => IpAddr::V6(Ipv6Addr::LOCALHOST),
        6 => IpAddr::V6(Ipv6Addr::from(u128::MAX)),
        // IPv4-mapped: must stay a V6 address
        7 => IpAddr::V6(Ipv4Addr::new(1, 2, 3, 4).to_ipv6_mapped()),
        8 => IpAddr::V6(Ipv6Addr::new(0x2001, 0xdb8, 0, 0, 0, 0, 0, 1)),
        9 => IpAddr::V6(Ipv6Addr::from(0x0102_0304_0506_0708_090a_0b0c_0d0e_0f10u128)),
        _ => return None,
    })
}

impl Term for IpAddr {
    fn desc() -> Desc { Desc::Leaf("IpAddr") }
    fn n_edges() -> usize { 10 }
    fn generate(rng: &mut Rng, edge: usize) -> IpAddr {
        if let Some(a) = edge_ip(edge) {
            return a;
        }
        if rng.bool() {
            IpAddr::V4(Ipv4Addr::from(rng.next() as u32))
        } else {
            IpAddr::V6(Ipv6Addr::from(((rng.next() as u128) << 64) | rng.next() as u128))
        }
    }
    fn same(a: &IpAddr, b: &IpAddr) -> bool { a == b }
    fn show(a: &IpAddr) -> String {
        match a {
            IpAddr::V4(x) => format!("v4:{x}"),
            IpAddr::V6(x) => format!("v6:{x}"),
        }
    }
}

impl Term for Prefix {
    fn desc() -> Desc { Desc::Leaf("Prefix") }
    fn n_edges() -> usize { 10 }
    fn generate(rng: &mut Rng, edge: usize) -> Prefix {
        let (a, l) = match edge {
            0 => (edge_ip(0).unwrap(), 0),
            1 => (edge_ip(1).unwrap(), 32),
            2 => (IpAddr::V4(Ipv4Addr::new(10, 0, 0, 0)), 8),
            3 => (IpAddr::V4(Ipv4Addr::new(192, 168, 1, 0)), 24),
            4 => (edge_ip(4).unwrap(), 0),
            5 => (edge_ip(6).unwrap(), 128),
            6 => (edge_ip(8).unwrap(), 32),
            7 => (edge_ip(5).unwrap(), 128),
            8 => (IpAddr::V4(Ipv4Addr::new(128, 0, 0, 0)), 1),
            9 => (IpAddr::V6(Ipv6Addr::new(0x2001, 0xdb8, 0xffff, 0xffff, 0x8000, 0, 0, 0)), 65),
            _ => {
                let a = IpAddr::generate(rng, RANDOM);
                let max = if a.is_ipv4() { 32 } else { 128 };
                (a, rng.below(max + 1) as u8)
            }
        };
        Prefix::new_relaxed(a, l).expect("harness: valid prefix")
    }
    fn same(a: &Prefix, b: &Prefix) -> bool { a == b && a.addr() == b.addr() && a.len() == b.len() }
    fn show(a: &Prefix) -> String { format!("{}/{}", IpAddr::show(&a.addr()), a.len()) }
}

impl Term for RotoString {
    fn desc() -> Desc { Desc::Leaf("String") }
    fn n_edges() -> usize { 9 }
    fn generate(rng: &mut Rng, edge: usize) -> RotoString {
        let s: String = match edge {
            0 => String::new(),
            1 => "a".into(),
            2 => "\u{e9}".into(),
            3 => "\u{65e5}\u{672c}\u{8a9e}".into(),
            4 => "\u{1f980}".into(),
            5 => "a\0b".into(),
            6 => "x".repeat(300),
            7 => "\u{10ffff}y".repeat(1000),
            8 => " \t\n\"\\{}".into(),
            _ => {
                let n = match rng.below(4) {
                    0 => rng.usize(4),
                    1 => rng.usize(24),
                    2 => rng.usize(100),
                    _ => 15 + rng.usize(3),
                };
                (0..n).map(|_| char::generate(rng, RANDOM)).collect()
            }
        };
        RotoString::from(s)
    }
    fn same(a: &RotoString, b: &RotoString) -> bool { a.as_bytes() == b.as_bytes() }
    fn show(a: &RotoString) -> String {
        let s: &str = a;
        if s.len() > 40 {
            let head: String = s.chars().take(12).collect();
            format!("{head:?}..(len {}, hash {:x})", s.len(), hash_str(s))
        } else {
            format!("{s:?}")
        }
    }
}

// --- registered types -------------------------------------------------------

/// Method registered on every registered type: the receiver comes back.
fn val_methods<T>(lib: &mut Library, idx_name: &'static str)
where
    T: Clone + PartialEq + Send + Sync + 'static,
    Val<T>: Term,
{
    let mut im = Impl::new::<Val<T>>(location!());
    im.add(
        Function::new(
            "me",
            "receiver comes back",
            vec!["self"],
            move |x: Val<T>| -> Val<T> {
                host_got::<Val<T>>("me", idx_name, &x);
                x
            },
            location!(),
        )
        .expect("harness: method registers"),
    );
    im.add(
        Function::new(
            "with",
            "receiver comes back, an argument in between",
            vec!["self", "n"],
            move |x: Val<T>, n: u16| -> Val<T> {
                host_got::<Val<T>>("with", idx_name, &x);
                host_note("with.n", idx_name, n == 0xBEEF, || ("48879".into(), format!("{n}")));
                x
            },
            location!(),
        )
        .expect("harness: method registers"),
    );
    lib.add(im.into());
}

const TRK_TAGS: [i64; 6] = [0, 1, -1, i64::MIN, i64::MAX, 0x0123_4567_89ab_cdef];

impl Term for Val<Trk> {
    fn desc() -> Desc { Desc::Val("Trk") }
    fn n_edges() -> usize { TRK_TAGS.len() }
    fn generate(rng: &mut Rng, edge: usize) -> Self {
        Val(Trk::new(if edge < TRK_TAGS.len() { TRK_TAGS[edge] } else { rng.next() as i64 }))
    }
    fn same(a: &Self, b: &Self) -> bool { a.0 == b.0 }
    fn show(a: &Self) -> String { format!("Trk#{}(id {}, canary {:#x})", a.tag, a.id, a.canary) }
    fn probe(a: &Self, what: &'static str) {
        a.check(what);
    }
    fn register_methods(lib: &mut Library) {
        val_methods::<Trk>(lib, "Trk");
    }
}

impl Term for Val<Cp> {
    fn desc() -> Desc { Desc::Val("Cp") }
    fn n_edges() -> usize { 5 }
    fn generate(rng: &mut Rng, edge: usize) -> Self {
        Val(Cp(match edge {
            0 => 0,
            1 => 1,
            2 => u32::MAX,
            3 => 0x8000_0000,
            4 => 0x0102_0304,
            _ => rng.next() as u32,
        }))
    }
    fn same(a: &Self, b: &Self) -> bool { a.0 == b.0 }
    fn show(a: &Self) -> String { format!("Cp({:#x})", a.0.0) }
    fn register_methods(lib: &mut Library) {
        val_methods::<Cp>(lib, "Cp");
    }
}

impl Term for Val<Za8> {
    fn desc() -> Desc { Desc::Val("Za8") }
    fn n_edges() -> usize { 1 }
    fn generate(_: &mut Rng, _: usize) -> Self { Val(Za8) }
    fn same(_: &Self, _: &Self) -> bool { true }
    fn show(_: &Self) -> String { "Za8".into() }
}

impl Term for Val<TrkZ> {
    fn desc() -> Desc { Desc::Val("TrkZ") }
    fn n_edges() -> usize { 1 }
    fn generate(_: &mut Rng, _: usize) -> Self { Val(TrkZ::new()) }
    fn same(_: &Self, _: &Self) -> bool { true }
    fn show(_: &Self) -> String { "TrkZ".into() }
    fn register_methods(lib: &mut Library) {
        val_methods::<TrkZ>(lib, "TrkZ");
    }
}

impl Term for Val<Trk1> {
    fn desc() -> Desc { Desc::Val("Trk1") }
    fn n_edges() -> usize { 4 }
    fn generate(rng: &mut Rng, edge: usize) -> Self {
        Val(Trk1::new(match edge {
            0 => 0,
            1 => 1,
            2 => 99,
            3 => 50,
            _ => rng.below(100) as u8,
        }))
    }
    fn same(a: &Self, b: &Self) -> bool { a.0 == b.0 }
    fn show(a: &Self) -> String { format!("Trk1({})", a.0.0) }
    fn register_methods(lib: &mut Library) {
        val_methods::<Trk1>(lib, "Trk1");
    }
}

// --- constructors ------------------------------------------------------------

impl<T: Term> Term for Option<T> {
    fn desc() -> Desc { Desc::Opt(Box::new(T::desc())) }
    fn n_edges() -> usize { 1 + T::n_edges() }
    fn generate(rng: &mut Rng, edge: usize) -> Self {
        if edge == 0 {
            None
        } else if edge <= T::n_edges() {
            Some(T::generate(rng, edge - 1))
        } else if rng.chance(1, 4) {
            None
        } else {
            let e = inner_edge(rng, T::n_edges());
            Some(T::generate(rng, e))
        }
    }
    fn same(a: &Self, b: &Self) -> bool {
        match (a, b) {
            (None, None) => true,
            (Some(a), Some(b)) => T::same(a, b),
            _ => false,
        }
    }
    fn show(a: &Self) -> String {
        match a {
            None => "None".into(),
            Some(x) => format!("Some({})", T::show(x)),
        }
    }
    fn probe(a: &Self, what: &'static str) {
        if let Some(x) = a {
            T::probe(x, what)
        }
    }
}

impl<T: Term> Term for List<T> {
    fn desc() -> Desc { Desc::List(Box::new(T::desc())) }
    fn n_edges() -> usize { 4 + T::n_edges() }
    fn generate(rng: &mut Rng, edge: usize) -> Self {
        let l = List::new();
        let n = T::n_edges();
        match edge {
            0 => {}
            1 => l.push(T::generate(rng, 0)),
            2 => (0..3).for_each(|i| l.push(T::generate(rng, i))),
            // enough elements to grow the backing store more than once
            3 => (0..9).for_each(|i| l.push(T::generate(rng, i))),
            e if e < 4 + n => {
                l.push(T::generate(rng, e - 4));
                l.push(T::generate(rng, (e - 3) % n.max(1)));
            }
            _ => {
                let len = if rng.chance(1, 8) { 9 + rng.usize(24) } else { rng.usize(6) };
                for _ in 0..len {
                    let e = inner_edge(rng, n);
                    l.push(T::generate(rng, e));
                }
            }
        }
        l
    }
    fn same(a: &Self, b: &Self) -> bool {
        // element-wise through the public API (`List == List` is not used: it is
        // part of another property)
        let (a, b) = (a.to_vec(), b.to_vec());
        a.len() == b.len() && a.iter().zip(&b).all(|(x, y)| T::same(x, y))
    }
    fn show(a: &Self) -> String {
        let v = a.to_vec();
        let mut s: Vec<String> = v.iter().take(6).map(T::show).collect();
        if v.len() > 6 {
            s.push(format!("..{} elements", v.len()));
        }
        format!("[{}]", s.join(", "))
    }
    fn probe(a: &Self, what: &'static str) {
        for x in a.to_vec() {
            T::probe(&x, what);
        }
    }
}

macro_rules! two_sided {
    ($ty:ident, $ok:path, $err:path, $okn:literal, $errn:literal, $d:ident, $h:ident) => {
        impl<A: Term, B: Term> Term for $ty<A, B> {
            fn desc() -> Desc { Desc::$d(Box::new(A::desc()), Box::new(B::desc())) }
            fn n_edges() -> usize { 2 * A::n_edges().max(B::n_edges()) }
            fn generate(rng: &mut Rng, edge: usize) -> Self {
                if edge < Self::n_edges() {
                    if edge % 2 == 0 { $ok(A::generate(rng, edge / 2)) } else { $err(B::generate(rng, edge / 2)) }
                } else if rng.bool() {
                    let e = inner_edge(rng, A::n_edges());
                    $ok(A::generate(rng, e))
                } else {
                    let e = inner_edge(rng, B::n_edges());
                    $err(B::generate(rng, e))
                }
            }
            fn same(a: &Self, b: &Self) -> bool {
                match (a, b) {
                    ($ok(a), $ok(b)) => A::same(a, b),
                    ($err(a), $err(b)) => B::same(a, b),
                    _ => false,
                }
            }
            fn show(a: &Self) -> String {
                match a {
                    $ok(x) => format!("{}({})", $okn, A::show(x)),
                    $err(x) => format!("{}({})", $errn, B::show(x)),
                }
            }
            fn probe(a: &Self, what: &'static str) {
                match a {
                    $ok(x) => A::probe(x, what),
                    $err(x) => B::probe(x, what),
                }
            }
            fn get_build(pkg: &mut Package<NoCtx>, name: &str) -> Option<Got> {
                Some(got(catch(|| pkg.get_function::<fn(bool, A, B) -> Self>(name)), |f| Box::new($h::<A, B>(f))))
            }
        }

        /// `fn(bool, A, B) -> X<A, B>`: the script chooses the constructor
        pub struct $h<A: Term, B: Term>(TypedFunc<NoCtx, fn(bool, A, B) -> $ty<A, B>>);
        impl<A: Term, B: Term> Handle for $h<A, B> {
            fn call(&self, k: usize, m: &mut Mon, route: &str, hostev: &[&'static str]) {
                m.begin(k);
                let c = k % 2 == 0;
                let want: $ty<A, B> = if c { $ok(value::<A>(m.seed, k)) } else { $err(value::<B>(m.seed, k)) };
                let r = self.0.call(c, value::<A>(m.seed, k), value::<B>(m.seed, k));
                m.compare(route, k, &want, &r);
                drop(r);
                drop(want);
                m.finish(route, k, hostev);
            }
        }
    };
}
two_sided!(Result, Ok, Err, "Ok", "Err", Res, HBuildRes);
two_sided!(Verdict, Verdict::Accept, Verdict::Reject, "Accept", "Reject", Verd, HBuildVerd);

// ---------------------------------------------------------------------------
// Host side of a monitored call
// ---------------------------------------------------------------------------

#[derive(Clone, Debug)]
pub struct HostEv {
    /// host function kind: sink, src, hpos, fill, me ...
    pub f: &'static str,
    /// term (index name) the function belongs to
    pub term: String,
    pub ok: bool,
    pub want: String,
    pub got: String,
}

#[derive(Default)]
struct Cur {
    seed: u64,
    k: usize,
    evs: Vec<HostEv>,
}

thread_local! {
    static CUR: RefCell<Cur> = RefCell::new(Cur::default());
    /// self-test of the monitor (`--fault host`): the host side expects the next value
    static FAULT_HOST: std::cell::Cell<bool> = const { std::cell::Cell::new(false) };
}

pub fn set_fault_host(on: bool) {
    FAULT_HOST.with(|f| f.set(on));
}

fn cur() -> (u64, usize) {
    CUR.with(|c| {
        let c = c.borrow();
        (c.seed, c.k)
    })
}

fn host_note(f: &'static str, term: &str, ok: bool, show: impl FnOnce() -> (String, String)) {
    let (want, got) = if ok { (String::new(), String::new()) } else { show() };
    CUR.with(|c| c.borrow_mut().evs.push(HostEv { f, term: term.to_string(), ok, want, got }));
}

/// A host function received `x` where the current value of `T` was sent.
fn host_got<T: Term>(f: &'static str, term: &str, x: &T) {
    let (seed, k) = cur();
    T::probe(x, "received-by-host");
    let want = value::<T>(seed, if FAULT_HOST.with(|f| f.get()) { k + 1 } else { k });
    let ok = T::same(&want, x);
    host_note(f, term, ok, || (T::show(&want), T::show(x)));
}

/// Filler parameters of the 7-parameter shapes: mixed width, ints and floats.
#[derive(Clone, Copy, Debug)]
pub struct Fill(pub u8, pub f64, pub u64, pub f32, pub bool, pub i16);

pub fn fill(seed: u64, k: usize) -> Fill {
    let k = k.wrapping_add(7919);
    Fill(value(seed, k), value(seed, k + 1), value(seed, k + 2), value(seed, k + 3), value(seed, k + 4), value(seed, k + 5))
}

impl Fill {
    pub fn same(&self, o: &Fill) -> bool {
        self.0 == o.0 && f64::same(&self.1, &o.1) && self.2 == o.2 && f32::same(&self.3, &o.3) && self.4 == o.4 && self.5 == o.5
    }
}

fn host_fill(term: &str, got: Fill) {
    let (seed, k) = cur();
    let want = fill(seed, k);
    host_note("fill", term, want.same(&got), || (format!("{want:?}"), format!("{got:?}")));
}

macro_rules! add_fn {
    ($lib:expr, $n:expr, $params:expr, $f:expr) => {
        $lib.add(Function::new($n, "catalogue host function", $params, $f, location!()).expect("harness: host function registers").into())
    };
}

macro_rules! hpos {
    ($lib:expr, $i:expr, $T:ty, $p:literal, |$($a:ident : $t:ty),*| $x:ident, $fill:expr) => {{
        let n = format!("{}", $i);
        add_fn!($lib, format!("hpos{}_{}", $p, $i), vec!["a1", "a2", "a3", "a4", "a5", "a6", "a7"], move |$($a: $t),*| -> $T {
            host_got::<$T>("hpos", &n, &$x);
            host_fill(&n, $fill);
            $x
        });
    }};
}

/// Register the host functions of term `i`: `sink_i(x)`, `src_i() -> T`,
/// `hpos<p>_i(..7 parameters, T at p..) -> T` for the first and the last position.
fn register<T: Term>(lib: &mut Library, i: usize) {
    let name = format!("{i}");
    macro_rules! add {
        ($n:expr, $params:expr, $f:expr) => {
            add_fn!(lib, $n, $params, $f)
        };
    }
    let n = name.clone();
    add!(format!("sink_{i}"), vec!["x"], move |x: T| {
        host_got::<T>("sink", &n, &x);
    });
    let n = name.clone();
    add!(format!("src_{i}"), vec![], move || -> T {
        let (seed, k) = cur();
        host_note("src", &n, true, || (String::new(), String::new()));
        value::<T>(seed, k)
    });
    hpos!(lib, i, T, 1, |a1: T, a2: u8, a3: f64, a4: u64, a5: f32, a6: bool, a7: i16| a1, Fill(a2, a3, a4, a5, a6, a7));
    hpos!(lib, i, T, 7, |a1: u8, a2: f64, a3: u64, a4: f32, a5: bool, a6: i16, a7: T| a7, Fill(a1, a2, a3, a4, a5, a6));
}

/// The inner positions (only for the terms of the `full` section).
fn register_full<T: Term>(lib: &mut Library, i: usize) {
    register::<T>(lib, i);
    hpos!(lib, i, T, 2, |a1: u8, a2: T, a3: f64, a4: u64, a5: f32, a6: bool, a7: i16| a2, Fill(a1, a3, a4, a5, a6, a7));
    hpos!(lib, i, T, 3, |a1: u8, a2: f64, a3: T, a4: u64, a5: f32, a6: bool, a7: i16| a3, Fill(a1, a2, a4, a5, a6, a7));
    hpos!(lib, i, T, 4, |a1: u8, a2: f64, a3: u64, a4: T, a5: f32, a6: bool, a7: i16| a4, Fill(a1, a2, a3, a5, a6, a7));
    hpos!(lib, i, T, 5, |a1: u8, a2: f64, a3: u64, a4: f32, a5: T, a6: bool, a7: i16| a5, Fill(a1, a2, a3, a4, a6, a7));
    hpos!(lib, i, T, 6, |a1: u8, a2: f64, a3: u64, a4: f32, a5: bool, a6: T, a7: i16| a6, Fill(a1, a2, a3, a4, a5, a7));
}

/// Roto parameter list of the position-p shape.
pub fn pos_params(p: usize, ty: &str) -> Vec<String> {
    let fillers = ["u8", "f64", "u64", "f32", "bool", "i16"];
    let mut v: Vec<String> = fillers.iter().map(|s| s.to_string()).collect();
    v.insert(p - 1, ty.to_string());
    v
}

// ---------------------------------------------------------------------------
// The monitor of one case
// ---------------------------------------------------------------------------

pub struct Fail {
    pub sig: String,
    pub msg: String,
    pub detail: J,
}

pub struct Mon {
    pub seed: u64,
    /// Roto spelling of the term under test (part of the signatures)
    pub term: String,
    /// the term contains the zero-sized tracked type: its clone/drop balance is a known finding
    pub zst: bool,
    /// do not reset the ledger per call (tracked instances outlive the call: constants)
    pub no_reset: bool,
    /// a zero-sized registered value is a direct parameter of the function under test:
    /// disturbed neighbours are one defect class with one signature
    /// (`boundary:args-after-zero-sized-param@TrkZ`). Minimal reproduction:
    ///
    /// ```text
    /// #[derive(Clone, Debug, PartialEq)] struct Marker;              // zero-sized
    /// library! { #[clone] type Marker = Val<Marker>;
    ///            fn host(m: Val<Marker>, x: u64) -> u64 { x }
    ///            fn mk() -> Val<Marker> { Val(Marker) } }
    /// fn second(m: Marker, x: u64) -> u64 { x }                      // Roto
    /// fn to_host(x: u64) -> u64 { host(mk(), x) }                    // Roto
    /// get_function::<fn(Val<Marker>, u64) -> u64>("second").call(Val(Marker), 7)  // = address of the marker
    /// get_function::<fn(u64) -> u64>("to_host").call(7)                           // = garbage
    /// ```
    /// Compiled code drops zero-sized parameters from its signatures
    /// (src/lir/lower.rs `lower_type` returns None for size 0: function signatures
    /// and `call_runtime` arguments), but `Val<T>::AsParam` is `*mut T` for every T
    /// (src/value/mod.rs), so `RotoFunc::invoke` (src/codegen/check.rs) and the
    /// registered-function trampolines (src/runtime/func.rs) still pass / expect a
    /// pointer: every later integer-class argument moves by one register.
    pub zst_param: bool,
    pub calls: u64,
    pub checks: u64,
    pub fails: Vec<Fail>,
    pub more: BTreeMap<String, u64>,
    pub rows: Vec<J>,
}

impl Mon {
    pub fn new(seed: u64, term: &str, zst: bool) -> Mon {
        Mon { seed, term: term.to_string(), zst, no_reset: false, zst_param: false, calls: 0, checks: 0, fails: Vec::new(), more: BTreeMap::new(), rows: Vec::new() }
    }

    pub fn fail(&mut self, sig: String, msg: String, detail: J) {
        let sig = if self.zst_param && sig.starts_with("boundary:") { "boundary:args-after-zero-sized-param@TrkZ".to_string() } else { sig };
        if self.fails.iter().any(|f| f.sig == sig) {
            *self.more.entry(sig).or_insert(0) += 1;
        } else {
            self.fails.push(Fail { sig, msg, detail });
        }
    }

    pub fn begin(&mut self, k: usize) {
        CUR.with(|c| {
            let mut c = c.borrow_mut();
            c.seed = self.seed;
            c.k = k;
            c.evs.clear();
        });
        host::log_clear();
        if !self.no_reset {
            host::ledger_reset();
        }
    }

    pub fn compare<T: Term>(&mut self, route: &str, k: usize, want: &T, got: &T) {
        T::probe(got, "returned-to-rust");
        self.checks += 1;
        if !T::same(want, got) {
            let (w, g) = (T::show(want), T::show(got));
            self.fail(
                format!("boundary:{route}@{}", self.term),
                format!("{route}: value #{k} of {} arrived as {g}, sent {w}", self.term),
                J::obj().set("route", route).set("term", self.term.as_str()).set("k", k).set("sent", w).set("arrived", g).set("seed", self.seed),
            );
        }
        if self.rows.len() < 4 {
            self.rows.push(J::obj().set("route", route).set("k", k).set("value", T::show(want)));
        }
    }

    /// End of a monitored call: host events as expected, ledger balanced.
    pub fn finish(&mut self, route: &str, k: usize, hostev: &[&'static str]) {
        self.calls += 1;
        let evs = CUR.with(|c| std::mem::take(&mut c.borrow_mut().evs));
        self.checks += evs.len() as u64;
        for e in &evs {
            if !e.ok {
                self.fail(
                    format!("boundary:{route}/{}@{}", e.f, self.term),
                    format!("{route}: host function {} received {} where {} was sent (value #{k} of {})", e.f, e.got, e.want, self.term),
                    J::obj().set("route", route).set("term", self.term.as_str()).set("k", k).set("host", e.f).set("sent", e.want.as_str()).set("arrived", e.got.as_str()).set("seed", self.seed),
                );
            }
        }
        let names: Vec<&str> = evs.iter().map(|e| e.f).collect();
        if names != hostev {
            self.fail(
                format!("boundary:{route}/host-calls@{}", self.term),
                format!("{route}: host calls {names:?}, expected {hostev:?} (value #{k} of {})", self.term),
                J::obj().set("route", route).set("term", self.term.as_str()).set("k", k).set("seed", self.seed),
            );
        }
        if !self.no_reset {
            self.ledger(route, k);
        }
    }

    pub fn ledger(&mut self, route: &str, k: usize) {
        let led = host::ledger_report();
        self.checks += led.created + led.cloned + led.drops;
        let d = |m: &Mon| J::obj().set("route", route).set("term", m.term.as_str()).set("k", k).set("seed", m.seed);
        for a in &led.alarms {
            let det = d(self).set("alarm", a.info.as_str());
            self.fail(
                format!("ledger:{}@boundary/{}", a.kind, self.term),
                format!("{route}: {} of tracked instance {} ({}) with value #{k} of {}", a.kind, a.id, a.info, self.term),
                det,
            );
        }
        if !led.live.is_empty() {
            let det = d(self).set("live", led.live.len());
            self.fail(
                format!("ledger:leak@boundary/{}", self.term),
                format!("{route}: {} tracked instance(s) still live after the call and after dropping the result (value #{k} of {})", led.live.len(), self.term),
                det,
            );
        }
        if led.b_live != 0 || led.b_bad != 0 {
            let det = d(self).set("live", led.b_live).set("bad", led.b_bad);
            self.fail(
                format!("ledger:{}@boundary/{}", if led.b_bad != 0 { "trk1-garbage" } else { "trk1-imbalance" }, self.term),
                format!("{route}: 1-byte tracked balance {} garbage reads {} (value #{k} of {})", led.b_live, led.b_bad, self.term),
                det,
            );
        }
        if led.z_live != 0 && !self.zst {
            let det = d(self).set("live", led.z_live);
            self.fail(
                format!("ledger:zst-imbalance@boundary/{}", self.term),
                format!("{route}: zero-sized tracked balance {} (value #{k} of {})", led.z_live, self.term),
                det,
            );
        }
    }
}

// ---------------------------------------------------------------------------
// Type-erased handles of the monomorphised shapes
// ---------------------------------------------------------------------------

pub trait Handle {
    /// Call with the k-th catalogue value; all comparisons go to `m`.
    /// `hostev`: the host calls the script body is expected to make, in order.
    fn call(&self, k: usize, m: &mut Mon, route: &str, hostev: &[&'static str]);
}

pub enum Got {
    Ok(Box<dyn Handle>),
    Refused(String),
    Panic(String),
}

impl Got {
    pub fn kind(&self) -> &'static str {
        match self {
            Got::Ok(_) => "accepted",
            Got::Refused(_) => "refused",
            Got::Panic(_) => "panic",
        }
    }
    pub fn text(&self) -> String {
        match self {
            Got::Ok(_) => String::new(),
            Got::Refused(s) | Got::Panic(s) => s.lines().filter(|l| !l.starts_with(" - ") && !l.starts_with("Hint")).collect::<Vec<_>>().join(" "),
        }
    }
}

pub fn got<F, E: std::fmt::Display>(r: Result<Result<F, E>, String>, h: impl FnOnce(F) -> Box<dyn Handle>) -> Got {
    match r {
        Ok(Ok(f)) => Got::Ok(h(f)),
        Ok(Err(e)) => Got::Refused(format!("{e}")),
        Err(p) => Got::Panic(p),
    }
}

#[derive(Clone, Copy, Debug, PartialEq, Eq)]
pub enum Shape {
    /// `fn(T) -> ()`
    P,
    /// `fn() -> T`
    R,
    /// `fn(T) -> T`
    Id,
    /// T at position p (1..=7) of 7, `-> T`
    Pos(usize),
    /// `fn(T) -> Option<T>`
    Wrap,
    /// `fn() -> Option<T>`
    NoneOf,
    /// `fn(Option<T>, T) -> T`
    UnwrapOr,
    /// `fn(bool, A, B) -> T` for `T = Result<A, B>` / `Verdict<A, B>`
    Build,
    /// `fn(T, T, T) -> List<T>`: the list is made by the script (its element stride comes
    /// from the script's own layout computation) and read by Rust
    ListOf3,
    /// `fn(T, T) -> Option<T>`: the script makes a list, takes an element out again
    ListGet,
}

pub struct HP<T: Term>(TypedFunc<NoCtx, fn(T)>);
impl<T: Term> Handle for HP<T> {
    fn call(&self, k: usize, m: &mut Mon, route: &str, hostev: &[&'static str]) {
        m.begin(k);
        self.0.call(value::<T>(m.seed, k));
        m.finish(route, k, hostev);
    }
}

pub struct HR<T: Term>(TypedFunc<NoCtx, fn() -> T>);
impl<T: Term> Handle for HR<T> {
    fn call(&self, k: usize, m: &mut Mon, route: &str, hostev: &[&'static str]) {
        m.begin(k);
        let want = value::<T>(m.seed, k);
        let r = self.0.call();
        m.compare(route, k, &want, &r);
        drop(r);
        drop(want);
        m.finish(route, k, hostev);
    }
}

pub struct HId<T: Term>(TypedFunc<NoCtx, fn(T) -> T>);
impl<T: Term> Handle for HId<T> {
    fn call(&self, k: usize, m: &mut Mon, route: &str, hostev: &[&'static str]) {
        m.begin(k);
        let want = value::<T>(m.seed, k);
        let r = self.0.call(value::<T>(m.seed, k));
        m.compare(route, k, &want, &r);
        drop(r);
        drop(want);
        m.finish(route, k, hostev);
    }
}

pub struct HPos<T: Term>(Box<dyn Fn(T, Fill) -> T>);
impl<T: Term> Handle for HPos<T> {
    fn call(&self, k: usize, m: &mut Mon, route: &str, hostev: &[&'static str]) {
        m.begin(k);
        let want = value::<T>(m.seed, k);
        let r = (self.0)(value::<T>(m.seed, k), fill(m.seed, k));
        m.compare(route, k, &want, &r);
        drop(r);
        drop(want);
        m.finish(route, k, hostev);
    }
}

pub struct HWrap<T: Term>(TypedFunc<NoCtx, fn(T) -> Option<T>>);
impl<T: Term> Handle for HWrap<T> {
    fn call(&self, k: usize, m: &mut Mon, route: &str, hostev: &[&'static str]) {
        m.begin(k);
        let want = Some(value::<T>(m.seed, k));
        let r = self.0.call(value::<T>(m.seed, k));
        m.compare(route, k, &want, &r);
        drop(r);
        drop(want);
        m.finish(route, k, hostev);
    }
}

pub struct HList3<T: Term>(TypedFunc<NoCtx, fn(T, T, T) -> List<T>>);
impl<T: Term> Handle for HList3<T> {
    fn call(&self, k: usize, m: &mut Mon, route: &str, hostev: &[&'static str]) {
        m.begin(k);
        let want: List<T> = List::new();
        for j in 0..3 {
            want.push(value::<T>(m.seed, k + j * ALT));
        }
        let r = self.0.call(value::<T>(m.seed, k), value::<T>(m.seed, k + ALT), value::<T>(m.seed, k + 2 * ALT));
        m.compare(route, k, &want, &r);
        drop(r);
        drop(want);
        m.finish(route, k, hostev);
    }
}

pub struct HListGet<T: Term>(TypedFunc<NoCtx, fn(T, T) -> Option<T>>);
impl<T: Term> Handle for HListGet<T> {
    fn call(&self, k: usize, m: &mut Mon, route: &str, hostev: &[&'static str]) {
        m.begin(k);
        let want = Some(value::<T>(m.seed, k + ALT));
        let r = self.0.call(value::<T>(m.seed, k), value::<T>(m.seed, k + ALT));
        m.compare(route, k, &want, &r);
        drop(r);
        drop(want);
        m.finish(route, k, hostev);
    }
}

pub struct HNone<T: Term>(TypedFunc<NoCtx, fn() -> Option<T>>);
impl<T: Term> Handle for HNone<T> {
    fn call(&self, k: usize, m: &mut Mon, route: &str, hostev: &[&'static str]) {
        m.begin(k);
        let r = self.0.call();
        m.compare(route, k, &None, &r);
        drop(r);
        m.finish(route, k, hostev);
    }
}

/// alternative value: the default of `unwrap_or`
const ALT: usize = 1_000_003;

pub struct HUnwrap<T: Term>(TypedFunc<NoCtx, fn(Option<T>, T) -> T>);
impl<T: Term> Handle for HUnwrap<T> {
    fn call(&self, k: usize, m: &mut Mon, route: &str, hostev: &[&'static str]) {
        m.begin(k);
        let want = match value::<Option<T>>(m.seed, k) {
            Some(x) => x,
            None => value::<T>(m.seed, k + ALT),
        };
        let r = self.0.call(value::<Option<T>>(m.seed, k), value::<T>(m.seed, k + ALT));
        m.compare(route, k, &want, &r);
        drop(r);
        drop(want);
        m.finish(route, k, hostev);
    }
}

macro_rules! pos {
    ($pkg:expr, $name:expr, $T:ty, ($($t:ty),*), |$x:ident, $fl:ident| ($($arg:expr),*)) => {
        got(catch(|| $pkg.get_function::<fn($($t),*) -> $T>($name)), |f| {
            Box::new(HPos::<$T>(Box::new(move |$x: $T, $fl: Fill| f.call($($arg),*))))
        })
    };
}

/// The shapes every term has.
fn get<T: Term>(pkg: &mut Package<NoCtx>, name: &str, shape: Shape) -> Option<Got> {
    Some(match shape {
        Shape::P => got(catch(|| pkg.get_function::<fn(T)>(name)), |f| Box::new(HP::<T>(f))),
        Shape::R => got(catch(|| pkg.get_function::<fn() -> T>(name)), |f| Box::new(HR::<T>(f))),
        Shape::Id => got(catch(|| pkg.get_function::<fn(T) -> T>(name)), |f| Box::new(HId::<T>(f))),
        Shape::Pos(1) => pos!(pkg, name, T, (T, u8, f64, u64, f32, bool, i16), |x, fl| (x, fl.0, fl.1, fl.2, fl.3, fl.4, fl.5)),
        Shape::Pos(7) => pos!(pkg, name, T, (u8, f64, u64, f32, bool, i16, T), |x, fl| (fl.0, fl.1, fl.2, fl.3, fl.4, fl.5, x)),
        Shape::Build => return T::get_build(pkg, name),
        Shape::ListOf3 => got(catch(|| pkg.get_function::<fn(T, T, T) -> List<T>>(name)), |f| Box::new(HList3::<T>(f))),
        Shape::ListGet => got(catch(|| pkg.get_function::<fn(T, T) -> Option<T>>(name)), |f| Box::new(HListGet::<T>(f))),
        _ => return None,
    })
}

/// The shapes of the `full` section: inner positions and the shapes that add an
/// `Option` layer (terms of depth <= 2).
fn get_full<T: Term>(pkg: &mut Package<NoCtx>, name: &str, shape: Shape) -> Option<Got> {
    Some(match shape {
        Shape::Pos(2) => pos!(pkg, name, T, (u8, T, f64, u64, f32, bool, i16), |x, fl| (fl.0, x, fl.1, fl.2, fl.3, fl.4, fl.5)),
        Shape::Pos(3) => pos!(pkg, name, T, (u8, f64, T, u64, f32, bool, i16), |x, fl| (fl.0, fl.1, x, fl.2, fl.3, fl.4, fl.5)),
        Shape::Pos(4) => pos!(pkg, name, T, (u8, f64, u64, T, f32, bool, i16), |x, fl| (fl.0, fl.1, fl.2, x, fl.3, fl.4, fl.5)),
        Shape::Pos(5) => pos!(pkg, name, T, (u8, f64, u64, f32, T, bool, i16), |x, fl| (fl.0, fl.1, fl.2, fl.3, x, fl.4, fl.5)),
        Shape::Pos(6) => pos!(pkg, name, T, (u8, f64, u64, f32, bool, T, i16), |x, fl| (fl.0, fl.1, fl.2, fl.3, fl.4, x, fl.5)),
        Shape::Wrap => got(catch(|| pkg.get_function::<fn(T) -> Option<T>>(name)), |f| Box::new(HWrap::<T>(f))),
        Shape::NoneOf => got(catch(|| pkg.get_function::<fn() -> Option<T>>(name)), |f| Box::new(HNone::<T>(f))),
        Shape::UnwrapOr => got(catch(|| pkg.get_function::<fn(Option<T>, T) -> T>(name)), |f| Box::new(HUnwrap::<T>(f))),
        _ => return None,
    })
}

fn no_full(_: &mut Package<NoCtx>, _: &str, _: Shape) -> Option<Got> {
    None
}

/// Register `n` constants `C<i>_<j>` holding the first `n` values of the term.
fn constants<T: Term>(lib: &mut Library, i: usize, seed: u64, n: usize) -> Result<(), String> {
    for j in 0..n {
        let c = roto::Constant::new(format!("C{i}_{j}"), "catalogue constant", value::<T>(seed, j), location!())
            .map_err(|e| format!("{e}"))?;
        lib.add(c.into());
    }
    Ok(())
}

// ---------------------------------------------------------------------------
// The catalogue
// ---------------------------------------------------------------------------

pub struct TermEntry {
    pub idx: usize,
    pub desc: Desc,
    pub roto: String,
    pub rust: &'static str,
    /// size and alignment of the value as Roto sees it (`Value::Transformed`)
    pub size: usize,
    pub align: usize,
    pub n_edges: usize,
    /// term of the `full` section: all 7 positions on both sides and the Option-adding shapes
    pub full: bool,
    pub get: fn(&mut Package<NoCtx>, &str, Shape) -> Option<Got>,
    pub get_full: fn(&mut Package<NoCtx>, &str, Shape) -> Option<Got>,
    pub register: fn(&mut Library, usize),
    pub register_methods: fn(&mut Library),
    pub constants: fn(&mut Library, usize, u64, usize) -> Result<(), String>,
    pub show: fn(u64, usize) -> String,
}

fn show_value<T: Term>(seed: u64, k: usize) -> String {
    T::show(&value::<T>(seed, k))
}

fn entry<T: Term>(idx: usize, rust: &'static str, roto: &'static str) -> TermEntry {
    let desc = T::desc();
    let spelled = desc.roto();
    assert_eq!(spelled, roto, "harness: catalogue table and Term::desc disagree for {rust}");
    TermEntry {
        idx,
        desc,
        roto: spelled,
        rust,
        size: std::mem::size_of::<T::Transformed>(),
        align: std::mem::align_of::<T::Transformed>(),
        n_edges: T::n_edges(),
        full: false,
        get: get::<T>,
        get_full: no_full,
        register: register::<T>,
        register_methods: T::register_methods,
        constants: constants::<T>,
        show: show_value::<T>,
    }
}

fn entry_full<T: Term>(idx: usize, rust: &'static str, roto: &'static str) -> TermEntry {
    let mut e = entry::<T>(idx, rust, roto);
    assert!(e.desc.depth() <= 2, "harness: full terms get one more Option layer and stay within depth 3");
    e.full = true;
    e.get_full = get_full::<T>;
    e.register = register_full::<T>;
    e
}

impl TermEntry {
    pub fn try_get(&self, pkg: &mut Package<NoCtx>, name: &str, shape: Shape) -> Option<Got> {
        (self.get)(pkg, name, shape).or_else(|| (self.get_full)(pkg, name, shape))
    }
    pub fn positions(&self) -> Vec<usize> {
        if self.full { (1..=7).collect() } else { vec![1, 7] }
    }
    pub fn is_val(&self) -> bool {
        matches!(self.desc, Desc::Val(_))
    }
    pub fn layout_tag(&self) -> String {
        format!("layout:{}/{}", self.size, self.align)
    }
}

/// One part of the catalogue table. Every part lives in a module of its own so that
/// rustc spreads the monomorphised code over several codegen units (the build is
/// bound by the slowest unit, not by the sum).
macro_rules! catalogue_part {
    ($m:ident: full { $($t:ty => $r:literal),* $(,)? } lite { $($t2:ty => $r2:literal),* $(,)? }) => {
        mod $m {
            use super::*;
            pub fn part(v: &mut Vec<TermEntry>) {
                $( v.push(entry_full::<$t>(v.len(), stringify!($t), $r)); )*
                $( v.push(entry::<$t2>(v.len(), stringify!($t2), $r2)); )*
            }
        }
    };
}

type S = RotoString;

pub fn catalogue() -> Vec<TermEntry> {
    let mut v: Vec<TermEntry> = Vec::new();
    for part in [part_ints::part, part_leaves::part, part_vals::part, part_ctors::part, part_option::part, part_list::part, part_result::part, part_verdict::part, part_depth2::part, part_depth3::part, part_mixed_align::part, part_overaligned_zst::part] {
        part(&mut v);
    }
    // terms are pairwise distinct: "same term" is index equality
    for a in &v {
        for b in &v {
            assert!(a.idx == b.idx || a.desc != b.desc, "harness: duplicate catalogue term {}", a.roto);
        }
    }
    v
}

// Monomorphisation cost is linear in this table: about 25 ms of release build time
// per (term, shape). `full` terms (every ABI class: by-value integers and floats of
// each width, zero-sized, by-pointer leaves, registered types, one representative
// of each constructor) get 24 instantiations, `lite` terms 10.

// the 17 directly mapped leaves
catalogue_part! { part_ints:
    full {
        u8 => "u8", u16 => "u16", u32 => "u32", u64 => "u64",
        i8 => "i8", i16 => "i16", i32 => "i32", i64 => "i64",
    }
    lite {}
}
catalogue_part! { part_leaves:
    full {
        bool => "bool", f32 => "f32", f64 => "f64", char => "char", () => "()",
        Asn => "Asn", IpAddr => "IpAddr", Prefix => "Prefix", S => "String",
    }
    lite {}
}
// registered types: clone 24 bytes, copy 4 bytes, zero-sized, 1 byte
catalogue_part! { part_vals:
    full { Val<Trk> => "Trk", Val<Cp> => "Cp", Val<TrkZ> => "TrkZ", Val<Trk1> => "Trk1" }
    lite {}
}
// one representative of every constructor with all shapes
catalogue_part! { part_ctors:
    full {
        Option<u8> => "Option[u8]", Option<S> => "Option[String]", Option<Val<Trk>> => "Option[Trk]",
        List<u64> => "List[u64]", Result<i32, S> => "Result[i32, String]", Verdict<i32, S> => "Verdict[i32, String]",
        Option<Result<u8, u64>> => "Option[Result[u8, u64]]", Result<List<S>, Val<Trk>> => "Result[List[String], Trk]",
    }
    lite {}
}
// depth 1: Option over every payload size/alignment class
catalogue_part! { part_option:
    full {}
    lite {
        Option<i8> => "Option[i8]", Option<i16> => "Option[i16]",
        Option<u32> => "Option[u32]", Option<i64> => "Option[i64]",
        Option<f32> => "Option[f32]", Option<f64> => "Option[f64]",
        Option<bool> => "Option[bool]", Option<char> => "Option[char]", Option<()> => "Option[()]",
        Option<IpAddr> => "Option[IpAddr]", Option<Prefix> => "Option[Prefix]",
        Option<Val<Cp>> => "Option[Cp]", Option<Val<TrkZ>> => "Option[TrkZ]", Option<Val<Trk1>> => "Option[Trk1]",
    }
}
// depth 1: List, including zero-sized elements
catalogue_part! { part_list:
    full {}
    lite {
        List<u8> => "List[u8]", List<i32> => "List[i32]", List<f64> => "List[f64]",
        List<S> => "List[String]", List<IpAddr> => "List[IpAddr]",
        List<Prefix> => "List[Prefix]", List<Val<Trk>> => "List[Trk]", List<Val<Trk1>> => "List[Trk1]",
        List<()> => "List[()]", List<Val<TrkZ>> => "List[TrkZ]",
    }
}
// depth 1: Result (both orders of a pair)
catalogue_part! { part_result:
    full {}
    lite {
        Result<u8, u64> => "Result[u8, u64]", Result<u64, u8> => "Result[u64, u8]",
        Result<S, i32> => "Result[String, i32]",
        Result<(), S> => "Result[(), String]", Result<f32, f64> => "Result[f32, f64]",
        Result<i16, IpAddr> => "Result[i16, IpAddr]", Result<Val<Trk>, Val<Trk1>> => "Result[Trk, Trk1]",
        Result<Val<TrkZ>, u8> => "Result[TrkZ, u8]",
    }
}
// depth 1: Verdict
catalogue_part! { part_verdict:
    full {}
    lite {
        Verdict<(), ()> => "Verdict[(), ()]", Verdict<i32, ()> => "Verdict[i32, ()]",
        Verdict<(), S> => "Verdict[(), String]",
        Verdict<S, i32> => "Verdict[String, i32]", Verdict<u8, u64> => "Verdict[u8, u64]",
        Verdict<bool, Prefix> => "Verdict[bool, Prefix]", Verdict<Val<Trk>, Val<Cp>> => "Verdict[Trk, Cp]",
        Verdict<(), Val<TrkZ>> => "Verdict[(), TrkZ]",
    }
}
// a zero-sized payload with alignment 8 (only nested: a zero-sized PARAMETER is a known finding):
// it adds no bytes but moves the offsets and sizes of the enums around it
catalogue_part! { part_overaligned_zst:
    full {}
    lite {
        Option<Result<Val<Za8>, u32>> => "Option[Result[Za8, u32]]",
        List<Option<Val<Za8>>> => "List[Option[Za8]]",
        Result<Option<Val<Za8>>, u8> => "Result[Option[Za8], u8]",
        Verdict<u8, Option<Val<Za8>>> => "Verdict[u8, Option[Za8]]",
    }
}
catalogue_part! { part_depth2:
    full {}
    lite {
        Option<Option<u8>> => "Option[Option[u8]]", Option<Option<Val<Trk>>> => "Option[Option[Trk]]",
        Option<List<u8>> => "Option[List[u8]]", List<Option<u8>> => "List[Option[u8]]",
        Result<Option<u8>, u64> => "Result[Option[u8], u64]",
        List<List<u64>> => "List[List[u64]]", List<Result<i32, S>> => "List[Result[i32, String]]",
        Option<Verdict<i32, S>> => "Option[Verdict[i32, String]]", Verdict<Option<i32>, S> => "Verdict[Option[i32], String]",
        Verdict<List<Val<Trk>>, ()> => "Verdict[List[Trk], ()]",
    }
}
catalogue_part! { part_depth3:
    full {}
    lite {
        Option<Option<Option<u8>>> => "Option[Option[Option[u8]]]",
        Option<List<Option<S>>> => "Option[List[Option[String]]]",
        List<Option<List<u8>>> => "List[Option[List[u8]]]",
        List<List<List<Val<Trk>>>> => "List[List[List[Trk]]]",
        Result<Option<List<u16>>, Verdict<u8, i64>> => "Result[Option[List[u16]], Verdict[u8, i64]]",
        Option<Result<List<Val<Trk>>, S>> => "Option[Result[List[Trk], String]]",
        Verdict<Option<Result<i8, f32>>, List<Prefix>> => "Verdict[Option[Result[i8, f32]], List[Prefix]]",
        Verdict<Result<u8, S>, Option<Option<f64>>> => "Verdict[Result[u8, String], Option[Option[f64]]]",
    }
}

// enums whose biggest variant is less aligned than another one (size 17/18/19 payloads with
// alignment 1 next to 4- and 8-byte payloads): the size of the enum is not the size of its
// biggest variant; alone, as list elements (stride) and inside another enum
catalogue_part! { part_mixed_align:
    full {}
    lite {
        Result<u32, IpAddr> => "Result[u32, IpAddr]", Result<IpAddr, u64> => "Result[IpAddr, u64]",
        Verdict<u64, IpAddr> => "Verdict[u64, IpAddr]", Verdict<Prefix, u32> => "Verdict[Prefix, u32]",
        Result<f64, Prefix> => "Result[f64, Prefix]",
        List<Result<u32, IpAddr>> => "List[Result[u32, IpAddr]]", List<Result<IpAddr, u64>> => "List[Result[IpAddr, u64]]",
        List<Verdict<u64, Prefix>> => "List[Verdict[u64, Prefix]]", List<Verdict<IpAddr, f64>> => "List[Verdict[IpAddr, f64]]",
        Option<Result<u32, IpAddr>> => "Option[Result[u32, IpAddr]]",
        List<Option<Result<u64, IpAddr>>> => "List[Option[Result[u64, IpAddr]]]",
        Result<Result<u32, IpAddr>, u8> => "Result[Result[u32, IpAddr], u8]",
    }
}

/// The runtime of both families: the harness runtime (registered types `Trk`, `Cp`,
/// `TrkZ`, `Trk1`) plus the catalogue host functions of every term.
pub fn runtime(cat: &[TermEntry]) -> Runtime<NoCtx> {
    let mut rt = host::runtime();
    let mut lib = Library::new();
    for t in cat {
        (t.register)(&mut lib, t.idx);
        (t.register_methods)(&mut lib);
    }
    rt.add(lib).expect("harness: catalogue library registers");
    rt
}

pub fn term_json(t: &TermEntry) -> J {
    J::obj().set("idx", t.idx).set("roto", t.roto.as_str()).set("rust", t.rust).set("size", t.size).set("align", t.align)
}
