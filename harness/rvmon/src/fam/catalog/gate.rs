//! `sig-gate` (C04): `Package::get_function::<F>(name)` is `Ok` exactly for the
//! mapped signature. Exhaustive over the catalogue (script term x requested term)
//! plus arity, transposition, filtermap, name and registered-type sub-spaces, and
//! filtermaps whose payload types are inferred from un-annotated literals (the
//! documented defaults i32 / f64 at depth 0..2 of Option / List / Result, against
//! the near misses i64, u32, f32 and int-vs-float at the literal's position).
//!
//! Oracle: index equality of catalogue terms (they are pairwise structurally
//! distinct), arity equality, the filtermap rule, name existence. Every handle that
//! was expected and obtained is also called with catalogue values. A handle that
//! must not exist is never called (that would be undefined behaviour): it is
//! reported.

use roto::{Function, Library, NoCtx, Package, RotoString, Runtime, TypedFunc, Val, Verdict, List, location};

use super::{Desc, Got, Handle, Mon, Shape, Term, TermEntry, catalogue, classify, got, host_note, cur, term_json, value};
use crate::exec;
use crate::host::{Cp, Trk};
use crate::jsonw::J;
use crate::rng::Rng;
use super::catch;
use crate::work::{Args, CaseOut, Family, hash_str, panic_sig};

pub struct Gate {
    cat: Vec<TermEntry>,
    rt: Runtime<NoCtx>,
}

const EXTRA: [&str; 9] =
    ["arity", "transpose", "filtermap", "names", "registered", "fmlit-accept", "fmlit-reject", "fmlit-both", "nomapping"];

/// A handle that exists only to say "the request was accepted".
struct Never;
impl Handle for Never {
    fn call(&self, _: usize, _: &mut Mon, _: &str, _: &[&'static str]) {}
}

fn gate_lib() -> Library {
    let mut lib = Library::new();
    macro_rules! ar {
        ($n:literal, |$($a:ident),*|) => {
            lib.add(Function::new(concat!("ar", $n), "arity probe", vec![$(stringify!($a)),*], move |$($a: u32),*| -> u32 {
                let (seed, k) = cur();
                let got: Vec<u32> = vec![$($a),*];
                let want: Vec<u32> = (1..=got.len()).map(|j| value::<u32>(seed, k + j)).collect();
                host_note("ar", "arity", got == want, || (format!("{want:?}"), format!("{got:?}")));
                got.len() as u32
            }, location!()).expect("harness: ar registers").into());
        };
    }
    ar!(0, | |);
    ar!(1, |x1|);
    ar!(2, |x1, x2|);
    ar!(3, |x1, x2, x3|);
    ar!(4, |x1, x2, x3, x4|);
    ar!(5, |x1, x2, x3, x4, x5|);
    ar!(6, |x1, x2, x3, x4, x5, x6|);
    ar!(7, |x1, x2, x3, x4, x5, x6, x7|);
    lib.add(
        Function::new(
            "tr7",
            "seven distinct types",
            vec!["a", "b", "c", "d", "e", "f", "g"],
            move |a: u8, b: i16, c: u32, d: i64, e: f32, f: f64, g: bool| -> i64 {
                let (seed, k) = cur();
                let w = v7(seed, k);
                let ok = a == w.0 && b == w.1 && c == w.2 && d == w.3 && f32::same(&e, &w.4) && f64::same(&f, &w.5) && g == w.6;
                host_note("tr7", "transpose", ok, || (format!("{w:?}"), format!("{:?}", (a, b, c, d, e, f, g))));
                d
            },
            location!(),
        )
        .expect("harness: tr7 registers")
        .into(),
    );
    lib
}

type V7 = (u8, i16, u32, i64, f32, f64, bool);
fn v7(seed: u64, k: usize) -> V7 {
    (value(seed, k), value(seed, k + 1), value(seed, k + 2), value(seed, k + 3), value(seed, k + 4), value(seed, k + 5), value(seed, k + 6))
}

struct HAr(usize, Box<dyn Fn(&[u32]) -> u32>);
impl Handle for HAr {
    fn call(&self, k: usize, m: &mut Mon, route: &str, hostev: &[&'static str]) {
        m.begin(k);
        let args: Vec<u32> = (1..=self.0).map(|j| value::<u32>(m.seed, k + j)).collect();
        let r = (self.1)(&args);
        m.compare(route, k, &(self.0 as u32), &r);
        m.finish(route, k, hostev);
    }
}

struct HT7(TypedFunc<NoCtx, fn(u8, i16, u32, i64, f32, f64, bool) -> i64>);
impl Handle for HT7 {
    fn call(&self, k: usize, m: &mut Mon, route: &str, hostev: &[&'static str]) {
        m.begin(k);
        let w = v7(m.seed, k);
        let r = self.0.call(w.0, w.1, w.2, w.3, w.4, w.5, w.6);
        m.compare(route, k, &w.3, &r);
        m.finish(route, k, hostev);
    }
}

// --- filtermaps ---------------------------------------------------------------

/// payload of one side of a filtermap: never used, no payload, `x: i32`, `s: String`
#[derive(Clone, Copy, Debug, PartialEq, Eq)]
enum Pk {
    Unused,
    Unit,
    X,
    S,
}
impl Pk {
    fn expr(self) -> &'static str {
        match self {
            Pk::Unused | Pk::Unit => "",
            Pk::X => " x",
            Pk::S => " s",
        }
    }
    /// the type the filtermap rule assigns to this side
    fn desc(self) -> Desc {
        match self {
            Pk::Unused | Pk::Unit => Desc::Leaf("()"),
            Pk::X => Desc::Leaf("i32"),
            Pk::S => Desc::Leaf("String"),
        }
    }
    fn tag(self) -> &'static str {
        match self {
            Pk::Unused => "unused",
            Pk::Unit => "none",
            Pk::X => "i32",
            Pk::S => "String",
        }
    }
}

#[derive(Clone, Debug, PartialEq)]
enum Pv {
    Unit,
    X(i32),
    S(String),
}
trait Pay: Term {
    fn pay(&self) -> Pv;
}
impl Pay for () {
    fn pay(&self) -> Pv { Pv::Unit }
}
impl Pay for i32 {
    fn pay(&self) -> Pv { Pv::X(*self) }
}
impl Pay for RotoString {
    fn pay(&self) -> Pv { Pv::S(self.to_string()) }
}

struct HFm<A: Pay, R: Pay>(TypedFunc<NoCtx, fn(bool, i32, RotoString) -> Verdict<A, R>>, Pk, Pk);
impl<A: Pay, R: Pay> Handle for HFm<A, R> {
    fn call(&self, k: usize, m: &mut Mon, route: &str, hostev: &[&'static str]) {
        m.begin(k);
        let c = k % 2 == 0;
        let x: i32 = value(m.seed, k);
        let s: RotoString = value(m.seed, k);
        let pv = |p: Pk| match p {
            Pk::Unused | Pk::Unit => Pv::Unit,
            Pk::X => Pv::X(x),
            Pk::S => Pv::S(s.to_string()),
        };
        let accepts = self.2 == Pk::Unused || (self.1 != Pk::Unused && c);
        let want = if accepts { (true, pv(self.1)) } else { (false, pv(self.2)) };
        let r = self.0.call(c, x, s.clone());
        let got = match &r {
            Verdict::Accept(a) => (true, a.pay()),
            Verdict::Reject(r) => (false, r.pay()),
        };
        m.checks += 1;
        if want != got {
            m.fail(
                format!("boundary:{route}@{}", m.term),
                format!("{route}: filtermap returned {got:?}, expected {want:?}"),
                J::obj().set("route", route).set("k", k).set("seed", m.seed),
            );
        }
        drop(r);
        m.finish(route, k, hostev);
    }
}

// --- filtermaps whose payload types are inferred from un-annotated literals -----
//
// The payload types of a filtermap are the only inferred pieces of a signature. A
// literal that nothing else pins down is an `i32` (integer literal) or an `f64`
// (float literal) by the documentation ("If we don't specify the type we get i32 /
// f64"), at whatever depth of Option / List / Result it sits. The true signature is
// computed here by a small unifier of its own (`Pt`), not by asking roto.

/// payload expression
#[derive(Clone, Debug)]
enum Le {
    Int(i64),
    Flt(f64),
    /// parameter `x: i64`
    X,
    /// parameter `y: f32`
    Y,
    Some(Box<Le>),
    None,
    List(Vec<Le>),
    Ok(Box<Le>),
    Err(Box<Le>),
}

/// partial type of a payload expression
#[derive(Clone, Debug, PartialEq)]
enum Pt {
    Unknown,
    IntLit,
    FltLit,
    Leaf(&'static str),
    Opt(Box<Pt>),
    List(Box<Pt>),
    Res(Box<Pt>, Box<Pt>),
}

fn unify(a: &Pt, b: &Pt) -> Pt {
    use Pt::*;
    match (a, b) {
        (Unknown, x) | (x, Unknown) => x.clone(),
        (IntLit, IntLit) => IntLit,
        (FltLit, FltLit) => FltLit,
        (IntLit, Leaf(n)) | (Leaf(n), IntLit) if super::int_of(n).is_some() => Leaf(n),
        (FltLit, Leaf(n)) | (Leaf(n), FltLit) if n.starts_with('f') => Leaf(n),
        (Leaf(n), Leaf(m)) if n == m => Leaf(n),
        (Opt(x), Opt(y)) => Opt(Box::new(unify(x, y))),
        (List(x), List(y)) => List(Box::new(unify(x, y))),
        (Res(a1, b1), Res(a2, b2)) => Res(Box::new(unify(a1, a2)), Box::new(unify(b1, b2))),
        _ => panic!("harness: literal filtermap spec does not type: {a:?} vs {b:?}"),
    }
}

/// the documented defaults for what is still open
fn defaulted(p: &Pt) -> Desc {
    match p {
        Pt::Unknown => panic!("harness: literal filtermap spec leaves a type open"),
        Pt::IntLit => Desc::Leaf("i32"),
        Pt::FltLit => Desc::Leaf("f64"),
        Pt::Leaf(n) => Desc::Leaf(n),
        Pt::Opt(x) => Desc::Opt(Box::new(defaulted(x))),
        Pt::List(x) => Desc::List(Box::new(defaulted(x))),
        Pt::Res(a, b) => Desc::Res(Box::new(defaulted(a)), Box::new(defaulted(b))),
    }
}

/// value of a payload as the oracle sees it
#[derive(Clone, Debug, PartialEq)]
enum Lv {
    Unit,
    I(i128),
    F32(u32),
    F64(u64),
    Some(Box<Lv>),
    None,
    List(Vec<Lv>),
    Ok(Box<Lv>),
    Err(Box<Lv>),
}

fn lv32(v: f32) -> Lv {
    Lv::F32(if v.is_nan() { f32::NAN.to_bits() } else { v.to_bits() })
}
fn lv64(v: f64) -> Lv {
    Lv::F64(if v.is_nan() { f64::NAN.to_bits() } else { v.to_bits() })
}

impl Le {
    fn expr(&self) -> String {
        match self {
            Le::Int(v) => format!("{v}"),
            Le::Flt(v) => format!("{v:?}"),
            Le::X => "x".into(),
            Le::Y => "y".into(),
            Le::Some(e) => format!("Some({})", e.expr()),
            Le::None => "None".into(),
            Le::List(es) => format!("[{}]", es.iter().map(|e| e.expr()).collect::<Vec<_>>().join(", ")),
            Le::Ok(e) => format!("Ok({})", e.expr()),
            Le::Err(e) => format!("Err({})", e.expr()),
        }
    }
    fn pt(&self) -> Pt {
        match self {
            Le::Int(_) => Pt::IntLit,
            Le::Flt(_) => Pt::FltLit,
            Le::X => Pt::Leaf("i64"),
            Le::Y => Pt::Leaf("f32"),
            Le::Some(e) => Pt::Opt(Box::new(e.pt())),
            Le::None => Pt::Opt(Box::new(Pt::Unknown)),
            Le::List(es) => Pt::List(Box::new(es.iter().fold(Pt::Unknown, |a, e| unify(&a, &e.pt())))),
            Le::Ok(e) => Pt::Res(Box::new(e.pt()), Box::new(Pt::Unknown)),
            Le::Err(e) => Pt::Res(Box::new(Pt::Unknown), Box::new(e.pt())),
        }
    }
    /// nesting depth of the deepest literal
    fn lit_depth(&self) -> Option<usize> {
        match self {
            Le::Int(_) | Le::Flt(_) => Some(0),
            Le::X | Le::Y | Le::None => None,
            Le::Some(e) | Le::Ok(e) | Le::Err(e) => e.lit_depth().map(|d| d + 1),
            Le::List(es) => es.iter().filter_map(|e| e.lit_depth()).max().map(|d| d + 1),
        }
    }
    fn eval(&self, d: &Desc, x: i64, y: f32) -> Lv {
        match (self, d) {
            (Le::Int(v), Desc::Leaf(_)) => Lv::I(*v as i128),
            (Le::X, Desc::Leaf(_)) => Lv::I(x as i128),
            (Le::Flt(v), Desc::Leaf("f32")) => lv32(*v as f32),
            (Le::Flt(v), Desc::Leaf(_)) => lv64(*v),
            (Le::Y, Desc::Leaf(_)) => lv32(y),
            (Le::Some(e), Desc::Opt(d)) => Lv::Some(Box::new(e.eval(d, x, y))),
            (Le::None, Desc::Opt(_)) => Lv::None,
            (Le::List(es), Desc::List(d)) => Lv::List(es.iter().map(|e| e.eval(d, x, y)).collect()),
            (Le::Ok(e), Desc::Res(a, _)) => Lv::Ok(Box::new(e.eval(a, x, y))),
            (Le::Err(e), Desc::Res(_, b)) => Lv::Err(Box::new(e.eval(b, x, y))),
            _ => panic!("harness: literal filtermap spec and its type disagree"),
        }
    }
}

/// what the Rust side received, in the oracle's terms
trait Lit: Term {
    fn lv(&self) -> Lv;
}
impl Lit for () {
    fn lv(&self) -> Lv { Lv::Unit }
}
macro_rules! lit_int {
    ($($t:ty),*) => {$( impl Lit for $t { fn lv(&self) -> Lv { Lv::I(*self as i128) } } )*};
}
lit_int!(i32, i64, u32);
impl Lit for f32 {
    fn lv(&self) -> Lv { lv32(*self) }
}
impl Lit for f64 {
    fn lv(&self) -> Lv { lv64(*self) }
}
impl<T: Lit> Lit for Option<T> {
    fn lv(&self) -> Lv {
        match self {
            Some(x) => Lv::Some(Box::new(x.lv())),
            None => Lv::None,
        }
    }
}
impl<T: Lit> Lit for List<T> {
    fn lv(&self) -> Lv { Lv::List(self.to_vec().iter().map(|x| x.lv()).collect()) }
}
impl<A: Lit, B: Lit> Lit for Result<A, B> {
    fn lv(&self) -> Lv {
        match self {
            Ok(x) => Lv::Ok(Box::new(x.lv())),
            Err(x) => Lv::Err(Box::new(x.lv())),
        }
    }
}

#[derive(Clone, Copy, Debug, PartialEq, Eq)]
enum LitSide {
    Accept,
    Reject,
    Both,
}

/// one filtermap: `alts[i]` runs for `c == i` (the last one for every larger `c`)
struct FmLit {
    name: String,
    /// (accepts, payload)
    alts: Vec<(bool, Option<Le>)>,
    acc: Desc,
    rej: Desc,
    shape: String,
    depth: usize,
}

impl FmLit {
    fn new(name: String, shape: String, alts: Vec<(bool, Option<Le>)>) -> FmLit {
        let side = |want: bool| {
            let mut pt = None;
            for (a, e) in &alts {
                if *a == want {
                    if let Some(e) = e {
                        pt = Some(match pt {
                            None => e.pt(),
                            Some(p) => unify(&p, &e.pt()),
                        });
                    }
                }
            }
            match pt {
                Some(p) => defaulted(&p),
                // never used, or used without a payload
                None => Desc::Leaf("()"),
            }
        };
        let depth = alts.iter().filter_map(|(_, e)| e.as_ref().and_then(|e| e.lit_depth())).max().unwrap_or(0);
        FmLit { acc: side(true), rej: side(false), name, alts, shape, depth }
    }
    fn source(&self) -> String {
        let stmt = |(a, e): &(bool, Option<Le>)| format!("{}{}", if *a { "accept" } else { "reject" }, e.as_ref().map(|e| format!(" {}", e.expr())).unwrap_or_default());
        let mut body = String::new();
        let n = self.alts.len();
        for (i, alt) in self.alts.iter().enumerate() {
            if n == 1 {
                body = format!("    {}\n", stmt(alt));
            } else if i == 0 {
                body += &format!("    if c == 0 {{\n        {}\n    }}", stmt(alt));
            } else if i + 1 < n {
                body += &format!(" else if c == {i} {{\n        {}\n    }}", stmt(alt));
            } else {
                body += &format!(" else {{\n        {}\n    }}\n", stmt(alt));
            }
        }
        format!("filtermap {}(c: u32, x: i64, y: f32) {{\n{body}}}\n\n", self.name)
    }
    fn expect(&self, c: u32, x: i64, y: f32) -> (bool, Lv) {
        let (a, e) = &self.alts[(c as usize).min(self.alts.len() - 1)];
        let d = if *a { &self.acc } else { &self.rej };
        (*a, e.as_ref().map(|e| e.eval(d, x, y)).unwrap_or(Lv::Unit))
    }
}

struct HLit<A: Lit, R: Lit>(TypedFunc<NoCtx, fn(u32, i64, f32) -> Verdict<A, R>>, std::rc::Rc<FmLit>);
impl<A: Lit, R: Lit> Handle for HLit<A, R> {
    fn call(&self, k: usize, m: &mut Mon, route: &str, hostev: &[&'static str]) {
        m.begin(k);
        let c = (k % (self.1.alts.len() + 1)) as u32;
        let x: i64 = value(m.seed, k);
        let y: f32 = value(m.seed, k);
        let want = self.1.expect(c, x, y);
        let r = self.0.call(c, x, y);
        let got = match &r {
            Verdict::Accept(a) => (true, a.lv()),
            Verdict::Reject(r) => (false, r.lv()),
        };
        m.checks += 1;
        if want != got {
            m.fail(
                format!("boundary:{route}@{}", self.1.shape),
                format!("{route}: filtermap {} returned {got:?} for c = {c}, expected {want:?}", self.1.name),
                J::obj().set("route", route).set("k", k).set("seed", m.seed).set("filtermap", self.1.source()),
            );
        }
        drop(r);
        m.finish(route, k, hostev);
    }
}

struct LitReq {
    acc: Desc,
    rej: Desc,
    get: fn(&mut Package<NoCtx>, &std::rc::Rc<FmLit>) -> Got,
}

fn lit_get<A: Lit, R: Lit>(pkg: &mut Package<NoCtx>, spec: &std::rc::Rc<FmLit>) -> Got {
    got(catch(|| pkg.get_function::<fn(u32, i64, f32) -> Verdict<A, R>>(&spec.name)), |f| Box::new(HLit::<A, R>(f, spec.clone())))
}

fn lit_req<A: Lit, R: Lit>() -> LitReq {
    LitReq { acc: A::desc(), rej: R::desc(), get: lit_get::<A, R> }
}

/// The requested payload types: every wrapper up to depth 2 over the documented
/// default and its near misses (width, signedness, float width, int-vs-float).
mod lit_tables {
    use super::*;

    macro_rules! one_side {
        ($v:ident, $($p:ty),* $(,)?) => {$( $v.push(lit_req::<$p, ()>()); $v.push(lit_req::<(), $p>()); )*};
    }
    macro_rules! wrappers {
        ($v:ident, $($x:ty),*) => {$(
            one_side!($v, $x, Option<$x>, List<$x>, Option<List<$x>>, List<Option<$x>>, List<List<$x>>, Option<Option<$x>>);
        )*};
    }
    macro_rules! results {
        ($v:ident, $(($x:ty, $y:ty)),*) => {$(
            one_side!($v, Result<$x, $y>, List<Result<$x, $y>>, Option<Result<$x, $y>>);
        )*};
    }
    macro_rules! both {
        ($v:ident, $(($x:ty, $y:ty)),*) => {$(
            $v.push(lit_req::<$x, $y>());
            $v.push(lit_req::<Option<$x>, List<$y>>());
            $v.push(lit_req::<List<$x>, Option<List<$y>>>());
        )*};
    }

    pub fn ints(v: &mut Vec<LitReq>) {
        wrappers!(v, i32, i64, u32);
    }
    pub fn floats(v: &mut Vec<LitReq>) {
        wrappers!(v, f64, f32);
    }
    pub fn results(v: &mut Vec<LitReq>) {
        results!(v, (i32, f64), (i64, f64), (i32, f32), (f64, i32), (u32, f64));
    }
    pub fn both(v: &mut Vec<LitReq>) {
        both!(v, (i32, f64), (i64, f64), (i32, f32), (u32, f64), (i32, i32), (f64, f64), (f64, i32));
    }
}

fn lit_requests() -> Vec<LitReq> {
    let mut v = Vec::new();
    lit_tables::ints(&mut v);
    lit_tables::floats(&mut v);
    lit_tables::results(&mut v);
    lit_tables::both(&mut v);
    v.push(lit_req::<(), ()>());
    v
}

/// what stands at a leaf of a payload shape
#[derive(Clone, Copy, Debug, PartialEq, Eq)]
enum Lk {
    /// integer literal
    I,
    /// float literal
    F,
    /// integer literal next to `x: i64`
    PX,
    /// float literal next to `y: f32`
    PY,
}

impl Lk {
    fn tag(self) -> &'static str {
        match self {
            Lk::I => "int",
            Lk::F => "float",
            Lk::PX => "int-pinned-i64",
            Lk::PY => "float-pinned-f32",
        }
    }
}

/// source of leaves: literals with fresh values; in the pinned kinds every second
/// leaf is the typed parameter
struct Leaves<'a> {
    rng: &'a mut Rng,
    n: usize,
}

impl Leaves<'_> {
    fn int(&mut self) -> Le {
        // no `-2147483648`: the literal without its sign does not fit an i32
        Le::Int(match self.rng.below(5) {
            0 => self.rng.range(-3, 4),
            1 => *self.rng.pick(&[i32::MAX as i64, -(i32::MAX as i64), 65536, -32769, 255, 128, -129]),
            _ => self.rng.range(-(i32::MAX as i64), i32::MAX as i64),
        })
    }
    fn flt(&mut self) -> Le {
        // multiples of 1/8 below 2^20: exact in f32 and f64, printed with a `.`
        Le::Flt(self.rng.range(-(1 << 23), 1 << 23) as f64 / 8.0)
    }
    fn leaf(&mut self, k: Lk) -> Le {
        self.n += 1;
        match k {
            Lk::I => self.int(),
            Lk::F => self.flt(),
            Lk::PX if self.n % 2 == 1 => Le::X,
            Lk::PX => self.int(),
            Lk::PY if self.n % 2 == 1 => Le::Y,
            Lk::PY => self.flt(),
        }
    }
}

const LIT_SHAPES: [&str; 12] =
    ["L", "Some(L)", "None|Some(L)", "[L,L,L]", "[]|[L]", "Some([L])", "[Some(L)]", "[None,Some(L)]", "[[L,L],[L]]", "Some(Some(L))", "Some(None)|Some(Some(L))|None", "None|Some([])|Some([L,L])"];
const LIT_RES_SHAPES: [&str; 3] = ["Ok(L)|Err(M)", "[Ok(L),Err(M)]", "Some(Ok(L))|Some(Err(M))|None"];

/// the alternatives of one side for a shape
fn lit_shape(shape: &str, k: Lk, k2: Lk, lv: &mut Leaves) -> Vec<Le> {
    let some = |e: Le| Le::Some(Box::new(e));
    let l = |lv: &mut Leaves| lv.leaf(k);
    match shape {
        "L" => vec![l(lv)],
        "Some(L)" => vec![some(l(lv))],
        "None|Some(L)" => vec![Le::None, some(l(lv))],
        "[L,L,L]" => vec![Le::List(vec![l(lv), l(lv), l(lv)])],
        "[]|[L]" => vec![Le::List(vec![]), Le::List(vec![l(lv)])],
        "Some([L])" => vec![some(Le::List(vec![l(lv)]))],
        "[Some(L)]" => vec![Le::List(vec![some(l(lv))])],
        "[None,Some(L)]" => vec![Le::List(vec![Le::None, some(l(lv))])],
        "[[L,L],[L]]" => vec![Le::List(vec![Le::List(vec![l(lv), l(lv)]), Le::List(vec![l(lv)])])],
        "Some(Some(L))" => vec![some(some(l(lv)))],
        "Some(None)|Some(Some(L))|None" => vec![some(Le::None), some(some(l(lv))), Le::None],
        "None|Some([])|Some([L,L])" => vec![Le::None, some(Le::List(vec![])), some(Le::List(vec![l(lv), l(lv)]))],
        "Ok(L)|Err(M)" => vec![Le::Ok(Box::new(l(lv))), Le::Err(Box::new(lv.leaf(k2)))],
        "[Ok(L),Err(M)]" => vec![Le::List(vec![Le::Ok(Box::new(l(lv))), Le::Err(Box::new(lv.leaf(k2)))])],
        "Some(Ok(L))|Some(Err(M))|None" => vec![some(Le::Ok(Box::new(l(lv)))), some(Le::Err(Box::new(lv.leaf(k2)))), Le::None],
        _ => panic!("harness: unknown literal shape {shape}"),
    }
}

/// Alternatives of one side: in the pinned kinds the shape is written twice, so that
/// a shape with a single leaf has the parameter in one alternative and the literal
/// in the other.
fn lit_side(shape: &str, k: Lk, k2: Lk, rng: &mut Rng) -> Vec<Le> {
    let mut lv = Leaves { rng, n: 0 };
    let mut v = lit_shape(shape, k, k2, &mut lv);
    if matches!(k, Lk::PX | Lk::PY) || matches!(k2, Lk::PX | Lk::PY) {
        // the second time the literal stands where the parameter stood
        lv.n = 1;
        v.extend(lit_shape(shape, k, k2, &mut lv));
    }
    v
}

// --- an unregistered type -----------------------------------------------------

#[derive(Clone, Debug, PartialEq)]
pub struct Unreg(pub u64);
mod other {
    /// same name as a registered type, different Rust type
    #[derive(Clone, Debug, PartialEq)]
    pub struct Trk(pub u64, pub u64, pub u64);
}

impl Gate {
    pub fn new(_args: &Args) -> Gate {
        let cat = catalogue();
        let mut rt = super::runtime(&cat);
        rt.add(gate_lib()).expect("harness: gate library registers");
        Gate { cat, rt }
    }

    fn compile(&self, src: &str, out: &mut CaseOut, what: &str) -> Option<Package<NoCtx>> {
        match catch(|| exec::compile(src, &self.rt)) {
            Ok(Ok(p)) => Some(p),
            Ok(Err(rep)) => {
                out.viol(format!("gate:compile-rejected@{what}"), format!("script of the {what} case was rejected: {rep}"), J::obj().set("source", src));
                None
            }
            Err(p) => {
                out.viol(format!("gate:compile-{}@{what}", panic_sig(&p)), format!("compiling the script of the {what} case panicked: {p}"), J::obj().set("source", src));
                None
            }
        }
    }

    /// One request with its expectation; calls the handle when it was expected.
    #[allow(clippy::too_many_arguments)]
    fn judge(&self, out: &mut CaseOut, m: &mut Mon, g: Got, expect_ok: bool, class: &str, what: J, route: &str, hostev: &[&'static str], nvals: usize) {
        out.evals += 1;
        match (&g, expect_ok) {
            (Got::Ok(h), true) => {
                for k in 0..nvals {
                    h.call(k, m, route, hostev);
                }
            }
            (Got::Refused(_), false) => {}
            (Got::Ok(_), false) => out.viol(
                format!("gate:accepted@{class}"),
                format!("get_function returned a callable handle for a mismatching request ({class})"),
                what,
            ),
            (Got::Refused(e), true) => out.viol(
                format!("gate:refused@{class}"),
                format!("get_function refused the mapped signature: {}", g_text(e)),
                what,
            ),
            (Got::Panic(p), _) => out.viol(
                format!("gate:panic@{class}"),
                format!("get_function panicked instead of returning an error: {p}"),
                what.set("panic", p.as_str()).set("panic_sig", panic_sig(p)),
            ),
        }
    }

    fn row(&self, s: usize, out: &mut CaseOut, args: &Args) {
        let st = &self.cat[s];
        let src = format!(
            "fn p_{s}(x: {alt}) {{\n    sink_{s}(x);\n}}\n\nfn r_{s}() -> {ty} {{\n    src_{s}()\n}}\n",
            alt = st.desc.roto_alt(),
            ty = st.roto
        );
        out.hash = hash_str(&src);
        out.tags.push(format!("gate:row:{}", st.roto));
        out.tags.push(st.layout_tag());
        let Some(mut pkg) = self.compile(&src, out, &format!("row/{}", st.roto)) else { return };
        let mut m = Mon::new(args.seed, &st.roto, st.desc.has_zst_val());
        let nvals = if args.thorough() { st.n_edges + 500 } else { st.n_edges + 16 };
        let mut rows = Vec::new();
        for t in &self.cat {
            let class = classify(&st.desc, &t.desc);
            let same = if args.opt("fault") == Some("oracle") { t.idx == (s + 1) % self.cat.len() } else { t.idx == s };
            for (shape, name, route, hostev) in
                [(Shape::P, format!("p_{s}"), "gate/rust->script->host", &["sink"][..]), (Shape::R, format!("r_{s}"), "gate/host->script->rust", &["src"][..])]
            {
                let g = t.try_get(&mut pkg, &name, shape).expect("P and R exist for every term");
                let kind = g.kind();
                if rows.len() < 6 && (same || rows.len() < 3) {
                    rows.push(J::obj().set("script", st.roto.as_str()).set("requested", t.rust).set("shape", format!("{shape:?}")).set("result", kind));
                }
                let what = J::obj()
                    .set("script_type", st.roto.as_str())
                    .set("requested", t.rust)
                    .set("shape", if shape == Shape::P { "fn(T) -> ()" } else { "fn() -> T" })
                    .set("function", name.as_str())
                    .set("source", src.as_str());
                self.judge(out, &mut m, g, same, &class, what, route, hostev, nvals);
            }
            out.tags.push(format!("gate:{}", super::classify_coarse(&st.desc, &t.desc)));
        }
        self.flush(out, m);
        out.sample = Some(J::obj().set("kind", "row").set("term", term_json(st)).set("source", src).set("requests", J::Arr(rows)));
    }

    fn flush(&self, out: &mut CaseOut, m: Mon) {
        out.evals += m.calls;
        out.events += m.checks;
        for f in m.fails {
            let n = m.more.get(&f.sig).copied().unwrap_or(0);
            out.viol(f.sig, if n > 0 { format!("{} (+{n} more)", f.msg) } else { f.msg }, f.detail);
        }
    }

    fn arity(&self, out: &mut CaseOut, args: &Args) {
        let mut src = String::new();
        for n in 0..=8usize {
            let ps: Vec<String> = (1..=n).map(|j| format!("x{j}: u32")).collect();
            let xs: Vec<String> = (1..=n).map(|j| format!("x{j}")).collect();
            if n <= 7 {
                src += &format!("fn a{n}({}) -> u32 {{\n    ar{n}({})\n}}\n\n", ps.join(", "), xs.join(", "));
            } else {
                src += &format!("fn a{n}({}) -> u32 {{\n    x8\n}}\n\n", ps.join(", "));
            }
        }
        out.hash = hash_str(&src);
        let Some(mut pkg) = self.compile(&src, out, "arity") else { return };
        let mut m = Mon::new(args.seed, "arity", false);
        macro_rules! req {
            ($name:expr, $n:literal, ($($t:ty),*), |$a:ident| ($($arg:expr),*)) => {
                got(catch(|| pkg.get_function::<fn($($t),*) -> u32>($name)), |f| Box::new(HAr($n, Box::new(move |$a: &[u32]| f.call($($arg),*)))))
            };
        }
        for n in 0..=8usize {
            let name = format!("a{n}");
            for mm in 0..=7usize {
                let g = match mm {
                    0 => req!(&name, 0, (), |_a| ()),
                    1 => req!(&name, 1, (u32), |a| (a[0])),
                    2 => req!(&name, 2, (u32, u32), |a| (a[0], a[1])),
                    3 => req!(&name, 3, (u32, u32, u32), |a| (a[0], a[1], a[2])),
                    4 => req!(&name, 4, (u32, u32, u32, u32), |a| (a[0], a[1], a[2], a[3])),
                    5 => req!(&name, 5, (u32, u32, u32, u32, u32), |a| (a[0], a[1], a[2], a[3], a[4])),
                    6 => req!(&name, 6, (u32, u32, u32, u32, u32, u32), |a| (a[0], a[1], a[2], a[3], a[4], a[5])),
                    _ => req!(&name, 7, (u32, u32, u32, u32, u32, u32, u32), |a| (a[0], a[1], a[2], a[3], a[4], a[5], a[6])),
                };
                let class = if n == mm { "same".to_string() } else { format!("arity-{}", if mm < n { "fewer" } else { "more" }) };
                out.tags.push(format!("gate:arity:{n}x{mm}"));
                let what = J::obj().set("script_arity", n).set("requested_arity", mm).set("source", src.as_str());
                self.judge(out, &mut m, g, n == mm, &class, what, "gate/arity", &["ar"], 16);
            }
        }
        self.flush(out, m);
        out.sample = Some(J::obj().set("kind", "arity").set("source", src));
    }

    fn transpose(&self, out: &mut CaseOut, args: &Args) {
        let src = "fn t7(a: u8, b: i16, c: u32, d: i64, e: f32, f: f64, g: bool) -> i64 {\n    tr7(a, b, c, d, e, f, g)\n}\n".to_string();
        out.hash = hash_str(&src);
        let Some(mut pkg) = self.compile(&src, out, "transpose") else { return };
        let mut m = Mon::new(args.seed, "t7", false);
        let g = got(catch(|| pkg.get_function::<fn(u8, i16, u32, i64, f32, f64, bool) -> i64>("t7")), |f| Box::new(HT7(f)));
        self.judge(out, &mut m, g, true, "same", J::obj().set("source", src.as_str()), "gate/transpose", &["tr7"], 32);
        macro_rules! req {
            (($($t:ty),*) -> $r:ty) => {
                got(catch(|| pkg.get_function::<fn($($t),*) -> $r>("t7")), |_f| Box::new(Never))
            };
        }
        let reqs: Vec<(&str, Got)> = vec![
            ("swap12", req!((i16, u8, u32, i64, f32, f64, bool) -> i64)),
            ("swap13", req!((u32, i16, u8, i64, f32, f64, bool) -> i64)),
            ("swap14", req!((i64, i16, u32, u8, f32, f64, bool) -> i64)),
            ("swap15", req!((f32, i16, u32, i64, u8, f64, bool) -> i64)),
            ("swap16", req!((f64, i16, u32, i64, f32, u8, bool) -> i64)),
            ("swap17", req!((bool, i16, u32, i64, f32, f64, u8) -> i64)),
            ("swap23", req!((u8, u32, i16, i64, f32, f64, bool) -> i64)),
            ("swap24", req!((u8, i64, u32, i16, f32, f64, bool) -> i64)),
            ("swap25", req!((u8, f32, u32, i64, i16, f64, bool) -> i64)),
            ("swap26", req!((u8, f64, u32, i64, f32, i16, bool) -> i64)),
            ("swap27", req!((u8, bool, u32, i64, f32, f64, i16) -> i64)),
            ("swap34", req!((u8, i16, i64, u32, f32, f64, bool) -> i64)),
            ("swap35", req!((u8, i16, f32, i64, u32, f64, bool) -> i64)),
            ("swap36", req!((u8, i16, f64, i64, f32, u32, bool) -> i64)),
            ("swap37", req!((u8, i16, bool, i64, f32, f64, u32) -> i64)),
            ("swap45", req!((u8, i16, u32, f32, i64, f64, bool) -> i64)),
            ("swap46", req!((u8, i16, u32, f64, f32, i64, bool) -> i64)),
            ("swap47", req!((u8, i16, u32, bool, f32, f64, i64) -> i64)),
            ("swap56", req!((u8, i16, u32, i64, f64, f32, bool) -> i64)),
            ("swap57", req!((u8, i16, u32, i64, bool, f64, f32) -> i64)),
            ("swap67", req!((u8, i16, u32, i64, f32, bool, f64) -> i64)),
            ("repl1", req!((u64, i16, u32, i64, f32, f64, bool) -> i64)),
            ("repl2", req!((u8, u64, u32, i64, f32, f64, bool) -> i64)),
            ("repl3", req!((u8, i16, u64, i64, f32, f64, bool) -> i64)),
            ("repl4", req!((u8, i16, u32, u64, f32, f64, bool) -> i64)),
            ("repl5", req!((u8, i16, u32, i64, u64, f64, bool) -> i64)),
            ("repl6", req!((u8, i16, u32, i64, f32, u64, bool) -> i64)),
            ("repl7", req!((u8, i16, u32, i64, f32, f64, u64) -> i64)),
            ("ret-u64", req!((u8, i16, u32, i64, f32, f64, bool) -> u64)),
            ("ret-i32", req!((u8, i16, u32, i64, f32, f64, bool) -> i32)),
            ("ret-unit", req!((u8, i16, u32, i64, f32, f64, bool) -> ())),
            ("ret-option", req!((u8, i16, u32, i64, f32, f64, bool) -> Option<i64>)),
        ];
        for (name, g) in reqs {
            out.tags.push(format!("gate:transpose:{name}"));
            let class = format!("position-{}", &name[..name.len().min(4)]);
            self.judge(out, &mut m, g, false, &class, J::obj().set("request", name).set("source", src.as_str()), "gate/transpose", &[], 0);
        }
        self.flush(out, m);
        out.sample = Some(J::obj().set("kind", "transpose").set("source", src));
    }

    fn filtermap(&self, out: &mut CaseOut, args: &Args) {
        let pks = [Pk::Unused, Pk::Unit, Pk::X, Pk::S];
        let mut specs = Vec::new();
        let mut src = String::new();
        for a in pks {
            for r in pks {
                if a == Pk::Unused && r == Pk::Unused {
                    continue;
                }
                let name = format!("fm_{}_{}", a.tag().to_lowercase(), r.tag().to_lowercase());
                let body = match (a, r) {
                    (_, Pk::Unused) => format!("    accept{}", a.expr()),
                    (Pk::Unused, _) => format!("    reject{}", r.expr()),
                    _ => format!("    if c {{\n        accept{}\n    }} else {{\n        reject{}\n    }}", a.expr(), r.expr()),
                };
                src += &format!("filtermap {name}(c: bool, x: i32, s: String) {{\n{body}\n}}\n\n");
                specs.push((name, a, r));
            }
        }
        out.hash = hash_str(&src);
        let Some(mut pkg) = self.compile(&src, out, "filtermap") else { return };
        let mut m = Mon::new(args.seed, "filtermap", false);
        let unit = || Desc::Leaf("()");
        let i = || Desc::Leaf("i32");
        let s = || Desc::Leaf("String");
        let v = |a: Desc, b: Desc| Desc::Verd(Box::new(a), Box::new(b));
        for (name, a, r) in &specs {
            let truth = v(a.desc(), r.desc());
            macro_rules! fm {
                ($A:ty, $R:ty) => {
                    got(catch(|| pkg.get_function::<fn(bool, i32, RotoString) -> Verdict<$A, $R>>(name)), |f| Box::new(HFm::<$A, $R>(f, *a, *r)))
                };
            }
            macro_rules! other {
                ($R:ty) => {
                    got(catch(|| pkg.get_function::<fn(bool, i32, RotoString) -> $R>(name)), |_f| Box::new(Never))
                };
            }
            let reqs: Vec<(Desc, Got)> = vec![
                (v(unit(), unit()), fm!((), ())),
                (v(unit(), i()), fm!((), i32)),
                (v(unit(), s()), fm!((), RotoString)),
                (v(i(), unit()), fm!(i32, ())),
                (v(i(), i()), fm!(i32, i32)),
                (v(i(), s()), fm!(i32, RotoString)),
                (v(s(), unit()), fm!(RotoString, ())),
                (v(s(), i()), fm!(RotoString, i32)),
                (v(s(), s()), fm!(RotoString, RotoString)),
                (unit(), other!(())),
                (i(), other!(i32)),
                (s(), other!(RotoString)),
                (Desc::Leaf("bool"), other!(bool)),
                (Desc::Opt(Box::new(i())), other!(Option<i32>)),
                (Desc::Opt(Box::new(unit())), other!(Option<()>)),
                (Desc::Res(Box::new(i()), Box::new(s())), other!(Result<i32, RotoString>)),
                (Desc::Res(Box::new(unit()), Box::new(unit())), other!(Result<(), ()>)),
                (Desc::Res(Box::new(i()), Box::new(unit())), other!(Result<i32, ()>)),
                (v(v(unit(), unit()), unit()), other!(Verdict<Verdict<(), ()>, ()>)),
                (v(unit(), v(unit(), unit())), other!(Verdict<(), Verdict<(), ()>>)),
                (v(Desc::Opt(Box::new(i())), unit()), other!(Verdict<Option<i32>, ()>)),
                (v(v(i(), s()), v(i(), s())), other!(Verdict<Verdict<i32, RotoString>, Verdict<i32, RotoString>>)),
                (v(Desc::Leaf("u32"), unit()), other!(Verdict<u32, ()>)),
                (v(Desc::Leaf("i64"), s()), other!(Verdict<i64, RotoString>)),
            ];
            for (d, g) in reqs {
                let class = format!("filtermap/{}", classify(&truth, &d));
                out.tags.push(format!("gate:filtermap:accept={},reject={}:{}", a.tag(), r.tag(), g.kind()));
                out.tags.push(format!("gate:filtermap/{}", super::classify_coarse(&truth, &d)));
                let what = J::obj().set("filtermap", name.as_str()).set("true_type", truth.roto()).set("requested", d.roto()).set("source", src.as_str());
                self.judge(out, &mut m, g, d == truth, &class, what, "gate/filtermap", &[], 24);
            }
        }
        self.flush(out, m);
        out.sample = Some(J::obj().set("kind", "filtermap").set("source", src));
    }

    /// Filtermaps whose payload types come from un-annotated literals only, at
    /// depth 0..2 of Option / List / Result, on the accept side, the reject side or
    /// both: retrievable under the documented defaults (and callable with the value
    /// written in the script), refused under every near miss and every other shape.
    fn fmlit(&self, side: LitSide, out: &mut CaseOut, args: &Args) {
        let mut rng = Rng::new(args.seed ^ 0x66_6d_6c_69_74);
        let mut specs: Vec<std::rc::Rc<FmLit>> = Vec::new();
        let mut add = |shape: String, alts: Vec<(bool, Option<Le>)>| {
            let name = format!("fl_{}", specs.len());
            specs.push(std::rc::Rc::new(FmLit::new(name, shape, alts)));
        };
        match side {
            LitSide::Accept | LitSide::Reject => {
                let acc = side == LitSide::Accept;
                let mut one = |shape: &str, k: Lk, k2: Lk, tag: String, rng: &mut Rng| {
                    // with and without a use of the other side (which has no payload)
                    for other in [false, true] {
                        let mut alts: Vec<(bool, Option<Le>)> = lit_side(shape, k, k2, rng).into_iter().map(|e| (acc, Some(e))).collect();
                        if other {
                            alts.insert(alts.len() / 2, (!acc, None));
                        }
                        add(format!("{}={shape}:{tag}{}", if acc { "accept" } else { "reject" }, if other { ":other-side-bare" } else { "" }), alts);
                    }
                };
                for k in [Lk::I, Lk::F, Lk::PX, Lk::PY] {
                    for shape in LIT_SHAPES {
                        one(shape, k, k, k.tag().to_string(), &mut rng);
                    }
                }
                for (k, k2) in [(Lk::I, Lk::F), (Lk::F, Lk::I), (Lk::PX, Lk::F), (Lk::I, Lk::PY)] {
                    for shape in LIT_RES_SHAPES {
                        one(shape, k, k2, format!("{},{}", k.tag(), k2.tag()), &mut rng);
                    }
                }
            }
            LitSide::Both => {
                for (sa, sr) in [("L", "L"), ("None|Some(L)", "[L,L,L]"), ("[]|[L]", "None|Some([])|Some([L,L])"), ("Some(L)", "[L,L,L]"), ("[L,L,L]", "Some([L])")] {
                    for (ka, kr) in [(Lk::I, Lk::F), (Lk::PX, Lk::F), (Lk::I, Lk::PY), (Lk::I, Lk::I), (Lk::F, Lk::F), (Lk::F, Lk::I)] {
                        let a = lit_side(sa, ka, ka, &mut rng);
                        let r = lit_side(sr, kr, kr, &mut rng);
                        // interleave the two sides
                        let mut alts = Vec::new();
                        let (mut a, mut r) = (a.into_iter(), r.into_iter());
                        loop {
                            let (x, y) = (a.next(), r.next());
                            if x.is_none() && y.is_none() {
                                break;
                            }
                            alts.extend(x.map(|e| (true, Some(e))));
                            alts.extend(y.map(|e| (false, Some(e))));
                        }
                        add(format!("accept={sa}:{},reject={sr}:{}", ka.tag(), kr.tag()), alts);
                    }
                }
            }
        }
        let src: String = specs.iter().map(|s| s.source()).collect();
        out.hash = hash_str(&src);
        let what = format!("fmlit-{}", format!("{side:?}").to_lowercase());
        let Some(mut pkg) = self.compile(&src, out, &what) else { return };
        let mut m = Mon::new(args.seed, "filtermap-literals", false);
        let reqs = lit_requests();
        let mut rows = Vec::new();
        for spec in &specs {
            let truth = Desc::Verd(Box::new(spec.acc.clone()), Box::new(spec.rej.clone()));
            out.tags.push(format!("gate:fmlit:{}", spec.shape));
            out.tags.push(format!("gate:fmlit-depth:{}", spec.depth));
            let mut hit = false;
            for r in &reqs {
                let d = Desc::Verd(Box::new(r.acc.clone()), Box::new(r.rej.clone()));
                let same = d == truth;
                hit |= same;
                let g = (r.get)(&mut pkg, spec);
                let class = format!("fmlit-depth{}/{}", spec.depth, classify(&truth, &d));
                // leaf-level near misses by class; a request of another shape is one tag
                let coarse = super::classify_coarse(&truth, &d);
                let coarse = coarse.replace("int-vs-float", "int/float");
                let coarse = if coarse.contains("-vs-") || coarse.contains("-layer-") { "other-shape" } else { coarse.as_str() };
                out.tags.push(format!("gate:fmlit/{coarse}:{}", g.kind()));
                if rows.len() < 8 && (same || rows.len() < 2) {
                    rows.push(J::obj().set("filtermap", spec.source()).set("true_type", truth.roto()).set("requested", d.roto()).set("result", g.kind()));
                }
                let what = J::obj().set("shape", spec.shape.as_str()).set("true_type", truth.roto()).set("requested", d.roto()).set("filtermap", spec.source());
                self.judge(out, &mut m, g, same, &class, what, "gate/filtermap-literals", &[], 3 * (spec.alts.len() + 1));
            }
            // the catalogue of requests must contain the true signature of every spec
            assert!(hit, "harness: no request for the true type {} of {}", truth.roto(), spec.shape);
        }
        out.count("fmlit_filtermaps", specs.len() as u64);
        out.count("fmlit_requests", (specs.len() * reqs.len()) as u64);
        self.flush(out, m);
        out.sample = Some(J::obj().set("kind", what.as_str()).set("source", src).set("requests", J::Arr(rows)));
    }

    fn names(&self, out: &mut CaseOut, args: &Args) {
        let src = "\
record Rec { a: String, b: u8 }

enum En { A(String), B(Rec), C }

const FOO: u32 = 5;

const BAR: String = \"bar\";

fn main() -> u32 {
    FOO
}

fn helper(x: Rec, y: Rec, e: En, l: List[Rec]) -> bool {
    let z = x;
    let w = e;
    let l2 = l;
    z == y
}

fn opt(x: String?) -> String? {
    let y = x;
    y
}

test t1 {
    accept
}

filtermap fm(x: u32) {
    accept x
}
";
        out.hash = hash_str(src);
        let Some(mut pkg) = self.compile(src, out, "names") else { return };
        let mut m = Mon::new(args.seed, "names", false);
        // the names the package knows, as listed by its own error message
        let listing = match pkg.get_function::<fn()>("\u{1}no such function") {
            Err(e) => format!("{e}"),
            Ok(_) => {
                out.viol("gate:accepted@unknown-name", "a function with an unknown name was returned", J::obj().set("source", src));
                String::new()
            }
        };
        let existing: Vec<String> = listing.lines().filter_map(|l| l.strip_prefix(" - ")).map(|s| s.to_string()).collect();
        out.count("package_names", existing.len() as u64);
        // user functions and the signature under which each is retrievable
        let user = ["main", "helper", "opt", "fm"];
        let mut names: Vec<String> = Vec::new();
        for e in &existing {
            names.push(e.clone());
            if let Some(s) = e.strip_prefix("pkg.") {
                names.push(s.to_string());
            }
            names.push(format!("pkg.{e}"));
            if let Some((_, last)) = e.rsplit_once("::") {
                names.push(last.to_string());
                names.push(format!("generated::{last}"));
                names.push(format!("::{last}"));
            }
        }
        for n in 0..48 {
            for h in ["clone", "drop", "eq"] {
                for pre in ["::generated::", "generated::", "pkg.::generated::", "pkg::generated::", "pkg.generated.", ""] {
                    names.push(format!("{pre}{h}_{n}"));
                }
            }
        }
        for s in [
            "", " ", "pkg", "pkg.", ".main", "main.", "Main", "MAIN", "main ", " main", "main\0", "pkg.main", "pkg.pkg.main", "pkg::main", "::main",
            "self.main", "super.main", "std.main", "lib.main", "gen.main", "gen.roto.main", "FOO", "BAR", "constant#FOO", "constant#BAR", "pkg.constant#FOO",
            "const#FOO", "test#t1", "pkg.test#t1", "t1", "test t1", "test#", "#", "test#main", "Rec", "En", "En.A", "Rec.a", "u32", "String.len", "List.new",
            "String.to_string", "Option.Some", "init", "$entry", "main$entry", "helper.z", "sink_0", "src_0", "ar0", "tr7", "mk", "Trk.tag",
        ] {
            names.push(s.to_string());
        }
        names.sort();
        names.dedup();
        out.count("names_tried", names.len() as u64);
        let mut tests_retrievable = 0;
        for name in &names {
            // the test runner itself retrieves `test#<name>` through get_function: the
            // only generated name that is a (documented) entry point of the package
            let is_test = name == "test#t1";
            macro_rules! ask {
                ($t:ty, $tag:literal) => {{
                    let g = got(catch(|| pkg.get_function::<$t>(name)), |_f| Box::new(Never));
                    out.evals += 1;
                    match &g {
                        Got::Ok(_) if user.contains(&name.as_str()) => {}
                        Got::Ok(_) if is_test => tests_retrievable += 1,
                        Got::Ok(_) => out.viol(
                            format!("gate:accepted@name/{}", name_class(name)),
                            format!("get_function::<{}>({name:?}) returned a handle although no such user function exists", $tag),
                            J::obj().set("name", name.as_str()).set("requested", $tag).set("source", src),
                        ),
                        Got::Refused(_) => {}
                        Got::Panic(p) => out.viol(
                            format!("gate:panic@name/{}", name_class(name)),
                            format!("get_function::<{}>({name:?}) panicked: {p}", $tag),
                            J::obj().set("name", name.as_str()).set("requested", $tag).set("source", src).set("panic", p.as_str()),
                        ),
                    }
                }};
            }
            ask!(fn(), "fn()");
            ask!(fn() -> u32, "fn() -> u32");
            ask!(fn() -> RotoString, "fn() -> RotoString");
            ask!(fn() -> Verdict<(), ()>, "fn() -> Verdict<(), ()>");
            ask!(fn(u64), "fn(u64)");
            ask!(fn(u64) -> u64, "fn(u64) -> u64");
            ask!(fn(u64, u64), "fn(u64, u64)");
            ask!(fn(u64, u64) -> bool, "fn(u64, u64) -> bool");
            ask!(fn(RotoString) -> RotoString, "fn(RotoString) -> RotoString");
            ask!(fn(u32) -> Verdict<u32, ()>, "fn(u32) -> Verdict<u32, ()>");
            out.tags.push(format!("gate:name:{}", name_class(name)));
        }
        if tests_retrievable > 0 {
            out.tags.push("gate:test-entry-retrievable".into());
        }
        // positive controls: the user functions are there under their names
        let g = got(catch(|| pkg.get_function::<fn() -> u32>("main")), |_f| Box::new(Never));
        self.judge(out, &mut m, g, true, "name/main", J::obj().set("source", src), "gate/names", &[], 0);
        let g = got(catch(|| pkg.get_function::<fn(Option<RotoString>) -> Option<RotoString>>("opt")), |_f| Box::new(Never));
        self.judge(out, &mut m, g, true, "name/opt", J::obj().set("source", src), "gate/names", &[], 0);
        let g = got(catch(|| pkg.get_function::<fn(u32) -> Verdict<u32, ()>>("fm")), |_f| Box::new(Never));
        self.judge(out, &mut m, g, true, "name/fm", J::obj().set("source", src), "gate/names", &[], 0);
        self.flush(out, m);
        out.sample = Some(J::obj().set("kind", "names").set("source", src).set("package_names", J::Arr(existing.iter().map(|s| J::from(s.as_str())).collect())));
    }

    fn registered(&self, out: &mut CaseOut, args: &Args) {
        let src = "\
fn pt(x: Trk) {
    out_trk(x);
}

fn rt() -> Trk {
    mk(7)
}

fn pc(x: Cp) {
    out_cp(x);
}

fn pu(x: u32) {
    out_u32(x);
}

fn po(x: Trk?) {
}

fn pl(x: List[Trk]) {
}

fn ro() -> Trk? {
    None
}
";
        out.hash = hash_str(src);
        let Some(mut pkg) = self.compile(src, out, "registered") else { return };
        let mut m = Mon::new(args.seed, "registered", false);
        macro_rules! req {
            ($name:literal, $t:ty, $ok:expr, $class:literal) => {{
                let g = got(catch(|| pkg.get_function::<$t>($name)), |_f| Box::new(Never));
                out.tags.push(format!("gate:registered:{}", $class));
                let what = J::obj().set("function", $name).set("requested", stringify!($t)).set("source", src);
                self.judge(out, &mut m, g, $ok, $class, what, "gate/registered", &[], 0);
            }};
        }
        // positive controls
        req!("pt", fn(Val<Trk>), true, "same");
        req!("rt", fn() -> Val<Trk>, true, "same");
        req!("pc", fn(Val<Cp>), true, "same");
        req!("pu", fn(u32), true, "same");
        req!("po", fn(Option<Val<Trk>>), true, "same");
        req!("pl", fn(List<Val<Trk>>), true, "same");
        req!("ro", fn() -> Option<Val<Trk>>, true, "same");
        // a type that was never registered
        req!("pt", fn(Val<Unreg>), false, "val-vs-unregistered");
        req!("pc", fn(Val<Unreg>), false, "val-vs-unregistered");
        req!("pu", fn(Val<Unreg>), false, "u32-vs-unregistered");
        req!("rt", fn() -> Val<Unreg>, false, "val-vs-unregistered");
        req!("po", fn(Option<Val<Unreg>>), false, "Option<val-vs-unregistered>");
        req!("pl", fn(List<Val<Unreg>>), false, "List<val-vs-unregistered>");
        req!("ro", fn() -> Option<Val<Unreg>>, false, "Option<val-vs-unregistered>");
        req!("rt", fn() -> Verdict<Val<Unreg>, Val<Unreg>>, false, "val-vs-Verdict");
        // same Rust type name, different type
        req!("pt", fn(Val<other::Trk>), false, "val-vs-unregistered-namesake");
        req!("rt", fn() -> Val<other::Trk>, false, "val-vs-unregistered-namesake");
        // a registered type requested as a different registered type
        req!("pt", fn(Val<Cp>), false, "val-vs-val");
        req!("pc", fn(Val<Trk>), false, "val-vs-val");
        req!("rt", fn() -> Val<Cp>, false, "val-vs-val");
        req!("po", fn(Option<Val<Cp>>), false, "Option<val-vs-val>");
        req!("pl", fn(List<Val<Cp>>), false, "List<val-vs-val>");
        // a primitive wrapped in Val, and a registered type unwrapped to a primitive of its size
        req!("pu", fn(Val<u32>), false, "u32-vs-val-of-primitive");
        req!("pc", fn(u32), false, "val-vs-u32");
        req!("pc", fn(Val<u32>), false, "val-vs-val-of-primitive");
        req!("pt", fn(Val<Val<Trk>>), false, "val-vs-val-of-val");
        self.flush(out, m);
        out.sample = Some(J::obj().set("kind", "registered").set("source", src));
    }

    /// Script types the documented mapping gives NO Rust type: records and enums declared
    /// by the script itself (whatever they are called, in particular when they shadow the
    /// name of a built-in leaf type or of Option / List / Result / Verdict) and the never
    /// type `!` at any depth of a signature. A function that mentions one is not
    /// retrievable under any Rust type; the requests made here are the tempting ones (the
    /// built-in of the same name, a primitive of the same size, `()` for `!`).
    fn nomapping(&self, out: &mut CaseOut, args: &Args) {
        let mut m = Mon::new(args.seed, "nomapping", false);
        let mut hash = String::new();
        let mut sources = Vec::new();
        // -- a script-declared record named like a built-in leaf type ------------------------
        macro_rules! shadow_leaf {
            ($($name:literal => $t:ty, $sz:ty);* $(;)?) => {$({
                let name: &str = $name;
                // two fields of a type that is not the shadowed one
                let fty = if name == "i64" { "u16" } else { "i64" };
                let src = format!(
                    "record {name} {{ zz_a: {fty}, zz_b: {fty} }}\n\nfn mk(x: {fty}) -> {name} {{\n    {name} {{ zz_a: x, zz_b: x }}\n}}\n\n\
                     fn take(v: {name}) -> {fty} {{\n    v.zz_a\n}}\n\nfn opt(v: {name}?) -> {fty} {{\n    match v {{\n        Some(w) => w.zz_b,\n        None => 0,\n    }}\n}}\n\n\
                     fn lst(v: List[{name}]) -> u64 {{\n    v.len()\n}}\n"
                );
                hash.push_str(&src);
                match catch(|| exec::compile(&src, &self.rt)) {
                    Ok(Ok(mut pkg)) => {
                        out.tags.push(format!("gate:nomapping:shadow-leaf:{name}"));
                        macro_rules! req {
                            ($f:literal, $q:ty, $class:expr) => {{
                                let g = got(catch(|| pkg.get_function::<$q>($f)), |_f| Box::new(Never));
                                let what = J::obj().set("function", $f).set("requested", stringify!($q)).set("source", src.as_str());
                                self.judge(out, &mut m, g, false, &format!("script-record-named-{name}/{}", $class), what, "gate/nomapping", &[], 0);
                            }};
                        }
                        req!("mk", fn($sz) -> $t, "as-builtin-return");
                        req!("take", fn($t) -> $sz, "as-builtin-parameter");
                        req!("opt", fn(Option<$t>) -> $sz, "as-builtin-in-option");
                        req!("lst", fn(List<$t>) -> u64, "as-builtin-in-list");
                        req!("take", fn(u64) -> $sz, "as-u64");
                        req!("take", fn(Val<Trk>) -> $sz, "as-registered-type");
                        req!("take", fn(()) -> $sz, "as-unit");
                        req!("mk", fn($sz) -> (), "as-unit-return");
                        sources.push(J::from(src.as_str()));
                    }
                    // a tree that refuses the shadowing declaration altogether gives nothing to ask for
                    Ok(Err(_)) => out.tags.push(format!("gate:nomapping:shadow-leaf-not-declarable:{name}")),
                    Err(p) => out.viol(format!("gate:compile-{}@nomapping", panic_sig(&p)), format!("compiling a script that shadows `{name}` panicked: {p}"), J::obj().set("source", src.as_str())),
                }
            })*};
        }
        shadow_leaf! {
            "Asn" => inetnum::asn::Asn, i64; "IpAddr" => std::net::IpAddr, i64; "Prefix" => inetnum::addr::Prefix, i64; "String" => RotoString, i64;
            "bool" => bool, i64; "char" => char, i64; "u8" => u8, i64; "u16" => u16, i64; "u32" => u32, i64; "u64" => u64, i64;
            "i8" => i8, i64; "i16" => i16, i64; "i32" => i32, i64; "i64" => i64, u16; "f32" => f32, i64; "f64" => f64, i64;
        }
        // -- a script-declared generic named like a built-in type constructor -----------------
        let ctor_srcs: [(&str, &str); 4] = [
            ("List", "record List[T] { first: T, second: T }\n\nfn p(l: List[u32]) -> u32 {\n    l.first\n}\n\nfn o(l: List[u32]?) -> u32 {\n    match l {\n        Some(x) => x.second,\n        None => 0,\n    }\n}\n"),
            ("Option", "enum Option[T] { Some(T), None }\n\nfn p(l: Option[u32]) -> u32 {\n    match l {\n        Option.Some(x) => x,\n        Option.None => 0,\n    }\n}\n\nfn o(l: u32) -> Option[u32] {\n    Option.Some(l)\n}\n"),
            ("Result", "enum Result[T, E] { Ok(T), Err(E) }\n\nfn p(l: Result[u32, u32]) -> u32 {\n    match l {\n        Result.Ok(x) => x,\n        Result.Err(y) => y,\n    }\n}\n\nfn o(l: u32) -> Result[u32, u32] {\n    Result.Ok(l)\n}\n"),
            ("Verdict", "enum Verdict[A, R] { Accept(A), Reject(R) }\n\nfn p(l: Verdict[u32, u32]) -> u32 {\n    match l {\n        Verdict.Accept(x) => x,\n        Verdict.Reject(y) => y,\n    }\n}\n\nfn o(l: u32) -> Verdict[u32, u32] {\n    Verdict.Accept(l)\n}\n"),
        ];
        for (name, src) in ctor_srcs {
            hash.push_str(src);
            match catch(|| exec::compile(src, &self.rt)) {
                Ok(Ok(mut pkg)) => {
                    out.tags.push(format!("gate:nomapping:shadow-constructor:{name}"));
                    macro_rules! req {
                        ($f:literal, $q:ty, $class:expr) => {{
                            let g = got(catch(|| pkg.get_function::<$q>($f)), |_f| Box::new(Never));
                            let what = J::obj().set("function", $f).set("requested", stringify!($q)).set("source", src);
                            self.judge(out, &mut m, g, false, &format!("script-type-named-{name}/{}", $class), what, "gate/nomapping", &[], 0);
                        }};
                    }
                    match name {
                        "List" => {
                            req!("p", fn(List<u32>) -> u32, "as-builtin-parameter");
                            req!("o", fn(Option<List<u32>>) -> u32, "as-builtin-in-option");
                            req!("p", fn(u64) -> u32, "as-u64");
                        }
                        "Option" => {
                            req!("p", fn(Option<u32>) -> u32, "as-builtin-parameter");
                            req!("o", fn(u32) -> Option<u32>, "as-builtin-return");
                            req!("p", fn(u64) -> u32, "as-u64");
                        }
                        "Result" => {
                            req!("p", fn(Result<u32, u32>) -> u32, "as-builtin-parameter");
                            req!("o", fn(u32) -> Result<u32, u32>, "as-builtin-return");
                            req!("p", fn(Verdict<u32, u32>) -> u32, "as-other-builtin");
                        }
                        _ => {
                            req!("p", fn(Verdict<u32, u32>) -> u32, "as-builtin-parameter");
                            req!("o", fn(u32) -> Verdict<u32, u32>, "as-builtin-return");
                            req!("p", fn(Result<u32, u32>) -> u32, "as-other-builtin");
                        }
                    }
                    sources.push(J::from(src));
                }
                Ok(Err(_)) => out.tags.push(format!("gate:nomapping:shadow-constructor-not-declarable:{name}")),
                Err(p) => out.viol(format!("gate:compile-{}@nomapping", panic_sig(&p)), format!("compiling a script that shadows `{name}` panicked: {p}"), J::obj().set("source", src)),
            }
        }
        // -- the never type -----------------------------------------------------------------
        let never_src = "\
fn n_opt(x: Option[!]) -> bool {
    match x {
        Some(y) => true,
        None => false,
    }
}

fn n_res(x: u32) -> Result[u32, !] {
    Ok(x)
}

fn n_res_l(x: u32) -> Result[!, u32] {
    Err(x)
}

fn n_list(l: List[!]) -> u64 {
    l.len()
}

fn n_ver(x: u32) -> Verdict[u32, !] {
    Verdict.Accept(x)
}

fn n_deep(x: Option[List[!]]) -> bool {
    true
}

fn unit_control(x: Option[()]) -> Result[u32, ()] {
    Ok(1)
}
";
        hash.push_str(never_src);
        match catch(|| exec::compile(never_src, &self.rt)) {
            Ok(Ok(mut pkg)) => {
                out.tags.push("gate:nomapping:never".to_string());
                macro_rules! req {
                    ($f:literal, $q:ty, $ok:expr, $class:expr) => {{
                        let g = got(catch(|| pkg.get_function::<$q>($f)), |_f| Box::new(Never));
                        let what = J::obj().set("function", $f).set("requested", stringify!($q)).set("source", never_src);
                        self.judge(out, &mut m, g, $ok, &format!("never/{}", $class), what, "gate/nomapping", &[], 0);
                    }};
                }
                req!("unit_control", fn(Option<()>) -> Result<u32, ()>, true, "unit-control");
                req!("n_opt", fn(Option<()>) -> bool, false, "option-of-never-as-option-of-unit");
                req!("n_opt", fn(Option<u8>) -> bool, false, "option-of-never-as-option-of-u8");
                req!("n_opt", fn(()) -> bool, false, "option-of-never-as-unit");
                req!("n_res", fn(u32) -> Result<u32, ()>, false, "result-err-never-as-unit");
                req!("n_res", fn(u32) -> Result<u32, u8>, false, "result-err-never-as-u8");
                req!("n_res_l", fn(u32) -> Result<(), u32>, false, "result-ok-never-as-unit");
                req!("n_list", fn(List<()>) -> u64, false, "list-of-never-as-list-of-unit");
                req!("n_list", fn(List<u8>) -> u64, false, "list-of-never-as-list-of-u8");
                req!("n_ver", fn(u32) -> Verdict<u32, ()>, false, "verdict-reject-never-as-unit");
                req!("n_deep", fn(Option<List<()>>) -> bool, false, "never-at-depth-2-as-unit");
                sources.push(J::from(never_src));
            }
            Ok(Err(rep)) => out.tags.push(format!("gate:nomapping:never-not-declarable:{}", format!("{rep}").lines().next().unwrap_or("").chars().take(40).collect::<String>())),
            Err(p) => out.viol(format!("gate:compile-{}@nomapping", panic_sig(&p)), format!("compiling the never-type script panicked: {p}"), J::obj().set("source", never_src)),
        }
        out.hash = hash_str(&hash);
        self.flush(out, m);
        out.sample = Some(J::obj().set("kind", "nomapping").set("sources", J::Arr(sources)));
    }
}

fn g_text(e: &str) -> String {
    e.lines().filter(|l| !l.starts_with(" - ") && !l.starts_with("Hint")).collect::<Vec<_>>().join(" ")
}

fn name_class(n: &str) -> &'static str {
    if n.contains("generated") || n.starts_with("clone_") || n.starts_with("drop_") || n.starts_with("eq_") {
        "generated-helper"
    } else if n.contains("constant#") || n.contains("const#") {
        "constant-initialiser"
    } else if n.contains("test#") {
        "test"
    } else if n.starts_with("pkg") {
        "pkg-prefixed"
    } else {
        "unknown"
    }
}

impl Family for Gate {
    fn n_cases(&self, _args: &Args) -> u64 {
        (self.cat.len() + EXTRA.len()) as u64
    }

    fn run(&mut self, k: u64, rng: &mut Rng, args: &Args) -> CaseOut {
        let mut out = CaseOut { nontrivial: true, keep_sample: false, ..CaseOut::default() };
        // all values of the case derive from the case's own stream
        let mut args = args.clone();
        args.seed = rng.next();
        let args = &args;
        super::set_fault_host(args.opt("fault") == Some("host"));
        let k = k as usize;
        let n = self.cat.len();
        if k < n {
            self.row(k, &mut out, args);
            out.count("matrix_requests", 2 * n as u64);
        } else {
            match EXTRA.get(k - n) {
                Some(&"arity") => self.arity(&mut out, args),
                Some(&"transpose") => self.transpose(&mut out, args),
                Some(&"filtermap") => self.filtermap(&mut out, args),
                Some(&"names") => self.names(&mut out, args),
                Some(&"registered") => self.registered(&mut out, args),
                Some(&"fmlit-accept") => self.fmlit(LitSide::Accept, &mut out, args),
                Some(&"fmlit-reject") => self.fmlit(LitSide::Reject, &mut out, args),
                Some(&"fmlit-both") => self.fmlit(LitSide::Both, &mut out, args),
                Some(&"nomapping") => self.nomapping(&mut out, args),
                _ => out.skipped = Some("no-such-case".into()),
            }
            if let Some(e) = EXTRA.get(k - n) {
                out.tags.push(format!("gate:case:{e}"));
                out.keep_sample = true;
            }
        }
        out.tags.sort();
        out.tags.dedup();
        out
    }

    fn describe(&mut self, k: u64, _rng: &mut Rng, _args: &Args) -> Option<J> {
        let k = k as usize;
        Some(match self.cat.get(k) {
            Some(t) => J::obj().set("kind", "row").set("term", term_json(t)),
            None => J::obj().set("kind", *EXTRA.get(k - self.cat.len())?),
        })
    }
}
