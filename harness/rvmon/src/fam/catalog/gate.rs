//! `sig-gate` (C04): `Package::get_function::<F>(name)` is `Ok` exactly for the
//! mapped signature. Exhaustive over the catalogue (script term x requested term)
//! plus arity, transposition, filtermap, name and registered-type sub-spaces.
//!
//! Oracle: index equality of catalogue terms (they are pairwise structurally
//! distinct), arity equality, the filtermap rule, name existence. Every handle that
//! was expected and obtained is also called with catalogue values. A handle that
//! must not exist is never called (that would be undefined behaviour): it is
//! reported.

use roto::{Function, Library, NoCtx, Package, RotoString, Runtime, TypedFunc, Val, Verdict, List, location};

use super::{Desc, Got, Handle, Mon, Shape, Term, TermEntry, catalogue, classify, got, host_note, cur, term_json, value};
use crate::exec;
use crate::host::{Cp, Trk};
use crate::jsonw::J;
use crate::rng::Rng;
use super::catch;
use crate::work::{Args, CaseOut, Family, hash_str, panic_sig};

pub struct Gate {
    cat: Vec<TermEntry>,
    rt: Runtime<NoCtx>,
}

const EXTRA: [&str; 5] = ["arity", "transpose", "filtermap", "names", "registered"];

/// A handle that exists only to say "the request was accepted".
struct Never;
impl Handle for Never {
    fn call(&self, _: usize, _: &mut Mon, _: &str, _: &[&'static str]) {}
}

fn gate_lib() -> Library {
    let mut lib = Library::new();
    macro_rules! ar {
        ($n:literal, |$($a:ident),*|) => {
            lib.add(Function::new(concat!("ar", $n), "arity probe", vec![$(stringify!($a)),*], move |$($a: u32),*| -> u32 {
                let (seed, k) = cur();
                let got: Vec<u32> = vec![$($a),*];
                let want: Vec<u32> = (1..=got.len()).map(|j| value::<u32>(seed, k + j)).collect();
                host_note("ar", "arity", got == want, || (format!("{want:?}"), format!("{got:?}")));
                got.len() as u32
            }, location!()).expect("harness: ar registers").into());
        };
    }
    ar!(0, | |);
    ar!(1, |x1|);
    ar!(2, |x1, x2|);
    ar!(3, |x1, x2, x3|);
    ar!(4, |x1, x2, x3, x4|);
    ar!(5, |x1, x2, x3, x4, x5|);
    ar!(6, |x1, x2, x3, x4, x5, x6|);
    ar!(7, |x1, x2, x3, x4, x5, x6, x7|);
    lib.add(
        Function::new(
            "tr7",
            "seven distinct types",
            vec!["a", "b", "c", "d", "e", "f", "g"],
            move |a: u8, b: i16, c: u32, d: i64, e: f32, f: f64, g: bool| -> i64 {
                let (seed, k) = cur();
                let w = v7(seed, k);
                let ok = a == w.0 && b == w.1 && c == w.2 && d == w.3 && f32::same(&e, &w.4) && f64::same(&f, &w.5) && g == w.6;
                host_note("tr7", "transpose", ok, || (format!("{w:?}"), format!("{:?}", (a, b, c, d, e, f, g))));
                d
            },
            location!(),
        )
        .expect("harness: tr7 registers")
        .into(),
    );
    lib
}

type V7 = (u8, i16, u32, i64, f32, f64, bool);
fn v7(seed: u64, k: usize) -> V7 {
    (value(seed, k), value(seed, k + 1), value(seed, k + 2), value(seed, k + 3), value(seed, k + 4), value(seed, k + 5), value(seed, k + 6))
}

struct HAr(usize, Box<dyn Fn(&[u32]) -> u32>);
impl Handle for HAr {
    fn call(&self, k: usize, m: &mut Mon, route: &str, hostev: &[&'static str]) {
        m.begin(k);
        let args: Vec<u32> = (1..=self.0).map(|j| value::<u32>(m.seed, k + j)).collect();
        let r = (self.1)(&args);
        m.compare(route, k, &(self.0 as u32), &r);
        m.finish(route, k, hostev);
    }
}

struct HT7(TypedFunc<NoCtx, fn(u8, i16, u32, i64, f32, f64, bool) -> i64>);
impl Handle for HT7 {
    fn call(&self, k: usize, m: &mut Mon, route: &str, hostev: &[&'static str]) {
        m.begin(k);
        let w = v7(m.seed, k);
        let r = self.0.call(w.0, w.1, w.2, w.3, w.4, w.5, w.6);
        m.compare(route, k, &w.3, &r);
        m.finish(route, k, hostev);
    }
}

// --- filtermaps ---------------------------------------------------------------

/// payload of one side of a filtermap: never used, no payload, `x: i32`, `s: String`
#[derive(Clone, Copy, Debug, PartialEq, Eq)]
enum Pk {
    Unused,
    Unit,
    X,
    S,
}
impl Pk {
    fn expr(self) -> &'static str {
        match self {
            Pk::Unused | Pk::Unit => "",
            Pk::X => " x",
            Pk::S => " s",
        }
    }
    /// the type the filtermap rule assigns to this side
    fn desc(self) -> Desc {
        match self {
            Pk::Unused | Pk::Unit => Desc::Leaf("()"),
            Pk::X => Desc::Leaf("i32"),
            Pk::S => Desc::Leaf("String"),
        }
    }
    fn tag(self) -> &'static str {
        match self {
            Pk::Unused => "unused",
            Pk::Unit => "none",
            Pk::X => "i32",
            Pk::S => "String",
        }
    }
}

#[derive(Clone, Debug, PartialEq)]
enum Pv {
    Unit,
    X(i32),
    S(String),
}
trait Pay: Term {
    fn pay(&self) -> Pv;
}
impl Pay for () {
    fn pay(&self) -> Pv { Pv::Unit }
}
impl Pay for i32 {
    fn pay(&self) -> Pv { Pv::X(*self) }
}
impl Pay for RotoString {
    fn pay(&self) -> Pv { Pv::S(self.to_string()) }
}

struct HFm<A: Pay, R: Pay>(TypedFunc<NoCtx, fn(bool, i32, RotoString) -> Verdict<A, R>>, Pk, Pk);
impl<A: Pay, R: Pay> Handle for HFm<A, R> {
    fn call(&self, k: usize, m: &mut Mon, route: &str, hostev: &[&'static str]) {
        m.begin(k);
        let c = k % 2 == 0;
        let x: i32 = value(m.seed, k);
        let s: RotoString = value(m.seed, k);
        let pv = |p: Pk| match p {
            Pk::Unused | Pk::Unit => Pv::Unit,
            Pk::X => Pv::X(x),
            Pk::S => Pv::S(s.to_string()),
        };
        let accepts = self.2 == Pk::Unused || (self.1 != Pk::Unused && c);
        let want = if accepts { (true, pv(self.1)) } else { (false, pv(self.2)) };
        let r = self.0.call(c, x, s.clone());
        let got = match &r {
            Verdict::Accept(a) => (true, a.pay()),
            Verdict::Reject(r) => (false, r.pay()),
        };
        m.checks += 1;
        if want != got {
            m.fail(
                format!("boundary:{route}@{}", m.term),
                format!("{route}: filtermap returned {got:?}, expected {want:?}"),
                J::obj().set("route", route).set("k", k).set("seed", m.seed),
            );
        }
        drop(r);
        m.finish(route, k, hostev);
    }
}

// --- an unregistered type -----------------------------------------------------

#[derive(Clone, Debug, PartialEq)]
pub struct Unreg(pub u64);
mod other {
    /// same name as a registered type, different Rust type
    #[derive(Clone, Debug, PartialEq)]
    pub struct Trk(pub u64, pub u64, pub u64);
}

impl Gate {
    pub fn new(_args: &Args) -> Gate {
        let cat = catalogue();
        let mut rt = super::runtime(&cat);
        rt.add(gate_lib()).expect("harness: gate library registers");
        Gate { cat, rt }
    }

    fn compile(&self, src: &str, out: &mut CaseOut, what: &str) -> Option<Package<NoCtx>> {
        match catch(|| exec::compile(src, &self.rt)) {
            Ok(Ok(p)) => Some(p),
            Ok(Err(rep)) => {
                out.viol(format!("gate:compile-rejected@{what}"), format!("script of the {what} case was rejected: {rep}"), J::obj().set("source", src));
                None
            }
            Err(p) => {
                out.viol(format!("gate:compile-{}@{what}", panic_sig(&p)), format!("compiling the script of the {what} case panicked: {p}"), J::obj().set("source", src));
                None
            }
        }
    }

    /// One request with its expectation; calls the handle when it was expected.
    #[allow(clippy::too_many_arguments)]
    fn judge(&self, out: &mut CaseOut, m: &mut Mon, g: Got, expect_ok: bool, class: &str, what: J, route: &str, hostev: &[&'static str], nvals: usize) {
        out.evals += 1;
        match (&g, expect_ok) {
            (Got::Ok(h), true) => {
                for k in 0..nvals {
                    h.call(k, m, route, hostev);
                }
            }
            (Got::Refused(_), false) => {}
            (Got::Ok(_), false) => out.viol(
                format!("gate:accepted@{class}"),
                format!("get_function returned a callable handle for a mismatching request ({class})"),
                what,
            ),
            (Got::Refused(e), true) => out.viol(
                format!("gate:refused@{class}"),
                format!("get_function refused the mapped signature: {}", g_text(e)),
                what,
            ),
            (Got::Panic(p), _) => out.viol(
                format!("gate:panic@{class}"),
                format!("get_function panicked instead of returning an error: {p}"),
                what.set("panic", p.as_str()).set("panic_sig", panic_sig(p)),
            ),
        }
    }

    fn row(&self, s: usize, out: &mut CaseOut, args: &Args) {
        let st = &self.cat[s];
        let src = format!(
            "fn p_{s}(x: {alt}) {{\n    sink_{s}(x);\n}}\n\nfn r_{s}() -> {ty} {{\n    src_{s}()\n}}\n",
            alt = st.desc.roto_alt(),
            ty = st.roto
        );
        out.hash = hash_str(&src);
        out.tags.push(format!("gate:row:{}", st.roto));
        out.tags.push(st.layout_tag());
        let Some(mut pkg) = self.compile(&src, out, &format!("row/{}", st.roto)) else { return };
        let mut m = Mon::new(args.seed, &st.roto, st.desc.has_zst_val());
        let nvals = if args.thorough() { st.n_edges + 500 } else { st.n_edges + 16 };
        let mut rows = Vec::new();
        for t in &self.cat {
            let class = classify(&st.desc, &t.desc);
            let same = if args.opt("fault") == Some("oracle") { t.idx == (s + 1) % self.cat.len() } else { t.idx == s };
            for (shape, name, route, hostev) in
                [(Shape::P, format!("p_{s}"), "gate/rust->script->host", &["sink"][..]), (Shape::R, format!("r_{s}"), "gate/host->script->rust", &["src"][..])]
            {
                let g = t.try_get(&mut pkg, &name, shape).expect("P and R exist for every term");
                let kind = g.kind();
                if rows.len() < 6 && (same || rows.len() < 3) {
                    rows.push(J::obj().set("script", st.roto.as_str()).set("requested", t.rust).set("shape", format!("{shape:?}")).set("result", kind));
                }
                let what = J::obj()
                    .set("script_type", st.roto.as_str())
                    .set("requested", t.rust)
                    .set("shape", if shape == Shape::P { "fn(T) -> ()" } else { "fn() -> T" })
                    .set("function", name.as_str())
                    .set("source", src.as_str());
                self.judge(out, &mut m, g, same, &class, what, route, hostev, nvals);
            }
            out.tags.push(format!("gate:{}", super::classify_coarse(&st.desc, &t.desc)));
        }
        self.flush(out, m);
        out.sample = Some(J::obj().set("kind", "row").set("term", term_json(st)).set("source", src).set("requests", J::Arr(rows)));
    }

    fn flush(&self, out: &mut CaseOut, m: Mon) {
        out.evals += m.calls;
        out.events += m.checks;
        for f in m.fails {
            let n = m.more.get(&f.sig).copied().unwrap_or(0);
            out.viol(f.sig, if n > 0 { format!("{} (+{n} more)", f.msg) } else { f.msg }, f.detail);
        }
    }

    fn arity(&self, out: &mut CaseOut, args: &Args) {
        let mut src = String::new();
        for n in 0..=8usize {
            let ps: Vec<String> = (1..=n).map(|j| format!("x{j}: u32")).collect();
            let xs: Vec<String> = (1..=n).map(|j| format!("x{j}")).collect();
            if n <= 7 {
                src += &format!("fn a{n}({}) -> u32 {{\n    ar{n}({})\n}}\n\n", ps.join(", "), xs.join(", "));
            } else {
                src += &format!("fn a{n}({}) -> u32 {{\n    x8\n}}\n\n", ps.join(", "));
            }
        }
        out.hash = hash_str(&src);
        let Some(mut pkg) = self.compile(&src, out, "arity") else { return };
        let mut m = Mon::new(args.seed, "arity", false);
        macro_rules! req {
            ($name:expr, $n:literal, ($($t:ty),*), |$a:ident| ($($arg:expr),*)) => {
                got(catch(|| pkg.get_function::<fn($($t),*) -> u32>($name)), |f| Box::new(HAr($n, Box::new(move |$a: &[u32]| f.call($($arg),*)))))
            };
        }
        for n in 0..=8usize {
            let name = format!("a{n}");
            for mm in 0..=7usize {
                let g = match mm {
                    0 => req!(&name, 0, (), |_a| ()),
                    1 => req!(&name, 1, (u32), |a| (a[0])),
                    2 => req!(&name, 2, (u32, u32), |a| (a[0], a[1])),
                    3 => req!(&name, 3, (u32, u32, u32), |a| (a[0], a[1], a[2])),
                    4 => req!(&name, 4, (u32, u32, u32, u32), |a| (a[0], a[1], a[2], a[3])),
                    5 => req!(&name, 5, (u32, u32, u32, u32, u32), |a| (a[0], a[1], a[2], a[3], a[4])),
                    6 => req!(&name, 6, (u32, u32, u32, u32, u32, u32), |a| (a[0], a[1], a[2], a[3], a[4], a[5])),
                    _ => req!(&name, 7, (u32, u32, u32, u32, u32, u32, u32), |a| (a[0], a[1], a[2], a[3], a[4], a[5], a[6])),
                };
                let class = if n == mm { "same".to_string() } else { format!("arity-{}", if mm < n { "fewer" } else { "more" }) };
                out.tags.push(format!("gate:arity:{n}x{mm}"));
                let what = J::obj().set("script_arity", n).set("requested_arity", mm).set("source", src.as_str());
                self.judge(out, &mut m, g, n == mm, &class, what, "gate/arity", &["ar"], 16);
            }
        }
        self.flush(out, m);
        out.sample = Some(J::obj().set("kind", "arity").set("source", src));
    }

    fn transpose(&self, out: &mut CaseOut, args: &Args) {
        let src = "fn t7(a: u8, b: i16, c: u32, d: i64, e: f32, f: f64, g: bool) -> i64 {\n    tr7(a, b, c, d, e, f, g)\n}\n".to_string();
        out.hash = hash_str(&src);
        let Some(mut pkg) = self.compile(&src, out, "transpose") else { return };
        let mut m = Mon::new(args.seed, "t7", false);
        let g = got(catch(|| pkg.get_function::<fn(u8, i16, u32, i64, f32, f64, bool) -> i64>("t7")), |f| Box::new(HT7(f)));
        self.judge(out, &mut m, g, true, "same", J::obj().set("source", src.as_str()), "gate/transpose", &["tr7"], 32);
        macro_rules! req {
            (($($t:ty),*) -> $r:ty) => {
                got(catch(|| pkg.get_function::<fn($($t),*) -> $r>("t7")), |_f| Box::new(Never))
            };
        }
        let reqs: Vec<(&str, Got)> = vec![
            ("swap12", req!((i16, u8, u32, i64, f32, f64, bool) -> i64)),
            ("swap13", req!((u32, i16, u8, i64, f32, f64, bool) -> i64)),
            ("swap14", req!((i64, i16, u32, u8, f32, f64, bool) -> i64)),
            ("swap15", req!((f32, i16, u32, i64, u8, f64, bool) -> i64)),
            ("swap16", req!((f64, i16, u32, i64, f32, u8, bool) -> i64)),
            ("swap17", req!((bool, i16, u32, i64, f32, f64, u8) -> i64)),
            ("swap23", req!((u8, u32, i16, i64, f32, f64, bool) -> i64)),
            ("swap24", req!((u8, i64, u32, i16, f32, f64, bool) -> i64)),
            ("swap25", req!((u8, f32, u32, i64, i16, f64, bool) -> i64)),
            ("swap26", req!((u8, f64, u32, i64, f32, i16, bool) -> i64)),
            ("swap27", req!((u8, bool, u32, i64, f32, f64, i16) -> i64)),
            ("swap34", req!((u8, i16, i64, u32, f32, f64, bool) -> i64)),
            ("swap35", req!((u8, i16, f32, i64, u32, f64, bool) -> i64)),
            ("swap36", req!((u8, i16, f64, i64, f32, u32, bool) -> i64)),
            ("swap37", req!((u8, i16, bool, i64, f32, f64, u32) -> i64)),
            ("swap45", req!((u8, i16, u32, f32, i64, f64, bool) -> i64)),
            ("swap46", req!((u8, i16, u32, f64, f32, i64, bool) -> i64)),
            ("swap47", req!((u8, i16, u32, bool, f32, f64, i64) -> i64)),
            ("swap56", req!((u8, i16, u32, i64, f64, f32, bool) -> i64)),
            ("swap57", req!((u8, i16, u32, i64, bool, f64, f32) -> i64)),
            ("swap67", req!((u8, i16, u32, i64, f32, bool, f64) -> i64)),
            ("repl1", req!((u64, i16, u32, i64, f32, f64, bool) -> i64)),
            ("repl2", req!((u8, u64, u32, i64, f32, f64, bool) -> i64)),
            ("repl3", req!((u8, i16, u64, i64, f32, f64, bool) -> i64)),
            ("repl4", req!((u8, i16, u32, u64, f32, f64, bool) -> i64)),
            ("repl5", req!((u8, i16, u32, i64, u64, f64, bool) -> i64)),
            ("repl6", req!((u8, i16, u32, i64, f32, u64, bool) -> i64)),
            ("repl7", req!((u8, i16, u32, i64, f32, f64, u64) -> i64)),
            ("ret-u64", req!((u8, i16, u32, i64, f32, f64, bool) -> u64)),
            ("ret-i32", req!((u8, i16, u32, i64, f32, f64, bool) -> i32)),
            ("ret-unit", req!((u8, i16, u32, i64, f32, f64, bool) -> ())),
            ("ret-option", req!((u8, i16, u32, i64, f32, f64, bool) -> Option<i64>)),
        ];
        for (name, g) in reqs {
            out.tags.push(format!("gate:transpose:{name}"));
            let class = format!("position-{}", &name[..name.len().min(4)]);
            self.judge(out, &mut m, g, false, &class, J::obj().set("request", name).set("source", src.as_str()), "gate/transpose", &[], 0);
        }
        self.flush(out, m);
        out.sample = Some(J::obj().set("kind", "transpose").set("source", src));
    }

    fn filtermap(&self, out: &mut CaseOut, args: &Args) {
        let pks = [Pk::Unused, Pk::Unit, Pk::X, Pk::S];
        let mut specs = Vec::new();
        let mut src = String::new();
        for a in pks {
            for r in pks {
                if a == Pk::Unused && r == Pk::Unused {
                    continue;
                }
                let name = format!("fm_{}_{}", a.tag().to_lowercase(), r.tag().to_lowercase());
                let body = match (a, r) {
                    (_, Pk::Unused) => format!("    accept{}", a.expr()),
                    (Pk::Unused, _) => format!("    reject{}", r.expr()),
                    _ => format!("    if c {{\n        accept{}\n    }} else {{\n        reject{}\n    }}", a.expr(), r.expr()),
                };
                src += &format!("filtermap {name}(c: bool, x: i32, s: String) {{\n{body}\n}}\n\n");
                specs.push((name, a, r));
            }
        }
        out.hash = hash_str(&src);
        let Some(mut pkg) = self.compile(&src, out, "filtermap") else { return };
        let mut m = Mon::new(args.seed, "filtermap", false);
        let unit = || Desc::Leaf("()");
        let i = || Desc::Leaf("i32");
        let s = || Desc::Leaf("String");
        let v = |a: Desc, b: Desc| Desc::Verd(Box::new(a), Box::new(b));
        for (name, a, r) in &specs {
            let truth = v(a.desc(), r.desc());
            macro_rules! fm {
                ($A:ty, $R:ty) => {
                    got(catch(|| pkg.get_function::<fn(bool, i32, RotoString) -> Verdict<$A, $R>>(name)), |f| Box::new(HFm::<$A, $R>(f, *a, *r)))
                };
            }
            macro_rules! other {
                ($R:ty) => {
                    got(catch(|| pkg.get_function::<fn(bool, i32, RotoString) -> $R>(name)), |_f| Box::new(Never))
                };
            }
            let reqs: Vec<(Desc, Got)> = vec![
                (v(unit(), unit()), fm!((), ())),
                (v(unit(), i()), fm!((), i32)),
                (v(unit(), s()), fm!((), RotoString)),
                (v(i(), unit()), fm!(i32, ())),
                (v(i(), i()), fm!(i32, i32)),
                (v(i(), s()), fm!(i32, RotoString)),
                (v(s(), unit()), fm!(RotoString, ())),
                (v(s(), i()), fm!(RotoString, i32)),
                (v(s(), s()), fm!(RotoString, RotoString)),
                (unit(), other!(())),
                (i(), other!(i32)),
                (s(), other!(RotoString)),
                (Desc::Leaf("bool"), other!(bool)),
                (Desc::Opt(Box::new(i())), other!(Option<i32>)),
                (Desc::Opt(Box::new(unit())), other!(Option<()>)),
                (Desc::Res(Box::new(i()), Box::new(s())), other!(Result<i32, RotoString>)),
                (Desc::Res(Box::new(unit()), Box::new(unit())), other!(Result<(), ()>)),
                (Desc::Res(Box::new(i()), Box::new(unit())), other!(Result<i32, ()>)),
                (v(v(unit(), unit()), unit()), other!(Verdict<Verdict<(), ()>, ()>)),
                (v(unit(), v(unit(), unit())), other!(Verdict<(), Verdict<(), ()>>)),
                (v(Desc::Opt(Box::new(i())), unit()), other!(Verdict<Option<i32>, ()>)),
                (v(v(i(), s()), v(i(), s())), other!(Verdict<Verdict<i32, RotoString>, Verdict<i32, RotoString>>)),
                (v(Desc::Leaf("u32"), unit()), other!(Verdict<u32, ()>)),
                (v(Desc::Leaf("i64"), s()), other!(Verdict<i64, RotoString>)),
            ];
            for (d, g) in reqs {
                let class = format!("filtermap/{}", classify(&truth, &d));
                out.tags.push(format!("gate:filtermap:accept={},reject={}:{}", a.tag(), r.tag(), g.kind()));
                out.tags.push(format!("gate:filtermap/{}", super::classify_coarse(&truth, &d)));
                let what = J::obj().set("filtermap", name.as_str()).set("true_type", truth.roto()).set("requested", d.roto()).set("source", src.as_str());
                self.judge(out, &mut m, g, d == truth, &class, what, "gate/filtermap", &[], 24);
            }
        }
        self.flush(out, m);
        out.sample = Some(J::obj().set("kind", "filtermap").set("source", src));
    }

    fn names(&self, out: &mut CaseOut, args: &Args) {
        let src = "\
record Rec { a: String, b: u8 }

enum En { A(String), B(Rec), C }

const FOO: u32 = 5;

const BAR: String = \"bar\";

fn main() -> u32 {
    FOO
}

fn helper(x: Rec, y: Rec, e: En, l: List[Rec]) -> bool {
    let z = x;
    let w = e;
    let l2 = l;
    z == y
}

fn opt(x: String?) -> String? {
    let y = x;
    y
}

test t1 {
    accept
}

filtermap fm(x: u32) {
    accept x
}
";
        out.hash = hash_str(src);
        let Some(mut pkg) = self.compile(src, out, "names") else { return };
        let mut m = Mon::new(args.seed, "names", false);
        // the names the package knows, as listed by its own error message
        let listing = match pkg.get_function::<fn()>("\u{1}no such function") {
            Err(e) => format!("{e}"),
            Ok(_) => {
                out.viol("gate:accepted@unknown-name", "a function with an unknown name was returned", J::obj().set("source", src));
                String::new()
            }
        };
        let existing: Vec<String> = listing.lines().filter_map(|l| l.strip_prefix(" - ")).map(|s| s.to_string()).collect();
        out.count("package_names", existing.len() as u64);
        // user functions and the signature under which each is retrievable
        let user = ["main", "helper", "opt", "fm"];
        let mut names: Vec<String> = Vec::new();
        for e in &existing {
            names.push(e.clone());
            if let Some(s) = e.strip_prefix("pkg.") {
                names.push(s.to_string());
            }
            names.push(format!("pkg.{e}"));
            if let Some((_, last)) = e.rsplit_once("::") {
                names.push(last.to_string());
                names.push(format!("generated::{last}"));
                names.push(format!("::{last}"));
            }
        }
        for n in 0..48 {
            for h in ["clone", "drop", "eq"] {
                for pre in ["::generated::", "generated::", "pkg.::generated::", "pkg::generated::", "pkg.generated.", ""] {
                    names.push(format!("{pre}{h}_{n}"));
                }
            }
        }
        for s in [
            "", " ", "pkg", "pkg.", ".main", "main.", "Main", "MAIN", "main ", " main", "main\0", "pkg.main", "pkg.pkg.main", "pkg::main", "::main",
            "self.main", "super.main", "std.main", "lib.main", "gen.main", "gen.roto.main", "FOO", "BAR", "constant#FOO", "constant#BAR", "pkg.constant#FOO",
            "const#FOO", "test#t1", "pkg.test#t1", "t1", "test t1", "test#", "#", "test#main", "Rec", "En", "En.A", "Rec.a", "u32", "String.len", "List.new",
            "String.to_string", "Option.Some", "init", "$entry", "main$entry", "helper.z", "sink_0", "src_0", "ar0", "tr7", "mk", "Trk.tag",
        ] {
            names.push(s.to_string());
        }
        names.sort();
        names.dedup();
        out.count("names_tried", names.len() as u64);
        let mut tests_retrievable = 0;
        for name in &names {
            // the test runner itself retrieves `test#<name>` through get_function: the
            // only generated name that is a (documented) entry point of the package
            let is_test = name == "test#t1";
            macro_rules! ask {
                ($t:ty, $tag:literal) => {{
                    let g = got(catch(|| pkg.get_function::<$t>(name)), |_f| Box::new(Never));
                    out.evals += 1;
                    match &g {
                        Got::Ok(_) if user.contains(&name.as_str()) => {}
                        Got::Ok(_) if is_test => tests_retrievable += 1,
                        Got::Ok(_) => out.viol(
                            format!("gate:accepted@name/{}", name_class(name)),
                            format!("get_function::<{}>({name:?}) returned a handle although no such user function exists", $tag),
                            J::obj().set("name", name.as_str()).set("requested", $tag).set("source", src),
                        ),
                        Got::Refused(_) => {}
                        Got::Panic(p) => out.viol(
                            format!("gate:panic@name/{}", name_class(name)),
                            format!("get_function::<{}>({name:?}) panicked: {p}", $tag),
                            J::obj().set("name", name.as_str()).set("requested", $tag).set("source", src).set("panic", p.as_str()),
                        ),
                    }
                }};
            }
            ask!(fn(), "fn()");
            ask!(fn() -> u32, "fn() -> u32");
            ask!(fn() -> RotoString, "fn() -> RotoString");
            ask!(fn() -> Verdict<(), ()>, "fn() -> Verdict<(), ()>");
            ask!(fn(u64), "fn(u64)");
            ask!(fn(u64) -> u64, "fn(u64) -> u64");
            ask!(fn(u64, u64), "fn(u64, u64)");
            ask!(fn(u64, u64) -> bool, "fn(u64, u64) -> bool");
            ask!(fn(RotoString) -> RotoString, "fn(RotoString) -> RotoString");
            ask!(fn(u32) -> Verdict<u32, ()>, "fn(u32) -> Verdict<u32, ()>");
            out.tags.push(format!("gate:name:{}", name_class(name)));
        }
        if tests_retrievable > 0 {
            out.tags.push("gate:test-entry-retrievable".into());
        }
        // positive controls: the user functions are there under their names
        let g = got(catch(|| pkg.get_function::<fn() -> u32>("main")), |_f| Box::new(Never));
        self.judge(out, &mut m, g, true, "name/main", J::obj().set("source", src), "gate/names", &[], 0);
        let g = got(catch(|| pkg.get_function::<fn(Option<RotoString>) -> Option<RotoString>>("opt")), |_f| Box::new(Never));
        self.judge(out, &mut m, g, true, "name/opt", J::obj().set("source", src), "gate/names", &[], 0);
        let g = got(catch(|| pkg.get_function::<fn(u32) -> Verdict<u32, ()>>("fm")), |_f| Box::new(Never));
        self.judge(out, &mut m, g, true, "name/fm", J::obj().set("source", src), "gate/names", &[], 0);
        self.flush(out, m);
        out.sample = Some(J::obj().set("kind", "names").set("source", src).set("package_names", J::Arr(existing.iter().map(|s| J::from(s.as_str())).collect())));
    }

    fn registered(&self, out: &mut CaseOut, args: &Args) {
        let src = "\
fn pt(x: Trk) {
    out_trk(x);
}

fn rt() -> Trk {
    mk(7)
}

fn pc(x: Cp) {
    out_cp(x);
}

fn pu(x: u32) {
    out_u32(x);
}

fn po(x: Trk?) {
}

fn pl(x: List[Trk]) {
}

fn ro() -> Trk? {
    None
}
";
        out.hash = hash_str(src);
        let Some(mut pkg) = self.compile(src, out, "registered") else { return };
        let mut m = Mon::new(args.seed, "registered", false);
        macro_rules! req {
            ($name:literal, $t:ty, $ok:expr, $class:literal) => {{
                let g = got(catch(|| pkg.get_function::<$t>($name)), |_f| Box::new(Never));
                out.tags.push(format!("gate:registered:{}", $class));
                let what = J::obj().set("function", $name).set("requested", stringify!($t)).set("source", src);
                self.judge(out, &mut m, g, $ok, $class, what, "gate/registered", &[], 0);
            }};
        }
        // positive controls
        req!("pt", fn(Val<Trk>), true, "same");
        req!("rt", fn() -> Val<Trk>, true, "same");
        req!("pc", fn(Val<Cp>), true, "same");
        req!("pu", fn(u32), true, "same");
        req!("po", fn(Option<Val<Trk>>), true, "same");
        req!("pl", fn(List<Val<Trk>>), true, "same");
        req!("ro", fn() -> Option<Val<Trk>>, true, "same");
        // a type that was never registered
        req!("pt", fn(Val<Unreg>), false, "val-vs-unregistered");
        req!("pc", fn(Val<Unreg>), false, "val-vs-unregistered");
        req!("pu", fn(Val<Unreg>), false, "u32-vs-unregistered");
        req!("rt", fn() -> Val<Unreg>, false, "val-vs-unregistered");
        req!("po", fn(Option<Val<Unreg>>), false, "Option<val-vs-unregistered>");
        req!("pl", fn(List<Val<Unreg>>), false, "List<val-vs-unregistered>");
        req!("ro", fn() -> Option<Val<Unreg>>, false, "Option<val-vs-unregistered>");
        req!("rt", fn() -> Verdict<Val<Unreg>, Val<Unreg>>, false, "val-vs-Verdict");
        // same Rust type name, different type
        req!("pt", fn(Val<other::Trk>), false, "val-vs-unregistered-namesake");
        req!("rt", fn() -> Val<other::Trk>, false, "val-vs-unregistered-namesake");
        // a registered type requested as a different registered type
        req!("pt", fn(Val<Cp>), false, "val-vs-val");
        req!("pc", fn(Val<Trk>), false, "val-vs-val");
        req!("rt", fn() -> Val<Cp>, false, "val-vs-val");
        req!("po", fn(Option<Val<Cp>>), false, "Option<val-vs-val>");
        req!("pl", fn(List<Val<Cp>>), false, "List<val-vs-val>");
        // a primitive wrapped in Val, and a registered type unwrapped to a primitive of its size
        req!("pu", fn(Val<u32>), false, "u32-vs-val-of-primitive");
        req!("pc", fn(u32), false, "val-vs-u32");
        req!("pc", fn(Val<u32>), false, "val-vs-val-of-primitive");
        req!("pt", fn(Val<Val<Trk>>), false, "val-vs-val-of-val");
        self.flush(out, m);
        out.sample = Some(J::obj().set("kind", "registered").set("source", src));
    }
}

fn g_text(e: &str) -> String {
    e.lines().filter(|l| !l.starts_with(" - ") && !l.starts_with("Hint")).collect::<Vec<_>>().join(" ")
}

fn name_class(n: &str) -> &'static str {
    if n.contains("generated") || n.starts_with("clone_") || n.starts_with("drop_") || n.starts_with("eq_") {
        "generated-helper"
    } else if n.contains("constant#") || n.contains("const#") {
        "constant-initialiser"
    } else if n.contains("test#") {
        "test"
    } else if n.starts_with("pkg") {
        "pkg-prefixed"
    } else {
        "unknown"
    }
}

impl Family for Gate {
    fn n_cases(&self, _args: &Args) -> u64 {
        (self.cat.len() + EXTRA.len()) as u64
    }

    fn run(&mut self, k: u64, rng: &mut Rng, args: &Args) -> CaseOut {
        let mut out = CaseOut { nontrivial: true, keep_sample: false, ..CaseOut::default() };
        // all values of the case derive from the case's own stream
        let mut args = args.clone();
        args.seed = rng.next();
        let args = &args;
        super::set_fault_host(args.opt("fault") == Some("host"));
        let k = k as usize;
        let n = self.cat.len();
        if k < n {
            self.row(k, &mut out, args);
            out.count("matrix_requests", 2 * n as u64);
        } else {
            match EXTRA.get(k - n) {
                Some(&"arity") => self.arity(&mut out, args),
                Some(&"transpose") => self.transpose(&mut out, args),
                Some(&"filtermap") => self.filtermap(&mut out, args),
                Some(&"names") => self.names(&mut out, args),
                Some(&"registered") => self.registered(&mut out, args),
                _ => out.skipped = Some("no-such-case".into()),
            }
            if let Some(e) = EXTRA.get(k - n) {
                out.tags.push(format!("gate:case:{e}"));
                out.keep_sample = true;
            }
        }
        out.tags.sort();
        out.tags.dedup();
        out
    }

    fn describe(&mut self, k: u64, _rng: &mut Rng, _args: &Args) -> Option<J> {
        let k = k as usize;
        Some(match self.cat.get(k) {
            Some(t) => J::obj().set("kind", "row").set("term", term_json(t)),
            None => J::obj().set("kind", *EXTRA.get(k - self.cat.len())?),
        })
    }
}
