//! `boundary` (C05), forwarding class: the script hands a scalar it did **not**
//! receive in a register straight from Rust on to a registered function or method.
//!
//! For every scalar leaf type S (bool, u8, i8, u16, i16, u32, i32, u64, i64, char,
//! f32, f64) and every value (edge values first, then random ones) the script takes
//! the value from one *source*
//!
//! * `direct`            — parameter, as a control
//! * `option-payload`, `result-payload`, `verdict-payload` — `match` on an argument
//! * `record-built`, `record-received` — field of a record (built in place / passed
//!   to another script function)
//! * `list-get`          — `l.get(i)` of a list argument
//! * `host-result`       — result of another registered function
//! * `unary`, `binary:<op>` — arithmetic on its arguments (wrapping for integers,
//!   IEEE for floats, logic for bool)
//! * `context-field`, `registered-constant`
//! * `method-arg`        — argument of a registered method
//!
//! and passes it at position p = 1..7 of the registered function `fw<p>_<S>`, whose
//! other six parameters are (u8, f64, u64, f32, bool, i16) in this order. The
//! registered functions are ordinary Rust closures behind roto's `extern "C"`
//! trampolines; they are reached through a function pointer from generated code, so
//! nothing of them can be folded into the caller. Inside the callee every parameter
//! is **widened to 64 bits** (`as i64` / `as u64` / `to_bits`) and pushed into a
//! thread-local log: an optimised callee relies on the ABI's promise that a narrow
//! integer argument arrives zero-/sign-extended, so a missing extension on the
//! caller's side shows up as a wrong widened value (a 16-bit compare would not see
//! it).
//!
//! Oracle: the log must contain exactly the calls the script text makes, with the
//! widened values of what Rust sent (identity), or of the model's arithmetic
//! (`wrapping_add/sub/mul`, IEEE, boolean logic).

use roto::{Context, Ctx, FileTree, Function, Impl, Library, List, NoCtx, Package, Runtime, TypedFunc, Val, Verdict, location};
use std::cell::RefCell;

use super::{Fill, Mon, Term, catch, fill, pos_params, value};
use crate::exec;
use crate::host::{self, Cp};
use crate::jsonw::J;
use crate::work::{Args, CaseOut, hash_str, panic_sig};

// ---------------------------------------------------------------------------
// The callee's view
// ---------------------------------------------------------------------------

/// id of the host function in a log entry: 1..=7 `fw<p>`, 8 method, 9 `fid`
type Entry = [u64; 8];

thread_local! {
    static LOG: RefCell<Vec<Entry>> = const { RefCell::new(Vec::new()) };
}

#[inline(never)]
fn log_push(e: Entry) {
    LOG.with(|l| l.borrow_mut().push(e));
}

fn log_take() -> Vec<Entry> {
    LOG.with(|l| std::mem::take(&mut *l.borrow_mut()))
}

/// Widening of a parameter inside the callee.
pub trait Wide: Copy {
    fn wide(self) -> u64;
}
macro_rules! wide_signed {
    ($($t:ty),*) => {$( impl Wide for $t { #[inline(always)] fn wide(self) -> u64 { self as i64 as u64 } } )*};
}
macro_rules! wide_unsigned {
    ($($t:ty),*) => {$( impl Wide for $t { #[inline(always)] fn wide(self) -> u64 { self as u64 } } )*};
}
wide_signed!(i8, i16, i32, i64);
wide_unsigned!(u8, u16, u32, u64, bool, char);
impl Wide for f32 {
    #[inline(always)]
    fn wide(self) -> u64 {
        if self.is_nan() { 0x7fc0_0000 } else { self.to_bits() as u64 }
    }
}
impl Wide for f64 {
    #[inline(always)]
    fn wide(self) -> u64 {
        if self.is_nan() { 0x7ff8_0000_0000_0000 } else { self.to_bits() }
    }
}

/// A scalar leaf type of the forwarding class.
pub trait Scalar: Term + Wide + Send + Sync {
    const NAME: &'static str;
    /// `(tag, operator)` of the binary operations whose result has type `Self`
    const BIN: &'static [(&'static str, &'static str)];
    /// `(tag, script expression over x)` of the unary operation
    const UN: Option<(&'static str, &'static str)>;
    fn bin(op: usize, a: Self, b: Self) -> Self;
    fn un(a: Self) -> Self;
    /// the mathematically exact result does not fit (integers only)
    fn bin_wraps(_op: usize, _a: Self, _b: Self) -> bool {
        false
    }
    fn is_negative(self) -> bool {
        false
    }
    fn set(self, c: &mut FwCtx);
    const FIELD: &'static str;
}

const INT_BIN: &[(&str, &str)] = &[("add", "+"), ("sub", "-"), ("mul", "*")];

macro_rules! scalar_int {
    ($($t:ident, $f:ident, $signed:expr);*) => {$(
        impl Scalar for $t {
            const NAME: &'static str = stringify!($t);
            const BIN: &'static [(&'static str, &'static str)] = INT_BIN;
            const UN: Option<(&'static str, &'static str)> = Some(("zero-minus", "0 - x"));
            fn bin(op: usize, a: $t, b: $t) -> $t {
                match op {
                    0 => a.wrapping_add(b),
                    1 => a.wrapping_sub(b),
                    _ => a.wrapping_mul(b),
                }
            }
            fn un(a: $t) -> $t { (0 as $t).wrapping_sub(a) }
            fn bin_wraps(op: usize, a: $t, b: $t) -> bool {
                match op {
                    0 => a.checked_add(b).is_none(),
                    1 => a.checked_sub(b).is_none(),
                    _ => a.checked_mul(b).is_none(),
                }
            }
            #[allow(unused_comparisons)]
            fn is_negative(self) -> bool { $signed && (self as i128) < 0 }
            fn set(self, c: &mut FwCtx) { c.$f = self; }
            const FIELD: &'static str = stringify!($f);
        }
    )*};
}
scalar_int!(u8, c_u8, false; i8, c_i8, true; u16, c_u16, false; i16, c_i16, true; u32, c_u32, false; i32, c_i32, true; u64, c_u64, false; i64, c_i64, true);

macro_rules! scalar_float {
    ($($t:ident, $f:ident);*) => {$(
        impl Scalar for $t {
            const NAME: &'static str = stringify!($t);
            const BIN: &'static [(&'static str, &'static str)] = INT_BIN;
            const UN: Option<(&'static str, &'static str)> = Some(("zero-minus", "0.0 - x"));
            fn bin(op: usize, a: $t, b: $t) -> $t {
                match op {
                    0 => a + b,
                    1 => a - b,
                    _ => a * b,
                }
            }
            fn un(a: $t) -> $t { 0.0 - a }
            fn set(self, c: &mut FwCtx) { c.$f = self; }
            const FIELD: &'static str = stringify!($f);
        }
    )*};
}
scalar_float!(f32, c_f32; f64, c_f64);

impl Scalar for bool {
    const NAME: &'static str = "bool";
    const BIN: &'static [(&'static str, &'static str)] = &[("and", "&&"), ("or", "||"), ("eq", "=="), ("ne", "!=")];
    const UN: Option<(&'static str, &'static str)> = Some(("not", "!x"));
    fn bin(op: usize, a: bool, b: bool) -> bool {
        match op {
            0 => a && b,
            1 => a || b,
            2 => a == b,
            _ => a != b,
        }
    }
    fn un(a: bool) -> bool { !a }
    fn set(self, c: &mut FwCtx) { c.c_bool = self; }
    const FIELD: &'static str = "c_bool";
}

impl Scalar for char {
    const NAME: &'static str = "char";
    const BIN: &'static [(&'static str, &'static str)] = &[];
    const UN: Option<(&'static str, &'static str)> = None;
    fn bin(_: usize, a: char, _: char) -> char { a }
    fn un(a: char) -> char { a }
    fn set(self, c: &mut FwCtx) { c.c_char = self; }
    const FIELD: &'static str = "c_char";
}

/// One field per scalar type; neighbours of different width on both sides.
#[derive(Clone, Context)]
#[repr(C)]
pub struct FwCtx {
    pub c_u8: u8,
    pub c_i16: i16,
    pub c_bool: bool,
    pub c_i8: i8,
    pub c_u32: u32,
    pub c_u16: u16,
    pub c_f32: f32,
    pub c_i64: i64,
    pub c_char: char,
    pub c_i32: i32,
    pub c_f64: f64,
    pub c_u64: u64,
}

impl FwCtx {
    fn new() -> FwCtx {
        FwCtx { c_u8: 0x5a, c_i16: 0x5a5a, c_bool: true, c_i8: 0x5a, c_u32: 0x5a5a_5a5a, c_u16: 0x5a5a, c_f32: 1.5, c_i64: 0x5a5a_5a5a_5a5a_5a5a, c_char: 'Z', c_i32: 0x5a5a_5a5a, c_f64: 2.5, c_u64: 0x5a5a_5a5a_5a5a_5a5a }
    }
}

// ---------------------------------------------------------------------------
// Registered functions
// ---------------------------------------------------------------------------

macro_rules! add_fn {
    ($lib:expr, $n:expr, $params:expr, $f:expr) => {
        $lib.add(Function::new($n, "forwarding probe", $params, $f, location!()).expect("harness: forwarding probe registers").into())
    };
}

macro_rules! fw {
    ($lib:expr, $S:ty, $p:literal, |$($a:ident : $t:ty),*|) => {
        add_fn!($lib, format!("fw{}_{}", $p, <$S as Scalar>::NAME), vec!["a1", "a2", "a3", "a4", "a5", "a6", "a7"], move |$($a: $t),*| {
            log_push([$p, $($a.wide()),*]);
        });
    };
}

fn register<S: Scalar>(lib: &mut Library) {
    fw!(lib, S, 1, |a1: S, a2: u8, a3: f64, a4: u64, a5: f32, a6: bool, a7: i16|);
    fw!(lib, S, 2, |a1: u8, a2: S, a3: f64, a4: u64, a5: f32, a6: bool, a7: i16|);
    fw!(lib, S, 3, |a1: u8, a2: f64, a3: S, a4: u64, a5: f32, a6: bool, a7: i16|);
    fw!(lib, S, 4, |a1: u8, a2: f64, a3: u64, a4: S, a5: f32, a6: bool, a7: i16|);
    fw!(lib, S, 5, |a1: u8, a2: f64, a3: u64, a4: f32, a5: S, a6: bool, a7: i16|);
    fw!(lib, S, 6, |a1: u8, a2: f64, a3: u64, a4: f32, a5: bool, a6: S, a7: i16|);
    fw!(lib, S, 7, |a1: u8, a2: f64, a3: u64, a4: f32, a5: bool, a6: i16, a7: S|);
    // the value comes back: the script gets it as the result of a registered function
    add_fn!(lib, format!("fid_{}", S::NAME), vec!["x"], move |x: S| -> S {
        log_push([9, x.wide(), 0, 0, 0, 0, 0, 0]);
        x
    });
}

fn register_method<S: Scalar>(im: &mut Impl) {
    im.add(
        Function::new(
            format!("fwm_{}", S::NAME),
            "forwarding probe (method)",
            vec!["self", "a", "v", "b"],
            move |me: Val<Cp>, a: u8, v: S, b: i16| {
                log_push([8, me.0.0 as u64, a.wide(), v.wide(), b.wide(), 0, 0, 0]);
            },
            location!(),
        )
        .expect("harness: forwarding method registers"),
    );
}

macro_rules! all_scalars {
    ($m:ident) => {
        $m!(bool, u8, i8, u16, i16, u32, i32, u64, i64, char, f32, f64)
    };
}

/// The registered functions and methods of the forwarding class.
pub fn lib() -> Library {
    let mut lib = Library::new();
    let mut im = Impl::new::<Val<Cp>>(location!());
    macro_rules! reg {
        ($($t:ty),*) => {$( register::<$t>(&mut lib); register_method::<$t>(&mut im); )*};
    }
    all_scalars!(reg);
    lib.add(im.into());
    lib
}

// ---------------------------------------------------------------------------
// Scripts
// ---------------------------------------------------------------------------

const FILL_PARAMS: &str = "f1: u8, f2: f64, f3: u64, f4: f32, f5: bool, f6: i16";
const FILL_ARGS: [&str; 6] = ["f1", "f2", "f3", "f4", "f5", "f6"];

/// `fw<p>_<S>(..)` with `val` at position p and the six fillers around it
fn call(s: &str, p: usize, val: &str, fillers: [&str; 6]) -> String {
    let mut v: Vec<&str> = fillers.to_vec();
    v.insert(p - 1, val);
    format!("fw{p}_{s}({})", v.join(", "))
}

/// the literal the binary routes pass as the i16 filler
const LIT_I16: i16 = -12345;

fn script<S: Scalar>() -> String {
    let s = S::NAME;
    let mut src = format!("record Rec {{ a: u8, x: {s}, b: u64 }}\n\n");
    for p in 1..=7usize {
        debug_assert_eq!(pos_params(p, s).len(), 7);
        let c = |val: &str| call(s, p, val, FILL_ARGS);
        src += &format!("fn direct{p}(x: {s}, {FILL_PARAMS}) {{\n    {};\n}}\n\n", c("x"));
        src += &format!("fn opt{p}(o: Option[{s}], {FILL_PARAMS}) {{\n    match o {{\n        Some(v) => {},\n        None => {{}},\n    }}\n}}\n\n", c("v"));
        src += &format!("fn res{p}(o: Result[{s}, {s}], {FILL_PARAMS}) {{\n    match o {{\n        Ok(v) => {},\n        Err(w) => {},\n    }}\n}}\n\n", c("v"), c("w"));
        src += &format!("fn ver{p}(o: Verdict[{s}, {s}], {FILL_PARAMS}) {{\n    match o {{\n        Accept(v) => {},\n        Reject(w) => {},\n    }}\n}}\n\n", c("v"), c("w"));
        src += &format!(
            "fn recnew{p}(x: {s}, {FILL_PARAMS}) {{\n    let r = Rec {{ a: f1, x: x, b: f3 }};\n    {};\n}}\n\n",
            call(s, p, "r.x", ["r.a", "f2", "r.b", "f4", "f5", "f6"])
        );
        src += &format!(
            "fn rectake{p}(r: Rec, f2: f64, f4: f32, f5: bool, f6: i16) {{\n    {};\n}}\n\nfn recpass{p}(x: {s}, {FILL_PARAMS}) {{\n    rectake{p}(Rec {{ a: f1, x: x, b: f3 }}, f2, f4, f5, f6);\n}}\n\n",
            call(s, p, "r.x", ["r.a", "f2", "r.b", "f4", "f5", "f6"])
        );
        src += &format!("fn lget{p}(l: List[{s}], {FILL_PARAMS}) {{\n    match l.get(f3) {{\n        Some(v) => {},\n        None => {{}},\n    }}\n}}\n\n", c("v"));
        src += &format!("fn hres{p}(x: {s}, {FILL_PARAMS}) {{\n    {};\n}}\n\n", c(&format!("fid_{s}(x)")));
        if let Some((_, e)) = S::UN {
            src += &format!("fn un{p}(x: {s}, {FILL_PARAMS}) {{\n    {};\n}}\n\n", c(&format!("({e})")));
        }
        for (tag, op) in S::BIN {
            src += &format!(
                "fn bin_{tag}{p}(a: {s}, b: {s}, f1: u8, f2: f64, f3: u64, f4: f32, f5: bool) {{\n    {};\n}}\n\n",
                call(s, p, &format!("a {op} b"), ["f1", "f2", "f3", "f4", "f5", &format!("{LIT_I16}")])
            );
        }
    }
    src += &format!("fn meth(o: Option[{s}], {FILL_PARAMS}) {{\n    match o {{\n        Some(v) => mkcp(7).fwm_{s}(f1, v, f6),\n        None => {{}},\n    }}\n}}\n");
    src
}

fn ctx_script<S: Scalar>() -> String {
    (1..=7usize).map(|p| format!("fn ctx{p}({FILL_PARAMS}) {{\n    {};\n}}\n", call(S::NAME, p, S::FIELD, FILL_ARGS))).collect::<Vec<_>>().join("\n")
}

/// one function per constant, all seven positions in a row
fn const_script<S: Scalar>(n: usize) -> String {
    (0..n)
        .map(|j| {
            let calls: Vec<String> = (1..=7usize).map(|p| format!("    {};\n", call(S::NAME, p, &format!("FK_{j}"), FILL_ARGS))).collect();
            format!("fn con{j}({FILL_PARAMS}) {{\n{}}}\n", calls.concat())
        })
        .collect::<Vec<_>>()
        .join("\n")
}

// ---------------------------------------------------------------------------
// One case: one scalar type
// ---------------------------------------------------------------------------

pub struct Env<'a> {
    /// harness runtime + catalogue functions + `lib()`
    pub rt: &'a Runtime<NoCtx>,
}

type F6<H> = TypedFunc<NoCtx, fn(H, u8, f64, u64, f32, bool, i16)>;
type FBin<S> = TypedFunc<NoCtx, fn(S, S, u8, f64, u64, f32, bool)>;
type FNone = TypedFunc<NoCtx, fn(u8, f64, u64, f32, bool, i16)>;
type FCtx = TypedFunc<Ctx<FwCtx>, fn(u8, f64, u64, f32, bool, i16)>;

struct Run<'o, S: Scalar> {
    out: &'o mut CaseOut,
    m: Mon,
    _s: std::marker::PhantomData<S>,
}

fn expect_entry(p: usize, v: u64, fl: &Fill) -> Entry {
    let mut w = vec![fl.0.wide(), fl.1.wide(), fl.2.wide(), fl.3.wide(), fl.4.wide(), fl.5.wide()];
    w.insert(p - 1, v);
    [p as u64, w[0], w[1], w[2], w[3], w[4], w[5], w[6]]
}

impl<S: Scalar> Run<'_, S> {
    fn got<T, E: std::fmt::Display>(&mut self, g: Result<Result<T, E>, String>, name: &str, source: &str, src: &str) -> Option<T> {
        match g {
            Ok(Ok(f)) => Some(f),
            Ok(Err(e)) => {
                self.out.viol(
                    format!("boundary:forward/{source}/refused@{}", S::NAME),
                    format!("forward/{source}: get_function({name}) refused the mapped signature: {}", format!("{e}").lines().next().unwrap_or("")),
                    J::obj().set("source", src).set("function", name),
                );
                None
            }
            Err(p) => {
                self.out.viol(
                    format!("boundary:forward/{source}/get_function-{}@{}", panic_sig(&p), S::NAME),
                    format!("forward/{source}: get_function({name}) panicked: {p}"),
                    J::obj().set("source", src).set("function", name),
                );
                None
            }
        }
    }

    fn get<F: roto::RotoFunc>(&mut self, pkg: &mut Package<NoCtx>, name: &str, source: &str, src: &str) -> Option<TypedFunc<NoCtx, F>> {
        let g = catch(|| pkg.get_function::<F>(name));
        self.got(g, name, source, src)
    }

    fn get_ctx<F: roto::RotoFunc>(&mut self, pkg: &mut Package<Ctx<FwCtx>>, name: &str, source: &str, src: &str) -> Option<TypedFunc<Ctx<FwCtx>, F>> {
        let g = catch(|| pkg.get_function::<F>(name));
        self.got(g, name, source, src)
    }

    /// Compare the callee's log with the calls the script text makes.
    /// `slot[i]`: index of the forwarded value inside entry i (its neighbours are fillers).
    fn check(&mut self, source: &str, func: &str, k: usize, want: &[Entry], slot: &[usize], sent: &dyn Fn() -> String) {
        let got = log_take();
        self.m.calls += 1;
        self.m.checks += want.len() as u64 * 7;
        if got == want {
            return;
        }
        let mseed = self.m.seed;
        let detail = |what: &str| {
            J::obj()
                .set("route", format!("forward/{source}"))
                .set("function", func)
                .set("type", S::NAME)
                .set("k", k)
                .set("sent", sent())
                .set("what", what)
                .set("expected_widened", format!("{want:x?}"))
                .set("received_widened", format!("{got:x?}"))
                .set("seed", mseed)
        };
        if got.len() != want.len() || got.iter().zip(want).any(|(g, w)| g[0] != w[0]) {
            self.m.fail(
                format!("boundary:forward/{source}/host-calls@{}", S::NAME),
                format!("forward/{source}: {func} made the host calls {:?}, the script text makes {:?} ({})", got.iter().map(|e| e[0]).collect::<Vec<_>>(), want.iter().map(|e| e[0]).collect::<Vec<_>>(), sent()),
                detail("host-calls"),
            );
            return;
        }
        for (i, (g, w)) in got.iter().zip(want).enumerate() {
            if g == w {
                continue;
            }
            let sl = slot.get(i).copied().unwrap_or(0);
            if g[sl] != w[sl] {
                self.m.fail(
                    format!("boundary:forward/{source}@{}", S::NAME),
                    format!(
                        "forward/{source}: {func}: the registered function (id {}) saw {:#x} (its parameter {} widened to 64 bits) where {:#x} was expected ({})",
                        g[0],
                        g[sl],
                        sl,
                        w[sl],
                        sent()
                    ),
                    detail("forwarded-value"),
                );
            } else {
                let j = (1..8).find(|j| g[*j] != w[*j]).unwrap_or(0);
                // type of the neighbour: the fillers are (u8, f64, u64, f32, bool, i16) around the slot
                let fillers = ["u8", "f64", "u64", "f32", "bool", "i16"];
                let nb = if g[0] == 8 { ["", "Cp", "u8", "", "i16"].get(j).copied().unwrap_or("") } else { fillers.get(if j > sl { j.wrapping_sub(2) } else { j.wrapping_sub(1) }).copied().unwrap_or("") };
                self.m.fail(
                    format!("boundary:forward/{source}/neighbour:{nb}@{}", S::NAME),
                    format!("forward/{source}: {func}: parameter {j} of the registered function (id {}) arrived as {:#x} (widened), expected {:#x} ({})", g[0], g[j], w[j], sent()),
                    detail("neighbour"),
                );
            }
        }
    }
}

/// number of registered constants per type
const N_CONST: usize = 16;

pub fn run<S: Scalar>(env: &Env, out: &mut CaseOut, args: &Args) {
    let s = S::NAME;
    let src = script::<S>();
    out.hash = hash_str(&src);
    out.tags.push("route:forward".into());
    out.tags.push(format!("fwd:type:{s}"));
    let nvals = match args.opt("values").and_then(|v| v.parse::<usize>().ok()) {
        Some(n) => n.min(600),
        None if args.thorough() => 400,
        None => S::n_edges() + 28,
    };
    let seed = args.seed;
    let mut r = Run::<S> { out, m: Mon::new(seed, s, false), _s: std::marker::PhantomData };
    let show = |v: &S| S::show(v);

    // --- routes on the plain runtime -------------------------------------------
    'plain: {
        let mut pkg = match catch(|| exec::compile(&src, env.rt)) {
            Ok(Ok(p)) => p,
            Ok(Err(rep)) => {
                r.out.viol(format!("boundary:forward/rejected@{s}"), format!("a script that only forwards values of type {s} was rejected: {rep}"), J::obj().set("source", src.as_str()));
                break 'plain;
            }
            Err(p) => {
                r.out.viol(format!("boundary:forward/compiler-{}@{s}", panic_sig(&p)), format!("compiling a script that only forwards values of type {s} panicked: {p}"), J::obj().set("source", src.as_str()));
                break 'plain;
            }
        };
        log_take();
        for p in 1..=7usize {
            r.out.tags.push(format!("fwd:position:{p}"));
            let slot = [p];
            macro_rules! getf {
                ($t:ty, $name:expr, $source:expr) => {{
                    r.out.tags.push(format!("fwd:source:{}", $source));
                    r.get::<$t>(&mut pkg, &$name, $source, &src)
                }};
            }
            type D<S> = fn(S, u8, f64, u64, f32, bool, i16);
            // sources that take the scalar itself
            let mut plain: Vec<(&str, String, F6<S>, u8)> = Vec::new();
            for (source, name, kind) in [("direct", "direct", 0u8), ("record-built", "recnew", 0), ("record-received", "recpass", 0), ("host-result", "hres", 1), ("unary", "un", 2)] {
                if kind == 2 && S::UN.is_none() {
                    continue;
                }
                let source_tag = if kind == 2 { format!("unary:{}", S::UN.map(|u| u.0).unwrap_or("")) } else { source.to_string() };
                let fname = format!("{name}{p}");
                if let Some(f) = getf!(D<S>, fname, source_tag.as_str()) {
                    plain.push((source, fname, f, kind));
                }
            }
            let opt = getf!(fn(Option<S>, u8, f64, u64, f32, bool, i16), format!("opt{p}"), "option-payload");
            let res = getf!(fn(Result<S, S>, u8, f64, u64, f32, bool, i16), format!("res{p}"), "result-payload");
            let ver = getf!(fn(Verdict<S, S>, u8, f64, u64, f32, bool, i16), format!("ver{p}"), "verdict-payload");
            let lget = getf!(fn(List<S>, u8, f64, u64, f32, bool, i16), format!("lget{p}"), "list-get");
            let mut bins: Vec<(usize, String, String, FBin<S>)> = Vec::new();
            for (op, (tag, _)) in S::BIN.iter().enumerate() {
                let source = format!("binary:{tag}");
                let fname = format!("bin_{tag}{p}");
                if let Some(f) = getf!(fn(S, S, u8, f64, u64, f32, bool), fname, source.as_str()) {
                    bins.push((op, source, fname, f));
                }
            }
            for k in 0..nvals {
                let v: S = value(seed, k);
                let fl = fill(seed, k);
                let sent = || format!("value #{k} = {}, fillers {fl:?}", show(&v));
                if v.is_negative() {
                    r.out.tags.push(format!("fwd:negative:{s}"));
                }
                for (source, fname, f, kind) in &plain {
                    f.call(v, fl.0, fl.1, fl.2, fl.3, fl.4, fl.5);
                    match kind {
                        0 => r.check(source, fname, k, &[expect_entry(p, v.wide(), &fl)], &slot, &sent),
                        1 => r.check(source, fname, k, &[[9, v.wide(), 0, 0, 0, 0, 0, 0], expect_entry(p, v.wide(), &fl)], &[1, p], &sent),
                        _ => {
                            let w = S::un(v);
                            r.check(&format!("unary:{}", S::UN.map(|u| u.0).unwrap_or("")), fname, k, &[expect_entry(p, w.wide(), &fl)], &slot, &|| format!("x = {}, model result {}, fillers {fl:?}", show(&v), show(&w)));
                        }
                    }
                }
                if let Some(f) = &opt {
                    let none = k % 9 == 8;
                    f.call(if none { None } else { Some(v) }, fl.0, fl.1, fl.2, fl.3, fl.4, fl.5);
                    let want = if none { vec![] } else { vec![expect_entry(p, v.wide(), &fl)] };
                    r.check("option-payload", &format!("opt{p}"), k, &want, &slot, &|| if none { "None".to_string() } else { format!("Some of {}", sent()) });
                }
                if let Some(f) = &res {
                    let ok = k % 2 == 0;
                    f.call(if ok { Ok(v) } else { Err(v) }, fl.0, fl.1, fl.2, fl.3, fl.4, fl.5);
                    r.check("result-payload", &format!("res{p}"), k, &[expect_entry(p, v.wide(), &fl)], &slot, &|| format!("{} of {}", if ok { "Ok" } else { "Err" }, sent()));
                }
                if let Some(f) = &ver {
                    let acc = k % 2 == 1;
                    f.call(if acc { Verdict::Accept(v) } else { Verdict::Reject(v) }, fl.0, fl.1, fl.2, fl.3, fl.4, fl.5);
                    r.check("verdict-payload", &format!("ver{p}"), k, &[expect_entry(p, v.wide(), &fl)], &slot, &|| format!("{} of {}", if acc { "Accept" } else { "Reject" }, sent()));
                }
                if let Some(f) = &lget {
                    // the value sits at index `at` of `len` elements; every seventh index is out of range
                    let len = 1 + k % 6;
                    let at = (k / 6) % len;
                    let l = List::new();
                    for i in 0..len {
                        l.push(if i == at { v } else { value::<S>(seed, k + 1 + i) });
                    }
                    let oob = k % 7 == 6;
                    let idx = if oob { len as u64 } else { at as u64 };
                    let fl = Fill(fl.0, fl.1, idx, fl.3, fl.4, fl.5);
                    f.call(l, fl.0, fl.1, fl.2, fl.3, fl.4, fl.5);
                    let want = if oob { vec![] } else { vec![expect_entry(p, v.wide(), &fl)] };
                    r.check("list-get", &format!("lget{p}"), k, &want, &slot, &|| format!("element {idx} of {len}, {}", sent()));
                }
                let b: S = value(seed, k + super::ALT);
                for (op, source, fname, f) in &bins {
                    // both orders
                    for (x, y) in [(v, b), (b, v)] {
                        let w = S::bin(*op, x, y);
                        if S::bin_wraps(*op, x, y) {
                            r.out.tags.push(format!("fwd:wrapped:{s}"));
                        }
                        if w.is_negative() {
                            r.out.tags.push(format!("fwd:negative:{s}"));
                        }
                        f.call(x, y, fl.0, fl.1, fl.2, fl.3, fl.4);
                        let fl = Fill(fl.0, fl.1, fl.2, fl.3, fl.4, LIT_I16);
                        r.check(source, fname, k, &[expect_entry(p, w.wide(), &fl)], &slot, &|| format!("a = {}, b = {}, model result {}, fillers {fl:?}", show(&x), show(&y), show(&w)));
                    }
                }
            }
        }
        // method argument
        r.out.tags.push("fwd:source:method-arg".into());
        if let Some(f) = r.get::<fn(Option<S>, u8, f64, u64, f32, bool, i16)>(&mut pkg, "meth", "method-arg", &src) {
            for k in 0..nvals {
                let v: S = value(seed, k);
                let fl = fill(seed, k);
                f.call(Some(v), fl.0, fl.1, fl.2, fl.3, fl.4, fl.5);
                r.check("method-arg", "meth", k, &[[8, 7, fl.0.wide(), v.wide(), fl.5.wide(), 0, 0, 0]], &[3], &|| format!("value #{k} = {}, fillers {fl:?}", show(&v)));
            }
        }
    }

    // --- context field ------------------------------------------------------------
    'ctx: {
        r.out.tags.push("fwd:source:context-field".into());
        let csrc = ctx_script::<S>();
        let mut base = host::runtime();
        base.add(lib()).expect("harness: forwarding library registers");
        let rt = match base.with_context_type::<FwCtx>() {
            Ok(rt) => rt,
            Err(e) => {
                r.out.viol(format!("boundary:forward/context-field/register@{s}"), format!("with_context_type refused a struct of scalar fields: {e}"), J::obj());
                break 'ctx;
            }
        };
        let mut pkg = match catch(|| FileTree::test_file("gen.roto", &csrc, 0).compile(&rt)) {
            Ok(Ok(p)) => p,
            Ok(Err(e)) => {
                let mut rep = String::new();
                let _ = e.write(&mut rep, false);
                r.out.viol(format!("boundary:forward/context-field/rejected@{s}"), format!("a script that forwards a context field of type {s} was rejected: {rep}"), J::obj().set("source", csrc.as_str()));
                break 'ctx;
            }
            Err(p) => {
                r.out.viol(format!("boundary:forward/context-field/compiler-{}@{s}", panic_sig(&p)), format!("compiling a script that forwards a context field of type {s} panicked: {p}"), J::obj().set("source", csrc.as_str()));
                break 'ctx;
            }
        };
        log_take();
        for p in 1..=7usize {
            let fname = format!("ctx{p}");
            let Some(f): Option<FCtx> = r.get_ctx::<fn(u8, f64, u64, f32, bool, i16)>(&mut pkg, &fname, "context-field", &csrc) else { continue };
            for k in 0..nvals {
                let v: S = value(seed, k);
                let fl = fill(seed, k);
                let mut c = FwCtx::new();
                v.set(&mut c);
                f.call(&mut c, fl.0, fl.1, fl.2, fl.3, fl.4, fl.5);
                r.check("context-field", &fname, k, &[expect_entry(p, v.wide(), &fl)], &[p], &|| format!("context field {} = {} (value #{k}), fillers {fl:?}", S::FIELD, show(&v)));
            }
        }
    }

    // --- registered constant --------------------------------------------------------
    'con: {
        r.out.tags.push("fwd:source:registered-constant".into());
        let ksrc = const_script::<S>(N_CONST);
        let mut rt = host::runtime();
        let mut l = lib();
        for j in 0..N_CONST {
            match catch(|| roto::Constant::new(format!("FK_{j}"), "forwarding constant", value::<S>(seed, j), location!())) {
                Ok(Ok(c)) => l.add(c.into()),
                Ok(Err(e)) => {
                    r.out.viol(format!("boundary:forward/registered-constant/register@{s}"), format!("Constant::new refused a constant of type {s}: {e}"), J::obj());
                    break 'con;
                }
                Err(p) => {
                    r.out.viol(format!("boundary:forward/registered-constant/register-{}@{s}", panic_sig(&p)), format!("Constant::new panicked: {p}"), J::obj());
                    break 'con;
                }
            }
        }
        rt.add(l).expect("harness: forwarding library with constants registers");
        let mut pkg = match catch(|| exec::compile(&ksrc, &rt)) {
            Ok(Ok(p)) => p,
            Ok(Err(rep)) => {
                r.out.viol(format!("boundary:forward/registered-constant/rejected@{s}"), format!("a script that forwards a registered constant of type {s} was rejected: {rep}"), J::obj().set("source", ksrc.as_str()));
                break 'con;
            }
            Err(p) => {
                r.out.viol(format!("boundary:forward/registered-constant/compiler-{}@{s}", panic_sig(&p)), format!("compiling a script that forwards a registered constant of type {s} panicked: {p}"), J::obj().set("source", ksrc.as_str()));
                break 'con;
            }
        };
        log_take();
        for j in 0..N_CONST {
            let fname = format!("con{j}");
            let Some(f): Option<FNone> = r.get::<fn(u8, f64, u64, f32, bool, i16)>(&mut pkg, &fname, "registered-constant", &ksrc) else { continue };
            let v: S = value(seed, j);
            if v.is_negative() {
                r.out.tags.push(format!("fwd:negative:{s}"));
            }
            for k in [j, j + 100] {
                let fl = fill(seed, k);
                f.call(fl.0, fl.1, fl.2, fl.3, fl.4, fl.5);
                let want: Vec<Entry> = (1..=7).map(|p| expect_entry(p, v.wide(), &fl)).collect();
                r.check("registered-constant", &fname, k, &want, &[1, 2, 3, 4, 5, 6, 7], &|| format!("constant FK_{j} = {}, fillers {fl:?}", show(&v)));
            }
        }
    }

    let Run { out, m, .. } = r;
    out.evals += m.calls;
    out.events += m.checks;
    for f in m.fails {
        let n = m.more.get(&f.sig).copied().unwrap_or(0);
        out.viol(f.sig, if n > 0 { format!("{} (+{n} more)", f.msg) } else { f.msg }, f.detail);
    }
    out.count("values_per_route", nvals as u64);
    out.sample = Some(J::obj().set("kind", "forward").set("type", s).set("source", src));
}

pub struct ScalarEntry {
    pub name: &'static str,
    pub run: fn(&Env, &mut CaseOut, &Args),
    pub script: fn() -> String,
}

pub fn scalars() -> Vec<ScalarEntry> {
    let mut v = Vec::new();
    macro_rules! reg {
        ($($t:ty),*) => {$( v.push(ScalarEntry { name: <$t as Scalar>::NAME, run: run::<$t>, script: script::<$t> }); )*};
    }
    all_scalars!(reg);
    v
}
