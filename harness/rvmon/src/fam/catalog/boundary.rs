//! `boundary` (C05): a value of every catalogue term crosses the host boundary on
//! every route and arrives structurally equal; script-side construction and
//! matching of Option/Result/Verdict agree with Rust's view.
//!
//! Case k < N: catalogue term k (one script per term, all routes, >= 32 values).
//! Case N + j: context struct j (24 field orders x 3 families).
//! Case N + 52 + j: scalar type j of the forwarding class (see `fwd.rs`): the script
//! passes a value it loaded / matched / computed on to a registered function.
//!
//! Oracle: identity (the equality of the term: structural, floats bitwise,
//! NaN == NaN); for the constructing routes Rust's own constructors; the drop-
//! tracked ledger must be balanced after each call and after dropping the result.

use roto::{Library, NoCtx, Package, Runtime};

use super::ctx;
use super::fwd;
use super::{Desc, Got, Mon, Shape, TermEntry, catalogue, pos_params, term_json};
use crate::exec;
use crate::host;
use crate::jsonw::J;
use crate::rng::Rng;
use super::catch;
use crate::work::{Args, CaseOut, Family, hash_str, panic_sig};

pub struct Boundary {
    cat: Vec<TermEntry>,
    rt: Runtime<NoCtx>,
    ctxs: Vec<ctx::Runner>,
    /// the scalar types of the forwarding class (`fwd.rs`)
    fwds: Vec<fwd::ScalarEntry>,
}

/// One route of a term: script function, shape, expected host calls.
struct Route {
    name: &'static str,
    func: String,
    shape: Shape,
    hostev: Vec<&'static str>,
    src: String,
}

impl Boundary {
    pub fn new(_args: &Args) -> Boundary {
        let cat = catalogue();
        let mut rt = super::runtime(&cat);
        rt.add(fwd::lib()).expect("harness: forwarding library registers");
        Boundary { cat, rt, ctxs: ctx::runners(), fwds: fwd::scalars() }
    }

    fn routes(&self, t: &TermEntry) -> Vec<Route> {
        let i = t.idx;
        let s = t.roto.as_str();
        let a = t.desc.roto_alt();
        let mut v = Vec::new();
        let mut add = |name: &'static str, func: &str, shape: Shape, hostev: &[&'static str], src: String| {
            v.push(Route { name, func: func.to_string(), shape, hostev: hostev.to_vec(), src });
        };
        add("rust->script->host", "p", Shape::P, &["sink"], format!("fn p(x: {a}) {{\n    sink_{i}(x);\n}}\n"));
        add("host->script->rust", "r", Shape::R, &["src"], format!("fn r() -> {s} {{\n    src_{i}()\n}}\n"));
        add("rust->script->rust", "id", Shape::Id, &[], format!("fn id(x: {s}) -> {a} {{\n    x\n}}\n"));
        add("through-locals", "locals", Shape::Id, &[], format!("fn locals(x: {s}) -> {s} {{\n    let y = x;\n    let z = y;\n    z\n}}\n"));
        add("script->script", "viacall", Shape::Id, &[], format!("fn viacall(x: {s}) -> {s} {{\n    id(id(x))\n}}\n"));
        add("clone-to-host-and-return", "both", Shape::Id, &["sink"], format!("fn both(x: {s}) -> {s} {{\n    sink_{i}(x);\n    x\n}}\n"));
        add("host-roundtrip", "hostret", Shape::Id, &["sink", "src"], format!("fn hostret(x: {s}) -> {s} {{\n    sink_{i}(x);\n    src_{i}()\n}}\n"));
        // a list made by the script: the element stride is the script's own idea of the size of T
        add("script-builds-list", "lst3", Shape::ListOf3, &[], format!("fn lst3(a: {s}, b: {s}, c: {s}) -> List[{s}] {{\n    [a, b, c]\n}}\n"));
        add(
            "script-list-element",
            "lstget",
            Shape::ListGet,
            &[],
            format!("fn lstget(a: {s}, b: {s}) -> Option[{s}] {{\n    let l = [a];\n    l.push(b);\n    l.get(1)\n}}\n"),
        );
        if t.desc.has_enum_layer() && t.desc.rebuild("x", 0) != "x" {
            add("match-and-rebuild", "rb", Shape::Id, &[], format!("fn rb(x: {s}) -> {s} {{\n    {}\n}}\n", t.desc.rebuild("x", 0)));
        }
        for p in t.positions() {
            let ps = pos_params(p, s);
            let params: Vec<String> = ps.iter().enumerate().map(|(j, ty)| format!("a{}: {ty}", j + 1)).collect();
            let args: Vec<String> = (1..=7).map(|j| format!("a{j}")).collect();
            let name: &'static str = ["position-1", "position-2", "position-3", "position-4", "position-5", "position-6", "position-7"][p - 1];
            add(
                name,
                &format!("pos{p}"),
                Shape::Pos(p),
                &["hpos", "fill"],
                format!("fn pos{p}({}) -> {s} {{\n    hpos{p}_{i}({})\n}}\n", params.join(", "), args.join(", ")),
            );
        }
        if t.is_val() {
            add("method-receiver", "me", Shape::Id, &["me"], format!("fn me(x: {s}) -> {s} {{\n    x.me()\n}}\n"));
            add("method-receiver+arg", "with", Shape::Id, &["with", "with.n"], format!("fn with(x: {s}) -> {s} {{\n    x.with(48879)\n}}\n"));
        }
        if t.full {
            add("script-constructs-Some", "wrap", Shape::Wrap, &[], format!("fn wrap(x: {s}) -> Option[{s}] {{\n    Some(x)\n}}\n"));
            add("script-constructs-None", "none", Shape::NoneOf, &[], format!("fn none() -> Option[{s}] {{\n    None\n}}\n"));
            add(
                "script-matches-Option",
                "unwrap_or",
                Shape::UnwrapOr,
                &[],
                format!("fn unwrap_or(x: Option[{s}], d: {s}) -> {s} {{\n    match x {{\n        Some(y) => y,\n        None => d,\n    }}\n}}\n"),
            );
        }
        // the script constructs the value and hands it to the host (needs the
        // Option of the term in the catalogue for its sink function)
        let opt = Desc::Opt(Box::new(t.desc.clone()));
        if let Some(o) = self.cat.iter().find(|o| o.desc == opt) {
            // checked by the sink of the Option term against the value `Some(value of t)`
            // only when both terms generate the same payload for the same k: edge k of
            // Option[T] is Some(edge k-1 of T), so the route sends `src_o()` apart instead
            add(
                "script-matches->host",
                "unwraph",
                Shape::P,
                &["src", "sink"],
                format!(
                    "fn unwraph(x: {s}) {{\n    match src_{oi}() {{\n        Some(y) => sink_{oi}(Some(y)),\n        None => sink_{oi}(None),\n    }}\n}}\n",
                    oi = o.idx
                ),
            );
        }
        match &t.desc {
            Desc::Res(x, y) => add(
                "script-constructs-Result",
                "build",
                Shape::Build,
                &[],
                format!("fn build(c: bool, a: {}, b: {}) -> {s} {{\n    if c {{\n        Ok(a)\n    }} else {{\n        Err(b)\n    }}\n}}\n", x.roto(), y.roto()),
            ),
            Desc::Verd(x, y) => add(
                "script-constructs-Verdict",
                "build",
                Shape::Build,
                &[],
                format!(
                    "fn build(c: bool, a: {}, b: {}) -> {s} {{\n    if c {{\n        Verdict.Accept(a)\n    }} else {{\n        Verdict.Reject(b)\n    }}\n}}\n",
                    x.roto(),
                    y.roto()
                ),
            ),
            _ => {}
        }
        v
    }

    fn compile(rt: &Runtime<NoCtx>, src: &str, out: &mut CaseOut, term: &str, what: &str) -> Option<Package<NoCtx>> {
        match catch(|| exec::compile(src, rt)) {
            Ok(Ok(p)) => Some(p),
            Ok(Err(rep)) => {
                out.viol(
                    format!("boundary:{what}/rejected@{term}"),
                    format!("a script that only moves a value of type {term} was rejected: {rep}"),
                    J::obj().set("source", src),
                );
                None
            }
            Err(p) => {
                out.viol(
                    format!("boundary:{what}/compiler-{}@{term}", panic_sig(&p)),
                    format!("compiling a script that only moves a value of type {term} panicked: {p}"),
                    J::obj().set("source", src).set("panic", p.as_str()),
                );
                None
            }
        }
    }

    fn term_case(&self, t: &TermEntry, out: &mut CaseOut, args: &Args) {
        let routes = self.routes(t);
        let src: String = routes.iter().map(|r| r.src.as_str()).collect::<Vec<_>>().join("\n");
        out.hash = hash_str(&src);
        out.tags.push(format!("term:{}", t.roto));
        out.tags.push(t.layout_tag());
        out.tags.push(format!("depth:{}", t.desc.depth()));
        let zst = t.desc.has_zst_val();
        if zst {
            out.tags.push("known:zst-elided".into());
        }
        let nvals = match args.opt("values").and_then(|v| v.parse::<usize>().ok()) {
            Some(n) => n,
            None if args.thorough() => 5000,
            None => 64.max(t.n_edges + 32),
        };
        let mut m = Mon::new(args.seed, &t.roto, zst);
        // one script with every route; if it does not compile, fall back to one
        // script per route so that a single failing construct is named
        let mut probe = CaseOut::default();
        let mut whole = Self::compile(&self.rt, &src, &mut probe, &t.roto, "compile");
        let viols_before = out.viols.len();
        for r in &routes {
            out.tags.push(format!("route:{}", r.name));
            let zv = |d: &Desc| *d == Desc::Val("TrkZ");
            m.zst_param = zv(&t.desc) || (r.shape == Shape::Build && matches!(&t.desc, Desc::Res(a, b) | Desc::Verd(a, b) if zv(a) || zv(b)));
            let mut own;
            let pkg = match whole.as_mut() {
                Some(p) => p,
                None => {
                    let mut s = r.src.clone();
                    if r.func == "viacall" {
                        s = format!("{}\n{s}", routes[2].src);
                    }
                    match Self::compile(&self.rt, &s, out, &t.roto, r.name) {
                        Some(p) => {
                            own = p;
                            &mut own
                        }
                        None => continue,
                    }
                }
            };
            let Some(g) = t.try_get(pkg, &r.func, r.shape) else { continue };
            match g {
                Got::Ok(h) => {
                    for k in 0..nvals {
                        h.call(k, &mut m, r.name, &r.hostev);
                    }
                }
                Got::Refused(e) => out.viol(
                    format!("boundary:{}/refused@{}", r.name, t.roto),
                    format!("{}: get_function refused the mapped signature: {}", r.name, e.lines().next().unwrap_or("")),
                    J::obj().set("source", r.src.as_str()).set("error", e.as_str()),
                ),
                Got::Panic(p) => out.viol(
                    format!("boundary:{}/get_function-{}@{}", r.name, panic_sig(&p), t.roto),
                    format!("{}: get_function panicked: {p}", r.name),
                    J::obj().set("source", r.src.as_str()),
                ),
            }
        }
        if whole.is_none() && out.viols.len() == viols_before {
            // every route compiles alone but not together
            out.viols.append(&mut probe.viols);
        }
        drop(whole);
        m.zst_param = false;
        self.constants(t, out, &mut m, args);
        out.evals += m.calls;
        out.events += m.checks;
        let rows = std::mem::take(&mut m.rows);
        for f in m.fails {
            let n = m.more.get(&f.sig).copied().unwrap_or(0);
            out.viol(f.sig, if n > 0 { format!("{} (+{n} more)", f.msg) } else { f.msg }, f.detail);
        }
        out.count("values_per_route", nvals as u64);
        out.count("routes", routes.len() as u64);
        out.sample = Some(J::obj().set("kind", "term").set("term", term_json(t)).set("source", src).set("rows", J::Arr(rows)));
    }

    /// Registered constants of the term, read from two independently compiled packages.
    fn constants(&self, t: &TermEntry, out: &mut CaseOut, m: &mut Mon, args: &Args) {
        let n = t.n_edges.min(12) + 4;
        host::ledger_reset();
        let mut rt = host::runtime();
        let mut lib = Library::new();
        match catch(|| (t.constants)(&mut lib, t.idx, args.seed, n)) {
            Ok(Ok(())) => {}
            Ok(Err(e)) => {
                // registration refused: the embedding does not offer constants of this type
                out.tags.push(format!("constant-unsupported:{}", t.desc.ctor()));
                out.count("constant_refused", 1);
                let _ = e;
                return;
            }
            Err(p) => {
                out.viol(format!("boundary:constant/register-{}@{}", panic_sig(&p), t.roto), format!("Constant::new panicked: {p}"), J::obj());
                return;
            }
        }
        match catch(|| rt.add(lib)) {
            Ok(Ok(())) => {}
            Ok(Err(e)) => {
                out.tags.push(format!("constant-unsupported:{}", t.desc.ctor()));
                out.count("constant_refused", 1);
                let _ = e;
                return;
            }
            Err(p) => {
                out.viol(format!("boundary:constant/register-{}@{}", panic_sig(&p), t.roto), format!("registering a constant panicked: {p}"), J::obj());
                return;
            }
        }
        let src: String = (0..n).map(|j| format!("fn c{j}() -> {} {{\n    C{}_{j}\n}}\n", t.roto, t.idx)).collect::<Vec<_>>().join("\n");
        out.tags.push("route:registered-constant".into());
        let Some(mut pa) = Self::compile(&rt, &src, out, &t.roto, "registered-constant") else { return };
        let Some(mut pb) = Self::compile(&rt, &src, out, &t.roto, "registered-constant") else { return };
        m.no_reset = true;
        let mut ha = Vec::new();
        let mut hb = Vec::new();
        for j in 0..n {
            for (pkg, hs) in [(&mut pa, &mut ha), (&mut pb, &mut hb)] {
                match t.try_get(pkg, &format!("c{j}"), Shape::R) {
                    Some(Got::Ok(h)) => hs.push((j, h)),
                    Some(Got::Refused(e)) => out.viol(
                        format!("boundary:registered-constant/refused@{}", t.roto),
                        format!("registered-constant: get_function refused the mapped signature: {}", e.lines().next().unwrap_or("")),
                        J::obj().set("source", src.as_str()),
                    ),
                    Some(Got::Panic(p)) => out.viol(
                        format!("boundary:registered-constant/get_function-{}@{}", panic_sig(&p), t.roto),
                        format!("registered-constant: get_function panicked: {p}"),
                        J::obj().set("source", src.as_str()),
                    ),
                    None => {}
                }
            }
        }
        for (j, h) in ha.iter().chain(hb.iter()) {
            h.call(*j, m, "registered-constant", &[]);
        }
        // the second package goes away, then the runtime: the first package keeps its constants
        drop(hb);
        drop(pb);
        for (j, h) in &ha {
            h.call(*j, m, "registered-constant/other-package-dropped", &[]);
        }
        drop(rt);
        for (j, h) in &ha {
            h.call(*j, m, "registered-constant/runtime-dropped", &[]);
        }
        drop(pa);
        for (j, h) in &ha {
            h.call(*j, m, "registered-constant/package-dropped", &[]);
        }
        drop(ha);
        m.no_reset = false;
        m.ledger("registered-constant/after-drop", 0);
    }

    fn ctx_case(&self, j: usize, out: &mut CaseOut, args: &Args) {
        let nvals = if args.thorough() { 4000 } else { 64 };
        let mut m = Mon::new(args.seed, "ctx", false);
        let info = (self.ctxs[j])(&mut m, nvals);
        out.hash = hash_str(&format!("{}{}{}", info.family, info.repr, info.order));
        out.tags.push(format!("ctx:{}:{}:{}", info.family, info.repr, info.order));
        out.tags.push(format!("ctx-offsets:{:?}", info.offsets));
        out.tags.push("route:context-field".into());
        out.evals += m.calls * 8;
        out.events += m.checks;
        let rows = std::mem::take(&mut m.rows);
        for f in m.fails {
            let n = m.more.get(&f.sig).copied().unwrap_or(0);
            let det = f.detail.set("field_order", info.order).set("repr", info.repr).set("family", info.family).set("offsets", format!("{:?}", info.offsets)).set("source", info.source);
            out.viol(f.sig, if n > 0 { format!("{} (+{n} more)", f.msg) } else { f.msg }, det);
        }
        out.sample = Some(
            J::obj()
                .set("kind", "context")
                .set("family", info.family)
                .set("repr", info.repr)
                .set("field_order", info.order)
                .set("offsets", format!("{:?}", info.offsets))
                .set("source", info.source)
                .set("rows", J::Arr(rows)),
        );
    }
}

impl Family for Boundary {
    fn n_cases(&self, _args: &Args) -> u64 {
        (self.cat.len() + self.ctxs.len() + self.fwds.len()) as u64
    }

    fn run(&mut self, k: u64, rng: &mut Rng, args: &Args) -> CaseOut {
        let mut out = CaseOut { nontrivial: true, ..CaseOut::default() };
        // all values of the case derive from the case's own stream
        let mut args = args.clone();
        args.seed = rng.next();
        let args = &args;
        super::set_fault_host(args.opt("fault") == Some("host"));
        let k = k as usize;
        if let Some(t) = self.cat.get(k) {
            self.term_case(t, &mut out, args);
        } else if k - self.cat.len() < self.ctxs.len() {
            self.ctx_case(k - self.cat.len(), &mut out, args);
        } else if let Some(f) = self.fwds.get(k - self.cat.len() - self.ctxs.len()) {
            (f.run)(&fwd::Env { rt: &self.rt }, &mut out, args);
        } else {
            out.skipped = Some("no-such-case".into());
        }
        out.tags.sort();
        out.tags.dedup();
        out
    }

    fn describe(&mut self, k: u64, _rng: &mut Rng, _args: &Args) -> Option<J> {
        let k = k as usize;
        Some(match self.cat.get(k) {
            Some(t) => {
                let src: String = self.routes(t).iter().map(|r| r.src.clone()).collect::<Vec<_>>().join("\n");
                J::obj().set("kind", "term").set("term", term_json(t)).set("source", src)
            }
            None if k - self.cat.len() < self.ctxs.len() => J::obj().set("kind", "context").set("index", k - self.cat.len()),
            None => {
                let f = self.fwds.get(k - self.cat.len() - self.ctxs.len())?;
                J::obj().set("kind", "forward").set("type", f.name).set("source", (f.script)())
            }
        })
    }
}
