//! Context structs for the `boundary` family (C05): the 24 declaration orders of
//! four fields of different size/alignment classes. Family A = (u8, u64, String,
//! f32) under `repr(C)` (declaration order = memory order) and, for the four
//! rotations, under the default representation (rustc chooses the order, so the
//! declaration order only permutes `Context::fields()`); family B = (bool, IpAddr, i16, Trk)
//! under `repr(C)` on the harness runtime. The struct list is generated (python,
//! itertools.permutations) and pasted; the macros and runners are hand-written.
//!
//! Every field is read by the script and returned to Rust; `mix` compares context
//! fields with explicit arguments inside the script (context pointer and arguments
//! in one call).

use std::net::IpAddr;

use roto::{Context, Ctx, FileTree, Package, RotoFunc, RotoString, Runtime, TypedFunc, Val};

use super::{Mon, value};
use crate::host::{self, Trk};
use crate::jsonw::J;
use super::catch;

pub const SRC_A: &str = "\
fn get_a() -> u8 {
    fa
}

fn get_b() -> u64 {
    fb
}

fn get_c() -> String {
    fc
}

fn get_d() -> f32 {
    fd
}

fn mix(x: u64, y: u8, s: String) -> bool {
    x == fb && y == fa && s == fc
}

fn echo(x: u64, y: f32) -> u64 {
    x
}
";

pub const SRC_B: &str = "\
fn get_a() -> bool {
    fa
}

fn get_b() -> IpAddr {
    fb
}

fn get_c() -> i16 {
    fc
}

fn get_d() -> Trk {
    fd
}

fn mix(x: i16, y: bool, z: IpAddr) -> bool {
    x == fc && y == fa && z == fb
}

fn tag() -> i64 {
    fd.tag()
}
";

pub trait CtxA: Context {
    const ORDER: &'static str;
    const REPR: &'static str;
    fn make(fa: u8, fb: u64, fc: RotoString, fd: f32) -> Self;
    fn offsets() -> [usize; 4];
}

pub trait CtxB: Context {
    const ORDER: &'static str;
    const REPR: &'static str;
    fn make(fa: bool, fb: IpAddr, fc: i16, fd: Val<Trk>) -> Self;
    fn offsets() -> [usize; 4];
}

macro_rules! ctx_a {
    ($name:ident, $repr:meta, $order:literal, $($f:ident : $t:ty),*) => {
        #[derive(Clone, Context)]
        #[$repr]
        pub struct $name { $(pub $f: $t),* }
        impl CtxA for $name {
            const ORDER: &'static str = $order;
            const REPR: &'static str = stringify!($repr);
            fn make(fa: u8, fb: u64, fc: RotoString, fd: f32) -> Self { Self { fa, fb, fc, fd } }
            fn offsets() -> [usize; 4] {
                [std::mem::offset_of!(Self, fa), std::mem::offset_of!(Self, fb), std::mem::offset_of!(Self, fc), std::mem::offset_of!(Self, fd)]
            }
        }
    };
}

macro_rules! ctx_b {
    ($name:ident, $repr:meta, $order:literal, $($f:ident : $t:ty),*) => {
        #[derive(Clone, Context)]
        #[$repr]
        pub struct $name { $(pub $f: $t),* }
        impl CtxB for $name {
            const ORDER: &'static str = $order;
            const REPR: &'static str = stringify!($repr);
            fn make(fa: bool, fb: IpAddr, fc: i16, fd: Val<Trk>) -> Self { Self { fa, fb, fc, fd } }
            fn offsets() -> [usize; 4] {
                [std::mem::offset_of!(Self, fa), std::mem::offset_of!(Self, fb), std::mem::offset_of!(Self, fc), std::mem::offset_of!(Self, fd)]
            }
        }
    };
}

ctx_a!(CaC0, repr(C), "abcd", fa: u8, fb: u64, fc: RotoString, fd: f32);
ctx_a!(CaC1, repr(C), "abdc", fa: u8, fb: u64, fd: f32, fc: RotoString);
ctx_a!(CaC2, repr(C), "acbd", fa: u8, fc: RotoString, fb: u64, fd: f32);
ctx_a!(CaC3, repr(C), "acdb", fa: u8, fc: RotoString, fd: f32, fb: u64);
ctx_a!(CaC4, repr(C), "adbc", fa: u8, fd: f32, fb: u64, fc: RotoString);
ctx_a!(CaC5, repr(C), "adcb", fa: u8, fd: f32, fc: RotoString, fb: u64);
ctx_a!(CaC6, repr(C), "bacd", fb: u64, fa: u8, fc: RotoString, fd: f32);
ctx_a!(CaC7, repr(C), "badc", fb: u64, fa: u8, fd: f32, fc: RotoString);
ctx_a!(CaC8, repr(C), "bcad", fb: u64, fc: RotoString, fa: u8, fd: f32);
ctx_a!(CaC9, repr(C), "bcda", fb: u64, fc: RotoString, fd: f32, fa: u8);
ctx_a!(CaC10, repr(C), "bdac", fb: u64, fd: f32, fa: u8, fc: RotoString);
ctx_a!(CaC11, repr(C), "bdca", fb: u64, fd: f32, fc: RotoString, fa: u8);
ctx_a!(CaC12, repr(C), "cabd", fc: RotoString, fa: u8, fb: u64, fd: f32);
ctx_a!(CaC13, repr(C), "cadb", fc: RotoString, fa: u8, fd: f32, fb: u64);
ctx_a!(CaC14, repr(C), "cbad", fc: RotoString, fb: u64, fa: u8, fd: f32);
ctx_a!(CaC15, repr(C), "cbda", fc: RotoString, fb: u64, fd: f32, fa: u8);
ctx_a!(CaC16, repr(C), "cdab", fc: RotoString, fd: f32, fa: u8, fb: u64);
ctx_a!(CaC17, repr(C), "cdba", fc: RotoString, fd: f32, fb: u64, fa: u8);
ctx_a!(CaC18, repr(C), "dabc", fd: f32, fa: u8, fb: u64, fc: RotoString);
ctx_a!(CaC19, repr(C), "dacb", fd: f32, fa: u8, fc: RotoString, fb: u64);
ctx_a!(CaC20, repr(C), "dbac", fd: f32, fb: u64, fa: u8, fc: RotoString);
ctx_a!(CaC21, repr(C), "dbca", fd: f32, fb: u64, fc: RotoString, fa: u8);
ctx_a!(CaC22, repr(C), "dcab", fd: f32, fc: RotoString, fa: u8, fb: u64);
ctx_a!(CaC23, repr(C), "dcba", fd: f32, fc: RotoString, fb: u64, fa: u8);
ctx_a!(CaR0, repr(Rust), "abcd", fa: u8, fb: u64, fc: RotoString, fd: f32);
ctx_a!(CaR9, repr(Rust), "bcda", fb: u64, fc: RotoString, fd: f32, fa: u8);
ctx_a!(CaR16, repr(Rust), "cdab", fc: RotoString, fd: f32, fa: u8, fb: u64);
ctx_a!(CaR18, repr(Rust), "dabc", fd: f32, fa: u8, fb: u64, fc: RotoString);
ctx_b!(CbC0, repr(C), "abcd", fa: bool, fb: IpAddr, fc: i16, fd: Val<Trk>);
ctx_b!(CbC1, repr(C), "abdc", fa: bool, fb: IpAddr, fd: Val<Trk>, fc: i16);
ctx_b!(CbC2, repr(C), "acbd", fa: bool, fc: i16, fb: IpAddr, fd: Val<Trk>);
ctx_b!(CbC3, repr(C), "acdb", fa: bool, fc: i16, fd: Val<Trk>, fb: IpAddr);
ctx_b!(CbC4, repr(C), "adbc", fa: bool, fd: Val<Trk>, fb: IpAddr, fc: i16);
ctx_b!(CbC5, repr(C), "adcb", fa: bool, fd: Val<Trk>, fc: i16, fb: IpAddr);
ctx_b!(CbC6, repr(C), "bacd", fb: IpAddr, fa: bool, fc: i16, fd: Val<Trk>);
ctx_b!(CbC7, repr(C), "badc", fb: IpAddr, fa: bool, fd: Val<Trk>, fc: i16);
ctx_b!(CbC8, repr(C), "bcad", fb: IpAddr, fc: i16, fa: bool, fd: Val<Trk>);
ctx_b!(CbC9, repr(C), "bcda", fb: IpAddr, fc: i16, fd: Val<Trk>, fa: bool);
ctx_b!(CbC10, repr(C), "bdac", fb: IpAddr, fd: Val<Trk>, fa: bool, fc: i16);
ctx_b!(CbC11, repr(C), "bdca", fb: IpAddr, fd: Val<Trk>, fc: i16, fa: bool);
ctx_b!(CbC12, repr(C), "cabd", fc: i16, fa: bool, fb: IpAddr, fd: Val<Trk>);
ctx_b!(CbC13, repr(C), "cadb", fc: i16, fa: bool, fd: Val<Trk>, fb: IpAddr);
ctx_b!(CbC14, repr(C), "cbad", fc: i16, fb: IpAddr, fa: bool, fd: Val<Trk>);
ctx_b!(CbC15, repr(C), "cbda", fc: i16, fb: IpAddr, fd: Val<Trk>, fa: bool);
ctx_b!(CbC16, repr(C), "cdab", fc: i16, fd: Val<Trk>, fa: bool, fb: IpAddr);
ctx_b!(CbC17, repr(C), "cdba", fc: i16, fd: Val<Trk>, fb: IpAddr, fa: bool);
ctx_b!(CbC18, repr(C), "dabc", fd: Val<Trk>, fa: bool, fb: IpAddr, fc: i16);
ctx_b!(CbC19, repr(C), "dacb", fd: Val<Trk>, fa: bool, fc: i16, fb: IpAddr);
ctx_b!(CbC20, repr(C), "dbac", fd: Val<Trk>, fb: IpAddr, fa: bool, fc: i16);
ctx_b!(CbC21, repr(C), "dbca", fd: Val<Trk>, fb: IpAddr, fc: i16, fa: bool);
ctx_b!(CbC22, repr(C), "dcab", fd: Val<Trk>, fc: i16, fa: bool, fb: IpAddr);
ctx_b!(CbC23, repr(C), "dcba", fd: Val<Trk>, fc: i16, fb: IpAddr, fa: bool);

pub struct CtxOut {
    pub order: &'static str,
    pub repr: &'static str,
    pub family: &'static str,
    pub offsets: [usize; 4],
    pub source: &'static str,
}

fn rep(e: roto::RotoReport) -> String {
    let mut s = String::new();
    let _ = e.write(&mut s, false);
    s
}

/// (stage, message) of a failed set-up
type SetupErr = (&'static str, String);

fn getf<C: Context, F: RotoFunc>(pkg: &mut Package<Ctx<C>>, name: &'static str) -> Result<TypedFunc<Ctx<C>, F>, SetupErr> {
    match catch(|| pkg.get_function::<F>(name)) {
        Ok(Ok(f)) => Ok(f),
        Ok(Err(e)) => Err(("get_function", format!("get_function({name}) refused: {e}"))),
        Err(p) => Err(("get_function-panic", format!("get_function({name}) panicked: {p}"))),
    }
}

fn compile<C: Context>(rt: &Runtime<Ctx<C>>, src: &str) -> Result<Package<Ctx<C>>, SetupErr> {
    match catch(|| FileTree::test_file("gen.roto", src, 0).compile(rt)) {
        Ok(Ok(p)) => Ok(p),
        Ok(Err(e)) => Err(("compile", format!("context script rejected: {}", rep(e)))),
        Err(p) => Err(("compile-panic", format!("context script: compiler panicked: {p}"))),
    }
}

fn setup_failed(m: &mut Mon, e: SetupErr, src: &str) {
    m.fail(format!("boundary:context/{}@{}", e.0, m.term), format!("context: {}", e.1), J::obj().set("source", src));
}

// Only `build_*` is generic over the context struct (72 instances): it sets up the
// runtime, the package and one closure that performs every call of a round.

/// what one round of family A reads back
pub struct ReadA {
    first: (u8, u64, RotoString, f32),
    mix_same: bool,
    mix_other: bool,
    echo: u64,
    /// the fields again, after the other calls
    second: (u8, u64, RotoString, f32),
}

type CallA = Box<dyn Fn(u8, u64, RotoString, f32, u64) -> ReadA>;

fn build_a<C: CtxA>() -> Result<CallA, SetupErr> {
    let rt = Runtime::new().with_context_type::<C>().map_err(|e| ("register", format!("with_context_type refused: {e}")))?;
    let mut pkg = compile(&rt, SRC_A)?;
    let ga = getf::<C, fn() -> u8>(&mut pkg, "get_a")?;
    let gb = getf::<C, fn() -> u64>(&mut pkg, "get_b")?;
    let gc = getf::<C, fn() -> RotoString>(&mut pkg, "get_c")?;
    let gd = getf::<C, fn() -> f32>(&mut pkg, "get_d")?;
    let mix = getf::<C, fn(u64, u8, RotoString) -> bool>(&mut pkg, "mix")?;
    let echo = getf::<C, fn(u64, f32) -> u64>(&mut pkg, "echo")?;
    Ok(Box::new(move |a, b, c, d, other| {
        let mut ctx = C::make(a, b, c.clone(), d);
        let first = (ga.call(&mut ctx), gb.call(&mut ctx), gc.call(&mut ctx), gd.call(&mut ctx));
        let mix_same = mix.call(&mut ctx, b, a, c.clone());
        let mix_other = mix.call(&mut ctx, other, a, c);
        let echo = echo.call(&mut ctx, other, d);
        let second = (ga.call(&mut ctx), gb.call(&mut ctx), gc.call(&mut ctx), gd.call(&mut ctx));
        ReadA { first, mix_same, mix_other, echo, second }
    }))
}

pub fn run_a<C: CtxA>(m: &mut Mon, nvals: usize) -> CtxOut {
    m.term = format!("ctx-A/{}/{}", C::REPR, C::ORDER);
    match build_a::<C>() {
        Ok(call) => drive_a(m, nvals, call),
        Err(e) => setup_failed(m, e, SRC_A),
    }
    CtxOut { order: C::ORDER, repr: C::REPR, family: "A(u8,u64,String,f32)", offsets: C::offsets(), source: SRC_A }
}

fn drive_a(m: &mut Mon, nvals: usize, call: CallA) {
    for k in 0..nvals {
        let (a, b, c, d): (u8, u64, RotoString, f32) = (value(m.seed, k), value(m.seed, k + 1), value(m.seed, k + 2), value(m.seed, k + 3));
        let other: u64 = value(m.seed, k + 9);
        m.begin(k);
        let r = call(a, b, c.clone(), d, other);
        for (route, got) in [("context/read", &r.first), ("context/read-again", &r.second)] {
            m.compare(route, k, &a, &got.0);
            m.compare(route, k, &b, &got.1);
            m.compare(route, k, &c, &got.2);
            m.compare(route, k, &d, &got.3);
        }
        m.compare("context/with-arguments", k, &true, &r.mix_same);
        m.compare("context/with-arguments", k, &(other == b), &r.mix_other);
        m.compare("context/with-arguments", k, &other, &r.echo);
        drop(r);
        m.finish("context", k, &[]);
    }
}

pub struct ReadB {
    first: (bool, IpAddr, i16, Val<Trk>),
    tag: i64,
    mix_same: bool,
    mix_other: bool,
    second: (bool, IpAddr, i16, Val<Trk>),
}

type CallB = Box<dyn Fn(bool, IpAddr, i16, Val<Trk>) -> ReadB>;

fn build_b<C: CtxB>() -> Result<CallB, SetupErr> {
    let rt = host::runtime().with_context_type::<C>().map_err(|e| ("register", format!("with_context_type refused: {e}")))?;
    let mut pkg = compile(&rt, SRC_B)?;
    let ga = getf::<C, fn() -> bool>(&mut pkg, "get_a")?;
    let gb = getf::<C, fn() -> IpAddr>(&mut pkg, "get_b")?;
    let gc = getf::<C, fn() -> i16>(&mut pkg, "get_c")?;
    let gd = getf::<C, fn() -> Val<Trk>>(&mut pkg, "get_d")?;
    let mix = getf::<C, fn(i16, bool, IpAddr) -> bool>(&mut pkg, "mix")?;
    let tag = getf::<C, fn() -> i64>(&mut pkg, "tag")?;
    Ok(Box::new(move |a, b, c, d| {
        let mut ctx = C::make(a, b, c, d);
        let first = (ga.call(&mut ctx), gb.call(&mut ctx), gc.call(&mut ctx), gd.call(&mut ctx));
        let tag = tag.call(&mut ctx);
        let mix_same = mix.call(&mut ctx, c, a, b);
        let mix_other = mix.call(&mut ctx, c, !a, b);
        let second = (ga.call(&mut ctx), gb.call(&mut ctx), gc.call(&mut ctx), gd.call(&mut ctx));
        ReadB { first, tag, mix_same, mix_other, second }
    }))
}

pub fn run_b<C: CtxB>(m: &mut Mon, nvals: usize) -> CtxOut {
    m.term = format!("ctx-B/{}/{}", C::REPR, C::ORDER);
    match build_b::<C>() {
        Ok(call) => drive_b(m, nvals, call),
        Err(e) => setup_failed(m, e, SRC_B),
    }
    CtxOut { order: C::ORDER, repr: C::REPR, family: "B(bool,IpAddr,i16,Trk)", offsets: C::offsets(), source: SRC_B }
}

fn drive_b(m: &mut Mon, nvals: usize, call: CallB) {
    for k in 0..nvals {
        m.begin(k);
        let (a, b, c): (bool, IpAddr, i16) = (value(m.seed, k), value(m.seed, k + 1), value(m.seed, k + 2));
        let want: Val<Trk> = value(m.seed, k + 3);
        let r = call(a, b, c, value(m.seed, k + 3));
        for (route, got) in [("context/read", &r.first), ("context/read-again", &r.second)] {
            m.compare(route, k, &a, &got.0);
            m.compare(route, k, &b, &got.1);
            m.compare(route, k, &c, &got.2);
            m.compare(route, k, &want, &got.3);
        }
        m.compare("context/read-method", k, &want.tag, &r.tag);
        m.compare("context/with-arguments", k, &true, &r.mix_same);
        m.compare("context/with-arguments", k, &false, &r.mix_other);
        drop(r);
        drop(want);
        m.finish("context", k, &[]);
    }
}

pub type Runner = fn(&mut Mon, usize) -> CtxOut;

pub fn runners() -> Vec<Runner> {
    let mut v: Vec<Runner> = Vec::new();
    v.push(run_a::<CaC0>);
    v.push(run_a::<CaC1>);
    v.push(run_a::<CaC2>);
    v.push(run_a::<CaC3>);
    v.push(run_a::<CaC4>);
    v.push(run_a::<CaC5>);
    v.push(run_a::<CaC6>);
    v.push(run_a::<CaC7>);
    v.push(run_a::<CaC8>);
    v.push(run_a::<CaC9>);
    v.push(run_a::<CaC10>);
    v.push(run_a::<CaC11>);
    v.push(run_a::<CaC12>);
    v.push(run_a::<CaC13>);
    v.push(run_a::<CaC14>);
    v.push(run_a::<CaC15>);
    v.push(run_a::<CaC16>);
    v.push(run_a::<CaC17>);
    v.push(run_a::<CaC18>);
    v.push(run_a::<CaC19>);
    v.push(run_a::<CaC20>);
    v.push(run_a::<CaC21>);
    v.push(run_a::<CaC22>);
    v.push(run_a::<CaC23>);
    v.push(run_a::<CaR0>);
    v.push(run_a::<CaR9>);
    v.push(run_a::<CaR16>);
    v.push(run_a::<CaR18>);
    v.push(run_b::<CbC0>);
    v.push(run_b::<CbC1>);
    v.push(run_b::<CbC2>);
    v.push(run_b::<CbC3>);
    v.push(run_b::<CbC4>);
    v.push(run_b::<CbC5>);
    v.push(run_b::<CbC6>);
    v.push(run_b::<CbC7>);
    v.push(run_b::<CbC8>);
    v.push(run_b::<CbC9>);
    v.push(run_b::<CbC10>);
    v.push(run_b::<CbC11>);
    v.push(run_b::<CbC12>);
    v.push(run_b::<CbC13>);
    v.push(run_b::<CbC14>);
    v.push(run_b::<CbC15>);
    v.push(run_b::<CbC16>);
    v.push(run_b::<CbC17>);
    v.push(run_b::<CbC18>);
    v.push(run_b::<CbC19>);
    v.push(run_b::<CbC20>);
    v.push(run_b::<CbC21>);
    v.push(run_b::<CbC22>);
    v.push(run_b::<CbC23>);
    v
}
