//! C11: function handles keep alive exactly what they need.
//!
//! Histories of {new runtime, compile, get handle, clone handle, turn a handle into
//! an `into_func()` closure, call, drop handle / closure / package / runtime, drop a
//! handle or closure on another thread} are executed against the real API. After
//! every step a small ownership model says which drop-tracked instances (script
//! constants, registered constants, state captured by registered closures) must be
//! live, and what every surviving handle and closure returns (`call`, `call_tuple`
//! and the `impl Fn` made by `into_func`).
//!
//! Case layout:
//! * `scenario:closure-holds-script-list`: all drop orders of {runtime, package,
//!   handles, clones, closures} of a world whose registered closure keeps the
//!   `List[String]`s the script hands to it (a separate enumerated block, first);
//! * all well-formed histories up to the exhaustive length, visited in a strided
//!   order so that every prefix of the case range is a spread over the whole space
//!   (the debug and sanitizer jobs run a prefix);
//! * random long histories (every third one in a world of the scenario kind).

use std::collections::BTreeMap;
use std::sync::{Arc, Mutex};

use roto::{FileTree, List, NoCtx, Package, RotoString, Runtime, TypedFunc, Val, library};

use crate::host::{self, Trk};
use crate::jsonw::J;
use crate::rng::Rng;
use crate::work::{Args, CaseOut, Family, catch, hash_str, panic_sig};

type Handle = TypedFunc<NoCtx, fn(i64) -> i64>;

/// What `into_func()` returns, boxed. Whether the closure may cross threads is decided
/// by the compiler from the closure type the API returns (see `Probe`), not asserted here.
enum Callable {
    Sendable(Box<dyn Fn(i64) -> i64 + Send + Sync>),
    Local(Box<dyn Fn(i64) -> i64>),
}

impl Callable {
    fn call(&self, mode: i64) -> i64 {
        match self {
            Callable::Sendable(f) => f(mode),
            Callable::Local(f) => f(mode),
        }
    }
}

/// `Probe(closure).boxed()` resolves to the inherent method when the closure type is
/// `Send + Sync` and to the trait method otherwise.
struct Probe<T>(T);
trait BoxLocal {
    fn boxed(self) -> Callable;
}
impl<T: Fn(i64) -> i64 + 'static> BoxLocal for Probe<T> {
    fn boxed(self) -> Callable {
        Callable::Local(Box::new(self.0))
    }
}
impl<T: Fn(i64) -> i64 + Send + Sync + 'static> Probe<T> {
    fn boxed(self) -> Callable {
        Callable::Sendable(Box::new(self.0))
    }
}

fn into_callable(h: Handle) -> Callable {
    Probe(h.into_func()).boxed()
}

#[derive(Clone, Copy, Debug, PartialEq, Eq, PartialOrd, Ord)]
enum Op {
    /// create another runtime and make it current
    NewRuntime,
    /// compile a fresh script version on the current runtime
    Compile,
    /// compile on the oldest living runtime
    CompileOld,
    /// get a handle from the newest / oldest living package
    GetNew,
    GetOld,
    /// clone the oldest handle
    CloneHandle,
    DropOldHandle,
    DropNewHandle,
    /// call the oldest handle on a helper thread and drop it there
    ThreadDropHandle,
    DropOldPackage,
    DropNewPackage,
    DropOldRuntime,
    DropNewRuntime,
    /// turn the oldest / newest handle into an `into_func()` closure
    IntoFuncOld,
    IntoFuncNew,
    DropOldClosure,
    DropNewClosure,
    /// call the oldest closure on a helper thread and drop it there
    ThreadDropClosure,
    /// collect the test cases of the newest package (`get_tests().collect()`): one more
    /// kind of object that must keep the module alive
    CollectTests,
    DropOldTests,
}

const OPS: [Op; 20] = [
    Op::NewRuntime,
    Op::Compile,
    Op::CompileOld,
    Op::GetNew,
    Op::GetOld,
    Op::CloneHandle,
    Op::DropOldHandle,
    Op::DropNewHandle,
    Op::ThreadDropHandle,
    Op::DropOldPackage,
    Op::DropNewPackage,
    Op::DropOldRuntime,
    Op::DropNewRuntime,
    Op::IntoFuncOld,
    Op::IntoFuncNew,
    Op::DropOldClosure,
    Op::DropNewClosure,
    Op::ThreadDropClosure,
    Op::CollectTests,
    Op::DropOldTests,
];

const START: [Op; 3] = [Op::NewRuntime, Op::Compile, Op::GetNew];

const RC_TAG: i64 = 10_000;
const CAP_TAG: i64 = 20_000;
const CAP2_TAG: i64 = 25_000;
const SINK_TAG: i64 = 27_000;
const SC_TAG: i64 = 30_000;

/// scale of the mode argument (plain worlds) / of the value `keep` or `forget` returned
/// (scenario worlds) in the result of `f`
const ARG_SCALE: i64 = 1_000_000_000_000;

// ---------------------------------------------------------------------------
// the ownership model (pure data: no API object is touched here)
// ---------------------------------------------------------------------------

/// (package id, runtime id) of a handle, closure or package
type Owner = (usize, usize);

#[derive(Clone, Debug)]
struct Model {
    /// scenario world: the runtime has `keep`/`forget` closures whose state stores the
    /// lists the script makes; one package per runtime
    sink: bool,
    rts: Vec<usize>,
    pkgs: Vec<Owner>,
    hs: Vec<Owner>,
    cs: Vec<Owner>,
    /// collected test-case sets
    ts: Vec<Owner>,
    next_rt: usize,
    next_pkg: usize,
    cur_rt: Option<usize>,
    /// runtimes that have had a package compiled
    compiled_on: Vec<usize>,
    /// per runtime: the value of every list the closure state holds
    stored: BTreeMap<usize, Vec<i64>>,
    calls: u64,
}

/// the strings of the list `f(mode)` of package `pkg_id` hands to `keep`
fn list_strings(pkg_id: usize, mode: i64) -> Vec<String> {
    let p = format!("p{pkg_id}");
    match mode {
        1 => vec![p],
        2 => vec![p, "bc".to_string()],
        _ => vec![format!("x{p}y"), "bc".to_string(), "def".to_string()],
    }
}

fn string_value(s: &str) -> i64 {
    s.len() as i64 * 8 + (s.as_bytes().first().copied().unwrap_or(0) % 8) as i64
}

fn list_value<'a>(strs: impl Iterator<Item = &'a str>) -> i64 {
    100 + strs.map(string_value).sum::<i64>()
}

fn base_result(pkg_id: usize, rt_id: usize) -> i64 {
    (SC_TAG + pkg_id as i64) * 1_000_000 + (RC_TAG + rt_id as i64) * 10 + (CAP_TAG + rt_id as i64) % 10 + ((CAP2_TAG + rt_id as i64) % 10) * 100_000_000_000
}

impl Model {
    fn new(sink: bool) -> Model {
        Model {
            sink,
            rts: Vec::new(),
            pkgs: Vec::new(),
            hs: Vec::new(),
            cs: Vec::new(),
            ts: Vec::new(),
            next_rt: 0,
            next_pkg: 0,
            cur_rt: None,
            compiled_on: Vec::new(),
            stored: BTreeMap::new(),
            calls: 0,
        }
    }

    fn may_compile_on(&self, rt: usize) -> bool {
        self.next_pkg < 4 && (!self.sink || !self.compiled_on.contains(&rt))
    }

    fn applicable(&self, op: Op) -> bool {
        match op {
            Op::NewRuntime => self.next_rt < 3,
            Op::Compile => self.cur_rt.is_some_and(|c| self.rts.contains(&c) && self.may_compile_on(c)),
            Op::CompileOld => self.rts.len() >= 2 && self.may_compile_on(self.rts[0]),
            Op::GetNew => !self.pkgs.is_empty(),
            Op::GetOld => self.pkgs.len() >= 2,
            Op::CloneHandle | Op::DropOldHandle | Op::ThreadDropHandle | Op::IntoFuncOld => !self.hs.is_empty(),
            Op::DropNewHandle | Op::IntoFuncNew => self.hs.len() >= 2,
            Op::DropOldPackage => !self.pkgs.is_empty(),
            Op::DropNewPackage => self.pkgs.len() >= 2,
            Op::DropOldRuntime => !self.rts.is_empty(),
            Op::DropNewRuntime => self.rts.len() >= 2,
            Op::DropOldClosure | Op::ThreadDropClosure => !self.cs.is_empty(),
            Op::DropNewClosure => self.cs.len() >= 2,
            // (not in scenario worlds: a test case cannot take the stored lists out)
            Op::CollectTests => !self.sink && !self.pkgs.is_empty() && self.ts.len() < 2,
            Op::DropOldTests => !self.ts.is_empty(),
        }
    }

    fn compile_target(&self, op: Op) -> usize {
        if op == Op::Compile { self.cur_rt.unwrap() } else { self.rts[0] }
    }

    fn step(&mut self, op: Op) {
        match op {
            Op::NewRuntime => {
                let id = self.next_rt;
                self.next_rt += 1;
                self.rts.push(id);
                self.cur_rt = Some(id);
            }
            Op::Compile | Op::CompileOld => {
                let rt = self.compile_target(op);
                let id = self.next_pkg;
                self.next_pkg += 1;
                self.compiled_on.push(rt);
                self.pkgs.push((id, rt));
            }
            Op::GetNew => self.hs.push(*self.pkgs.last().unwrap()),
            Op::GetOld => self.hs.push(self.pkgs[0]),
            Op::CloneHandle => self.hs.push(self.hs[0]),
            Op::DropOldHandle | Op::ThreadDropHandle => {
                self.hs.remove(0);
            }
            Op::DropNewHandle => {
                self.hs.pop();
            }
            Op::DropOldPackage => {
                self.pkgs.remove(0);
            }
            Op::DropNewPackage => {
                self.pkgs.pop();
            }
            Op::DropOldRuntime => {
                self.rts.remove(0);
            }
            Op::DropNewRuntime => {
                self.rts.pop();
            }
            Op::IntoFuncOld => {
                let h = self.hs.remove(0);
                self.cs.push(h);
            }
            Op::IntoFuncNew => {
                let h = self.hs.pop().unwrap();
                self.cs.push(h);
            }
            Op::DropOldClosure | Op::ThreadDropClosure => {
                self.cs.remove(0);
            }
            Op::DropNewClosure => {
                self.cs.pop();
            }
            Op::CollectTests => self.ts.push(*self.pkgs.last().unwrap()),
            Op::DropOldTests => {
                self.ts.remove(0);
            }
        }
        // closure state nobody owns any more is gone
        let alive = self.state_owners();
        self.stored.retain(|rt, _| alive.contains(rt));
    }

    /// runtimes whose registered constants and closure state somebody still owns
    fn state_owners(&self) -> Vec<usize> {
        let mut v: Vec<usize> = self.rts.clone();
        v.extend(self.pkgs.iter().map(|p| p.1));
        v.extend(self.hs.iter().map(|h| h.1));
        v.extend(self.cs.iter().map(|c| c.1));
        v.extend(self.ts.iter().map(|c| c.1));
        v.sort();
        v.dedup();
        v
    }

    /// packages whose machine code and script constants somebody still owns
    fn module_owners(&self) -> Vec<usize> {
        let mut v: Vec<usize> = self.pkgs.iter().map(|p| p.0).collect();
        v.extend(self.hs.iter().map(|h| h.0));
        v.extend(self.cs.iter().map(|c| c.0));
        v.extend(self.ts.iter().map(|c| c.0));
        v.sort();
        v.dedup();
        v
    }

    fn owner_count(&self, pkg: usize) -> usize {
        self.pkgs.iter().chain(self.hs.iter()).chain(self.cs.iter()).chain(self.ts.iter()).filter(|o| o.0 == pkg).count()
    }

    /// the object `op` drops, if it is a package, handle or closure
    fn dropped_owner(&self, op: Op) -> Option<Owner> {
        match op {
            Op::DropOldHandle | Op::ThreadDropHandle => self.hs.first().copied(),
            Op::DropNewHandle => self.hs.last().copied(),
            Op::DropOldPackage => self.pkgs.first().copied(),
            Op::DropNewPackage => self.pkgs.last().copied(),
            Op::DropOldClosure | Op::ThreadDropClosure => self.cs.first().copied(),
            Op::DropNewClosure => self.cs.last().copied(),
            Op::DropOldTests => self.ts.first().copied(),
            _ => None,
        }
    }

    /// Scenario worlds: `op` drops the last owner of a package's machine code while the
    /// closure state (owned by the runtime object as well) would survive it. Lists made by
    /// that code must not outlive it (documented limit of the list type, not C11's
    /// business), so they are taken out of the state through that last owner first.
    fn must_forget_before(&self, op: Op) -> Option<Owner> {
        if !self.sink {
            return None;
        }
        let o = self.dropped_owner(op)?;
        (self.owner_count(o.0) == 1 && self.rts.contains(&o.1)).then_some(o)
    }

    /// expected multiset of live tags
    fn expected_live(&self) -> BTreeMap<i64, usize> {
        let mut m = BTreeMap::new();
        for r in self.state_owners() {
            *m.entry(RC_TAG + r as i64).or_insert(0) += 1;
            *m.entry(CAP_TAG + r as i64).or_insert(0) += 1;
            *m.entry(CAP2_TAG + r as i64).or_insert(0) += 1;
            if self.sink {
                *m.entry(SINK_TAG + r as i64).or_insert(0) += 1;
            }
        }
        for p in self.module_owners() {
            *m.entry(SC_TAG + p as i64).or_insert(0) += 1;
        }
        m
    }

    /// the argument of the next call of a handle or closure
    fn next_mode(&mut self) -> i64 {
        self.calls += 1;
        if self.sink { 1 + (self.calls % 3) as i64 } else { (self.calls % 7) as i64 }
    }

    /// what `f(mode)` of that package returns now (and what it does to the closure state)
    fn expect_call(&mut self, o: Owner, mode: i64) -> i64 {
        let base = base_result(o.0, o.1);
        if !self.sink {
            return base + mode * ARG_SCALE;
        }
        let st = self.stored.entry(o.1).or_default();
        if mode == 0 {
            let n = st.len() as i64;
            st.clear();
            base + n * ARG_SCALE
        } else {
            let strs = list_strings(o.0, mode);
            st.push(list_value(strs.iter().map(|s| s.as_str())));
            base + st.iter().sum::<i64>() * ARG_SCALE
        }
    }
}

// ---------------------------------------------------------------------------
// the real objects
// ---------------------------------------------------------------------------

/// Every closure this returns has the same Rust type (and the same monomorphised
/// call shim); they differ only in the state they capture.
fn capture_fn(name: &'static str, cap: Arc<Trk>) -> roto::Function {
    roto::Function::new(
        name,
        "a registered closure that captures a tracked value",
        vec![],
        move || -> i64 {
            cap.check("captured");
            cap.tag
        },
        roto::location!(),
    )
    .expect("closure item")
}

/// State captured by the `keep` / `forget` closures of a scenario runtime.
struct Sink {
    trk: Trk,
    lists: Mutex<Vec<List<RotoString>>>,
}

fn keep_fn(s: Arc<Sink>) -> roto::Function {
    roto::Function::new(
        "keep",
        "store the list in the captured state; returns the value of everything stored",
        vec!["l"],
        move |l: List<RotoString>| -> i64 {
            s.trk.check("keep");
            let mut g = s.lists.lock().unwrap_or_else(|e| e.into_inner());
            g.push(l);
            g.iter().map(|l| list_value(l.to_vec().iter().map(|x| &**x))).sum()
        },
        roto::location!(),
    )
    .expect("keep item")
}

fn forget_fn(s: Arc<Sink>) -> roto::Function {
    roto::Function::new(
        "forget",
        "drop every stored list; returns how many there were",
        vec![],
        move || -> i64 {
            s.trk.check("forget");
            let mut g = s.lists.lock().unwrap_or_else(|e| e.into_inner());
            let n = g.len() as i64;
            g.clear();
            n
        },
        roto::location!(),
    )
    .expect("forget item")
}

/// Live `Lease` tokens: the captured state of the closure `lease_ok`, which is ZERO-SIZED but
/// has a destructor (a guard / registration token). Like every closure capture it belongs to the
/// runtime and to every module compiled from it.
static LEASES: std::sync::atomic::AtomicI64 = std::sync::atomic::AtomicI64::new(0);

struct Lease;

impl Lease {
    fn new() -> Lease {
        LEASES.fetch_add(1, std::sync::atomic::Ordering::SeqCst);
        Lease
    }
}

impl Drop for Lease {
    fn drop(&mut self) {
        LEASES.fetch_sub(1, std::sync::atomic::Ordering::SeqCst);
    }
}

fn lease_fn() -> roto::Function {
    let lease = Lease::new();
    roto::Function::new(
        "lease_ok",
        "a registered closure whose captured state is a zero-sized token with a destructor",
        vec![],
        move || -> i64 {
            let _held: &Lease = &lease;
            // the token must not have been released while somebody can still call this
            if LEASES.load(std::sync::atomic::Ordering::SeqCst) > 0 { 0 } else { 1 }
        },
        roto::location!(),
    )
    .expect("lease_ok item")
}

fn make_runtime(id: usize, sink: bool) -> Runtime<NoCtx> {
    let cap = Arc::new(Trk::new(CAP_TAG + id as i64));
    let cap2 = Arc::new(Trk::new(CAP2_TAG + id as i64));
    let rc = Trk::new(RC_TAG + id as i64);
    let lib = library! {
        /// drop-tracked type
        #[clone] type Trk = Val<Trk>;
        fn mk(tag: i64) -> Val<Trk> {
            Val(Trk::new(tag))
        }
        impl Val<Trk> {
            fn tag(self) -> i64 {
                self.check("tag");
                self.tag
            }
        }
        /// zero-sized drop-tracked type (only counted: it has no fields)
        #[clone] type Guard = Val<host::TrkZ>;
        fn mkz() -> Val<host::TrkZ> {
            Val(host::TrkZ::new())
        }
        /// a registered constant that owns a tracked value
        const RC: Val<Trk> = Val(rc);
    };
    let mut rt = Runtime::from_lib(lib).expect("lifetimes runtime");
    // two closures of the same Rust type, each with its own captured state
    rt.add(capture_fn("cap_tag", cap)).expect("cap_tag");
    rt.add(capture_fn("cap2_tag", cap2)).expect("cap2_tag");
    rt.add(lease_fn()).expect("lease_ok");
    if sink {
        let s = Arc::new(Sink { trk: Trk::new(SINK_TAG + id as i64), lists: Mutex::new(Vec::new()) });
        rt.add(keep_fn(s.clone())).expect("keep");
        rt.add(forget_fn(s)).expect("forget");
    }
    rt
}

fn script(pkg_id: usize, sink: bool) -> String {
    let t = SC_TAG + pkg_id as i64;
    let base = "SC.tag() * 1000000 + RC.tag() * 10 + cap_tag() % 10 + (cap2_tag() % 10) * 100000000000 + N * 0 + lease_ok() * 7777";
    if !sink {
        // ZG: a script constant of a zero-sized drop-tracked type. It is never read (compiled
        // code neither clones nor drops zero-sized values: a known finding of C03); creating it
        // at compile time and releasing it with the module is what is observed.
        // The test blocks accept iff constants and captured state are what this package's are.
        return format!(
            "const SC: Trk = mk({t});\nconst N: i64 = {pkg_id};\nconst ZG: Guard = mkz();\nfn f(mode: i64) -> i64 {{\n    {base} + mode * {ARG_SCALE}\n}}\n\n\
             test constants_are_unchanged {{\n    if SC.tag() == {t} && N == {pkg_id} && RC.tag() - {RC_TAG} == cap_tag() - {CAP_TAG} {{\n        accept\n    }}\n    reject\n}}\n\n\
             test second {{\n    if cap2_tag() - {CAP2_TAG} == cap_tag() - {CAP_TAG} {{\n        accept\n    }}\n    reject\n}}\n"
        );
    }
    // the lists are built by the script itself: literals and strings it concatenates
    format!(
        "const SC: Trk = mk({t});\nconst N: i64 = {pkg_id};\nfn f(mode: i64) -> i64 {{\n    let k = if mode == 0 {{\n        forget()\n    }} else if mode == 1 {{\n        keep([\"p{pkg_id}\"])\n    }} else if mode == 2 {{\n        keep([\"p\" + \"{pkg_id}\", \"b\" + \"c\"])\n    }} else {{\n        keep([\"x\" + \"p{pkg_id}\" + \"y\", \"bc\", \"d\" + \"e\" + \"f\"])\n    }};\n    {base} + k * {ARG_SCALE}\n}}\n"
    )
}

struct World {
    m: Model,
    rts: Vec<Runtime<NoCtx>>,
    pkgs: Vec<Package<NoCtx>>,
    hs: Vec<Handle>,
    cs: Vec<Callable>,
    /// collected test cases, each behind a closure that runs it: (name, accepted)
    ts: Vec<Vec<Box<dyn Fn() -> (String, bool)>>>,
    tags: Vec<String>,
}

type Fail = (String, String);

impl World {
    fn new(sink: bool) -> World {
        World { m: Model::new(sink), rts: Vec::new(), pkgs: Vec::new(), hs: Vec::new(), cs: Vec::new(), ts: Vec::new(), tags: Vec::new() }
    }

    fn wrong(op: Op, what: &str, o: Owner, got: i64, exp: i64) -> Fail {
        let kind = if what.contains("closure") { ":into_func-closure" } else { "" };
        (
            format!("lifetimes:wrong-result-after@{op:?}{kind}"),
            format!("{what} of package {} (runtime {}) returned {got}, expected {exp}", o.0, o.1),
        )
    }

    /// Performs the operation on the real objects and on the model.
    fn apply(&mut self, op: Op) -> Result<(), Fail> {
        let fail = |e: String| (format!("lifetimes:op-failed@{op:?}"), e);
        let forget = self.m.must_forget_before(op);
        if forget.is_some() {
            self.tags.push("scenario:lists-taken-out-before-last-owner".into());
        }
        match op {
            Op::NewRuntime => {
                self.rts.push(make_runtime(self.m.next_rt, self.m.sink));
            }
            Op::Compile | Op::CompileOld => {
                let rt_id = self.m.compile_target(op);
                let i = self.m.rts.iter().position(|r| *r == rt_id).unwrap();
                let src = script(self.m.next_pkg, self.m.sink);
                let pkg = FileTree::test_file("v.roto", &src, 0).compile(&self.rts[i]).map_err(|e| {
                    let mut s = String::new();
                    let _ = e.write(&mut s, false);
                    fail(format!("compile failed: {s}"))
                })?;
                self.pkgs.push(pkg);
            }
            Op::GetNew | Op::GetOld => {
                let i = if op == Op::GetNew { self.pkgs.len() - 1 } else { 0 };
                let f = self.pkgs[i].get_function::<fn(i64) -> i64>("f").map_err(|e| fail(format!("get_function: {e}")))?;
                self.hs.push(f);
            }
            Op::CloneHandle => {
                let c = self.hs[0].clone();
                self.hs.push(c);
            }
            Op::DropOldHandle | Op::DropNewHandle => {
                let h = if op == Op::DropOldHandle { self.hs.remove(0) } else { self.hs.pop().unwrap() };
                if let Some(o) = forget {
                    let (got, exp) = (h.call(0), self.m.expect_call(o, 0));
                    if got != exp {
                        return Err(World::wrong(op, "the last handle (taking the lists out)", o, got, exp));
                    }
                }
                drop(h);
            }
            Op::ThreadDropHandle => {
                let h = self.hs.remove(0);
                let o = self.m.hs[0];
                let mode = self.m.next_mode();
                let exp = self.m.expect_call(o, mode);
                let exp0 = forget.map(|o| self.m.expect_call(o, 0));
                let (got, got0) = std::thread::spawn(move || {
                    // call on the other thread, then drop there
                    let v = h.call_tuple(&mut NoCtx, (mode,));
                    let v0 = exp0.map(|_| h.call(0));
                    drop(h);
                    (v, v0)
                })
                .join()
                .map_err(|_| fail("helper thread panicked".to_string()))?;
                if got != exp {
                    return Err(World::wrong(op, "handle called on a helper thread", o, got, exp));
                }
                if got0 != exp0 {
                    return Err(World::wrong(op, "the last handle (taking the lists out on a helper thread)", o, got0.unwrap_or(0), exp0.unwrap_or(0)));
                }
            }
            Op::DropOldPackage | Op::DropNewPackage => {
                let mut p = if op == Op::DropOldPackage { self.pkgs.remove(0) } else { self.pkgs.pop().unwrap() };
                if let Some(o) = forget {
                    let h = p.get_function::<fn(i64) -> i64>("f").map_err(|e| fail(format!("get_function: {e}")))?;
                    let (got, exp) = (h.call(0), self.m.expect_call(o, 0));
                    drop(h);
                    if got != exp {
                        return Err(World::wrong(op, "a handle of the last package (taking the lists out)", o, got, exp));
                    }
                }
                drop(p);
            }
            Op::DropOldRuntime => {
                self.rts.remove(0);
            }
            Op::DropNewRuntime => {
                self.rts.pop();
            }
            Op::IntoFuncOld | Op::IntoFuncNew => {
                let h = if op == Op::IntoFuncOld { self.hs.remove(0) } else { self.hs.pop().unwrap() };
                let c = into_callable(h);
                self.tags.push(format!("closure-send-sync:{}", matches!(c, Callable::Sendable(_))));
                self.cs.push(c);
            }
            Op::DropOldClosure | Op::DropNewClosure => {
                let c = if op == Op::DropOldClosure { self.cs.remove(0) } else { self.cs.pop().unwrap() };
                if let Some(o) = forget {
                    let (got, exp) = (c.call(0), self.m.expect_call(o, 0));
                    if got != exp {
                        return Err(World::wrong(op, "the last closure (taking the lists out)", o, got, exp));
                    }
                }
                drop(c);
            }
            Op::ThreadDropClosure => {
                let c = self.cs.remove(0);
                let o = self.m.cs[0];
                let mode = self.m.next_mode();
                let exp = self.m.expect_call(o, mode);
                let exp0 = forget.map(|o| self.m.expect_call(o, 0));
                let (got, got0) = match c {
                    Callable::Sendable(f) => {
                        self.tags.push("closure-thread:moved".into());
                        std::thread::spawn(move || {
                            let v = f(mode);
                            let v0 = exp0.map(|_| f(0));
                            drop(f);
                            (v, v0)
                        })
                        .join()
                        .map_err(|_| fail("helper thread panicked".to_string()))?
                    }
                    // the compiler does not let this closure type cross threads
                    Callable::Local(f) => {
                        self.tags.push("closure-thread:not-sendable".into());
                        let v = f(mode);
                        let v0 = exp0.map(|_| f(0));
                        drop(f);
                        (v, v0)
                    }
                };
                if got != exp {
                    return Err(World::wrong(op, "closure called on a helper thread", o, got, exp));
                }
                if got0 != exp0 {
                    return Err(World::wrong(op, "the last closure (taking the lists out on a helper thread)", o, got0.unwrap_or(0), exp0.unwrap_or(0)));
                }
            }
            Op::CollectTests => {
                let i = self.pkgs.len() - 1;
                let tests: Vec<Box<dyn Fn() -> (String, bool)>> = self.pkgs[i]
                    .get_tests()
                    .map(|t| Box::new(move || (t.name().to_string(), t.run(&mut NoCtx).is_ok())) as Box<dyn Fn() -> (String, bool)>)
                    .collect();
                if tests.len() != 2 {
                    return Err((format!("lifetimes:test-cases-missing@{op:?}"), format!("get_tests yields {} test cases, the script has 2", tests.len())));
                }
                self.ts.push(tests);
            }
            Op::DropOldTests => {
                self.ts.remove(0);
            }
        }
        self.m.step(op);
        Ok(())
    }

    /// the accounting of tracked instances against the ownership model
    fn check_ledger(&self, op: Op) -> Result<(), Fail> {
        let rep = host::ledger_report();
        if let Some(a) = rep.alarms.first() {
            return Err((format!("lifetimes:ledger-{}@{op:?}", a.kind), format!("{} {}", a.kind, a.info)));
        }
        // zero-sized script constants: one per module somebody still owns (plain worlds)
        if !self.m.sink {
            let z = host::Z_LIVE.load(std::sync::atomic::Ordering::SeqCst);
            let ez = self.m.module_owners().len() as i64;
            if z != ez {
                let kind = if z < ez { "released-too-early" } else { "not-released" };
                return Err((
                    format!("lifetimes:{kind}:zero-sized-script-constant@{op:?}"),
                    format!("{z} zero-sized script constants are live, the ownership model expects {ez} (one per module that is still owned)"),
                ));
            }
        }
        let live = live_tags();
        let exp = self.m.expected_live();
        // zero-sized closure state: one token per runtime whose closures somebody still owns
        let leases = LEASES.load(std::sync::atomic::Ordering::SeqCst);
        let exp_leases = exp.keys().filter(|t| (CAP_TAG..CAP2_TAG).contains(*t)).count() as i64;
        if leases != exp_leases {
            let kind = if leases < exp_leases { "released-too-early" } else { "not-released" };
            return Err((
                format!("lifetimes:{kind}:zero-sized-closure-state@{op:?}"),
                format!("{leases} zero-sized closure tokens are live, the ownership model expects {exp_leases} (one per runtime whose closures are still owned)"),
            ));
        }
        if live != exp {
            let early: Vec<i64> = exp.keys().filter(|t| !live.contains_key(t)).copied().collect();
            let late: Vec<i64> = live.keys().filter(|t| !exp.contains_key(t)).copied().collect();
            let kind = if !early.is_empty() { "released-too-early" } else if !late.is_empty() { "not-released" } else { "wrong-count" };
            let class = |t: i64| {
                if t >= SC_TAG {
                    "script-constant"
                } else if t >= SINK_TAG {
                    "closure-state-with-script-lists"
                } else if t >= CAP_TAG {
                    "closure-capture"
                } else {
                    "registered-constant"
                }
            };
            let what = early.first().or(late.first()).map(|t| class(*t)).unwrap_or("instance");
            return Err((format!("lifetimes:{kind}:{what}@{op:?}"), format!("live tracked tags {live:?}, ownership model expects {exp:?}")));
        }
        Ok(())
    }

    /// every surviving handle (through `call` and `call_tuple`) and closure returns its own value
    fn call_all(&mut self, op: Op, events: &mut u64) -> Result<(), Fail> {
        for i in 0..self.hs.len() {
            let o = self.m.hs[i];
            let mode = self.m.next_mode();
            let exp = self.m.expect_call(o, mode);
            let got = self.hs[i].call(mode);
            *events += 1;
            if got != exp {
                return Err(World::wrong(op, "handle", o, got, exp));
            }
            let mode = self.m.next_mode();
            let exp = self.m.expect_call(o, mode);
            let got = self.hs[i].call_tuple(&mut NoCtx, (mode,));
            *events += 1;
            if got != exp {
                return Err(World::wrong(op, "handle (call_tuple)", o, got, exp));
            }
        }
        for i in 0..self.cs.len() {
            let o = self.m.cs[i];
            let mode = self.m.next_mode();
            let exp = self.m.expect_call(o, mode);
            let got = self.cs[i].call(mode);
            *events += 1;
            if got != exp {
                return Err(World::wrong(op, "into_func closure", o, got, exp));
            }
        }
        // every collected test case still runs and still accepts
        for (i, set) in self.ts.iter().enumerate() {
            let o = self.m.ts[i];
            for t in set {
                *events += 1;
                let (name, accepted) = t();
                if !accepted {
                    return Err((
                        format!("lifetimes:wrong-result-after@{op:?}:collected-test-case"),
                        format!("test case `{name}` of package {} (runtime {}) rejects: its constants or captured state changed", o.0, o.1),
                    ));
                }
            }
        }
        Ok(())
    }
}

// ---------------------------------------------------------------------------
// case plans
// ---------------------------------------------------------------------------

#[derive(Clone)]
struct Plan {
    sink: bool,
    kind: &'static str,
    ops: Vec<Op>,
}

pub struct Lifetimes {
    /// scenario `closure-holds-script-list`: every drop order of every shape
    scenario: Vec<Vec<Op>>,
    /// all well-formed histories up to the exhaustive length (as op index lists)
    histories: Vec<Vec<u8>>,
    /// multiplier and offset of the order in which the histories are visited
    stride: (u64, u64),
}

fn start_model(sink: bool) -> Model {
    let mut m = Model::new(sink);
    for op in START {
        m.step(op);
    }
    m
}

fn enumerate(max_len: usize) -> Vec<Vec<u8>> {
    // applicability is decided by the model alone, so histories can be
    // enumerated without touching the real API
    let mut out = Vec::new();
    fn rec(m: &Model, cur: &mut Vec<u8>, max_len: usize, out: &mut Vec<Vec<u8>>) {
        if !cur.is_empty() {
            out.push(cur.clone());
        }
        if cur.len() == max_len {
            return;
        }
        for (i, op) in OPS.iter().enumerate() {
            if m.applicable(*op) {
                let mut n = m.clone();
                n.step(*op);
                cur.push(i as u8);
                rec(&n, cur, max_len, out);
                cur.pop();
            }
        }
    }
    // start state: one runtime, one package, one handle already exist
    rec(&start_model(false), &mut Vec::new(), max_len, &mut out);
    out
}

fn permutations(n: usize) -> Vec<Vec<usize>> {
    fn rec(rest: &mut Vec<usize>, cur: &mut Vec<usize>, out: &mut Vec<Vec<usize>>) {
        if rest.is_empty() {
            out.push(cur.clone());
            return;
        }
        for i in 0..rest.len() {
            let x = rest.remove(i);
            cur.push(x);
            rec(rest, cur, out);
            cur.pop();
            rest.insert(i, x);
        }
    }
    let mut out = Vec::new();
    rec(&mut (0..n).collect(), &mut Vec::new(), &mut out);
    out
}

/// Scenario `closure-holds-script-list`: one runtime, one package; a shape says which
/// handles, clones and closures exist; then all of them, the package and the runtime are
/// dropped in every order, each order once on this thread only and once with the oldest
/// handle / closure dropped on a helper thread.
fn enumerate_scenario() -> Vec<Vec<Op>> {
    let shapes: [&[Op]; 6] = [
        &[],
        &[Op::CloneHandle],
        &[Op::IntoFuncOld],
        &[Op::CloneHandle, Op::IntoFuncNew],
        &[Op::CloneHandle, Op::CloneHandle, Op::IntoFuncNew],
        &[Op::CloneHandle, Op::IntoFuncOld, Op::IntoFuncOld],
    ];
    #[derive(Clone, Copy, PartialEq)]
    enum Obj {
        R,
        P,
        H(usize),
        C(usize),
    }
    let mut out = Vec::new();
    for shape in shapes {
        let mut m = start_model(true);
        for op in shape {
            assert!(m.applicable(*op));
            m.step(*op);
        }
        let mut objs = vec![Obj::R, Obj::P];
        objs.extend((0..m.hs.len()).map(Obj::H));
        objs.extend((0..m.cs.len()).map(Obj::C));
        for perm in permutations(objs.len()) {
            for threaded in [false, true] {
                let mut ops: Vec<Op> = shape.to_vec();
                let mut hs: Vec<usize> = (0..m.hs.len()).collect();
                let mut cs: Vec<usize> = (0..m.cs.len()).collect();
                for i in &perm {
                    ops.push(match objs[*i] {
                        Obj::R => Op::DropOldRuntime,
                        Obj::P => Op::DropOldPackage,
                        Obj::H(x) => {
                            let pos = hs.iter().position(|y| *y == x).unwrap();
                            hs.remove(pos);
                            if pos > 0 {
                                Op::DropNewHandle
                            } else if threaded {
                                Op::ThreadDropHandle
                            } else {
                                Op::DropOldHandle
                            }
                        }
                        Obj::C(x) => {
                            let pos = cs.iter().position(|y| *y == x).unwrap();
                            cs.remove(pos);
                            if pos > 0 {
                                Op::DropNewClosure
                            } else if threaded {
                                Op::ThreadDropClosure
                            } else {
                                Op::DropOldClosure
                            }
                        }
                    });
                }
                out.push(ops);
            }
        }
    }
    out
}

fn gcd(a: u64, b: u64) -> u64 {
    if b == 0 { a } else { gcd(b, a % b) }
}

impl Lifetimes {
    pub fn new(args: &Args) -> Lifetimes {
        let len = args.opt("exhaustive-len").and_then(|s| s.parse().ok()).unwrap_or(if args.thorough() { 6 } else { 4 });
        let histories = enumerate(len);
        let n = histories.len().max(1) as u64;
        // a step near n / golden ratio that is coprime to n: consecutive cases are far apart
        let mut step = (n as f64 * 0.618_033_988_75) as u64 | 1;
        while gcd(step, n) != 1 {
            step += 2;
        }
        Lifetimes { scenario: enumerate_scenario(), histories, stride: (step % n, args.seed.wrapping_mul(7919) % n) }
    }

    /// The history of case `k` (decided on the model alone).
    fn plan(&self, k: u64, rng: &mut Rng) -> Plan {
        let (s, h) = (self.scenario.len() as u64, self.histories.len() as u64);
        if k < s {
            return Plan { sink: true, kind: "enumerated", ops: self.scenario[k as usize].clone() };
        }
        if k < s + h {
            let i = ((k - s) as u128 * self.stride.0 as u128 + self.stride.1 as u128) % h as u128;
            return Plan { sink: false, kind: "enumerated", ops: self.histories[i as usize].iter().map(|i| OPS[*i as usize]).collect() };
        }
        let sink = (k - s - h) % 3 == 2;
        let mut m = start_model(sink);
        let n = 8 + rng.usize(53);
        let mut ops = Vec::new();
        for _ in 0..n {
            let apps: Vec<Op> = OPS.iter().copied().filter(|o| m.applicable(*o)).collect();
            if apps.is_empty() {
                break;
            }
            let op = apps[rng.usize(apps.len())];
            m.step(op);
            ops.push(op);
        }
        Plan { sink, kind: "random", ops }
    }
}

fn live_tags() -> BTreeMap<i64, usize> {
    let rep = host::ledger_report();
    let mut m = BTreeMap::new();
    for (_, tag) in rep.live {
        *m.entry(tag).or_insert(0) += 1;
    }
    m
}

fn plan_json(p: &Plan) -> J {
    let mut j = J::obj()
        .set("start", J::Arr(START.iter().map(|o| J::Str(format!("{o:?}"))).collect()))
        .set("history", J::Arr(p.ops.iter().map(|o| J::Str(format!("{o:?}"))).collect()))
        .set("kind", p.kind);
    if p.sink {
        j.put("scenario", "closure-holds-script-list");
        j.put("script", script(0, true));
    }
    j
}

impl Family for Lifetimes {
    fn n_cases(&self, args: &Args) -> u64 {
        (self.scenario.len() + self.histories.len()) as u64 + if args.thorough() { 20_000 } else { 1_500 }
    }

    fn describe(&mut self, k: u64, rng: &mut Rng, _args: &Args) -> Option<J> {
        let p = self.plan(k, rng);
        let mut j = plan_json(&p);
        if p.sink {
            j.put("sig_hint", "lifetimes:scenario:closure-holds-script-list");
        }
        Some(j)
    }

    fn run(&mut self, k: u64, rng: &mut Rng, _args: &Args) -> CaseOut {
        let mut out = CaseOut::default();
        let plan = self.plan(k, rng);
        out.tags.push(format!("history:{}", plan.kind));
        if plan.sink {
            out.tags.push("scenario:closure-holds-script-list".into());
        }
        host::ledger_reset();
        LEASES.store(0, std::sync::atomic::Ordering::SeqCst);
        let mut w = World::new(plan.sink);
        let mut trace: Vec<String> = Vec::new();
        let mut ops_done = 0u64;
        let mut events = 0u64;
        let r = catch(|| -> Result<(), Fail> {
            // seeded start state: one runtime, one package, one handle
            for op in START {
                w.apply(op).map_err(|(_, e)| ("lifetimes:setup".to_string(), e))?;
            }
            for (step, op) in plan.ops.iter().copied().enumerate() {
                if !w.m.applicable(op) {
                    return Err(("lifetimes:harness-plan".into(), format!("{op:?} not applicable at step {step}")));
                }
                trace.push(format!("{op:?}"));
                if plan.sink && matches!(op, Op::DropOldRuntime | Op::DropNewRuntime) {
                    let r = if op == Op::DropOldRuntime { w.m.rts[0] } else { *w.m.rts.last().unwrap() };
                    let owned = w.m.pkgs.iter().chain(w.m.hs.iter()).chain(w.m.cs.iter()).any(|o| o.1 == r);
                    out.tags.push(format!("scenario:runtime-dropped-{}", if owned { "before-last-owner" } else { "last" }));
                }
                if plan.sink
                    && let Some(o) = w.m.dropped_owner(op)
                    && w.m.owner_count(o.0) == 1
                    && !w.m.rts.contains(&o.1)
                {
                    let n = w.m.stored.get(&o.1).map(|v| v.len()).unwrap_or(0);
                    out.tags.push(format!("scenario:last-owner-releases-state-holding-lists:{}", if n == 0 { "0" } else { "some" }));
                    out.tags.push(format!("scenario:last-owner-dropped-by:{op:?}"));
                }
                w.apply(op)?;
                ops_done += 1;
                // 1. accounting: the live set is what the ownership model says (before anything is called)
                w.check_ledger(op)?;
                events += 1;
                // 2. every surviving handle and closure still returns its own value
                w.call_all(op, &mut events)?;
                // 3. the calls found everything they touched alive
                w.check_ledger(op)?;
                events += 1;
            }
            Ok(())
        });
        out.tags.extend(trace.iter().map(|t| format!("op:{t}")));
        out.tags.append(&mut w.tags);
        out.tags.sort();
        out.tags.dedup();
        out.evals = ops_done;
        out.events = events;
        out.nontrivial = ops_done > 0;
        out.hash = hash_str(&format!("{}{trace:?}", plan.sink));
        out.sample = Some(plan_json(&plan));
        match r {
            Err(p) => out.viol(format!("{}@lifetimes", panic_sig(&p)), format!("{p} after {trace:?}"), J::Null),
            Ok(Err((sig, msg))) => out.viol(sig, format!("{msg} after {trace:?}"), J::Null),
            Ok(Ok(())) => {}
        }
        // Tear everything down: nothing may stay live and nothing may be dropped twice.
        if out.viols.is_empty() {
            // The runtime objects go first: from here on every closure state is owned by the
            // modules compiled from its runtime only (in a scenario world: by the one package
            // whose code made the lists it holds), and is released together with them.
            let r = catch(|| {
                w.rts.clear();
                drop(w);
            });
            if let Err(p) = r {
                out.viol(format!("{}@lifetimes-teardown", panic_sig(&p)), format!("{p} in the teardown after {trace:?}"), J::Null);
            }
        } else {
            // after a violation the state of the objects is unknown: they are not torn down
            std::mem::forget(w);
        }
        let rep = host::ledger_report();
        if out.viols.is_empty() {
            if let Some(a) = rep.alarms.first() {
                out.viol(format!("lifetimes:ledger-{}@teardown", a.kind), format!("{} {} after {trace:?}", a.kind, a.info), J::Null);
            } else if !rep.live.is_empty() {
                out.viol(
                    "lifetimes:not-released@teardown",
                    format!("after dropping every runtime, package, handle and closure {:?} are still live (history {trace:?})", live_tags()),
                    J::Null,
                );
            }
        }
        out
    }
}
