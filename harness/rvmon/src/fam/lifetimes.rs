//! C11: function handles keep alive exactly what they need.
//!
//! Histories of {new runtime, compile, get handle, clone handle, call, drop
//! handle / package / runtime, drop a handle on another thread} are executed
//! against the real API. After every step a small ownership model says which
//! drop-tracked instances (script constants, registered constants, state captured
//! by registered closures) must be live, and what every surviving handle returns.

use std::collections::BTreeMap;
use std::sync::Arc;

use roto::{FileTree, NoCtx, Package, Runtime, TypedFunc, Val, library};

use crate::host::{self, Trk};
use crate::jsonw::J;
use crate::rng::Rng;
use crate::work::{Args, CaseOut, Family, catch, hash_str, panic_sig};

type Handle = TypedFunc<NoCtx, fn() -> i64>;

#[derive(Clone, Copy, Debug, PartialEq, Eq, PartialOrd, Ord)]
enum Op {
    /// create another runtime and make it current
    NewRuntime,
    /// compile a fresh script version on the current runtime
    Compile,
    /// compile on the oldest living runtime
    CompileOld,
    /// get a handle from the newest / oldest living package
    GetNew,
    GetOld,
    /// clone the oldest handle
    CloneHandle,
    DropOldHandle,
    DropNewHandle,
    /// drop the oldest handle on a helper thread
    ThreadDropHandle,
    DropOldPackage,
    DropNewPackage,
    DropOldRuntime,
    DropNewRuntime,
}

const OPS: [Op; 13] = [
    Op::NewRuntime,
    Op::Compile,
    Op::CompileOld,
    Op::GetNew,
    Op::GetOld,
    Op::CloneHandle,
    Op::DropOldHandle,
    Op::DropNewHandle,
    Op::ThreadDropHandle,
    Op::DropOldPackage,
    Op::DropNewPackage,
    Op::DropOldRuntime,
    Op::DropNewRuntime,
];

struct RtObj {
    id: usize,
    rt: Runtime<NoCtx>,
}
struct PkgObj {
    id: usize,
    rt_id: usize,
    pkg: Package<NoCtx>,
}
struct HObj {
    pkg_id: usize,
    rt_id: usize,
    f: Handle,
}

const RC_TAG: i64 = 10_000;
const CAP_TAG: i64 = 20_000;
const CAP2_TAG: i64 = 25_000;
const SC_TAG: i64 = 30_000;

/// Every closure this returns has the same Rust type (and the same monomorphised
/// call shim); they differ only in the state they capture.
fn capture_fn(name: &'static str, cap: Arc<Trk>) -> roto::Function {
    roto::Function::new(
        name,
        "a registered closure that captures a tracked value",
        vec![],
        move || -> i64 {
            cap.check("captured");
            cap.tag
        },
        roto::location!(),
    )
    .expect("closure item")
}

fn make_runtime(id: usize) -> Runtime<NoCtx> {
    let cap = Arc::new(Trk::new(CAP_TAG + id as i64));
    let cap2 = Arc::new(Trk::new(CAP2_TAG + id as i64));
    let rc = Trk::new(RC_TAG + id as i64);
    let lib = library! {
        /// drop-tracked type
        #[clone] type Trk = Val<Trk>;
        fn mk(tag: i64) -> Val<Trk> {
            Val(Trk::new(tag))
        }
        impl Val<Trk> {
            fn tag(self) -> i64 {
                self.check("tag");
                self.tag
            }
        }
        /// a registered constant that owns a tracked value
        const RC: Val<Trk> = Val(rc);
    };
    let mut rt = Runtime::from_lib(lib).expect("lifetimes runtime");
    // two closures of the same Rust type, each with its own captured state
    rt.add(capture_fn("cap_tag", cap)).expect("cap_tag");
    rt.add(capture_fn("cap2_tag", cap2)).expect("cap2_tag");
    rt
}

fn script(pkg_id: usize) -> String {
    let t = SC_TAG + pkg_id as i64;
    format!(
        "const SC: Trk = mk({t});\nconst N: i64 = {pkg_id};\nfn f() -> i64 {{\n    SC.tag() * 1000000 + RC.tag() * 10 + cap_tag() % 10 + (cap2_tag() % 10) * 1000000000000 + N * 0\n}}\n"
    )
}

fn expected_result(pkg_id: usize, rt_id: usize) -> i64 {
    (SC_TAG + pkg_id as i64) * 1_000_000 + (RC_TAG + rt_id as i64) * 10 + (CAP_TAG + rt_id as i64) % 10 + ((CAP2_TAG + rt_id as i64) % 10) * 1_000_000_000_000
}

struct World {
    rts: Vec<RtObj>,
    pkgs: Vec<PkgObj>,
    hs: Vec<HObj>,
    next_rt: usize,
    next_pkg: usize,
    cur_rt: Option<usize>,
}

impl World {
    fn new() -> World {
        World { rts: Vec::new(), pkgs: Vec::new(), hs: Vec::new(), next_rt: 0, next_pkg: 0, cur_rt: None }
    }

    fn applicable(&self, op: Op) -> bool {
        match op {
            Op::NewRuntime => self.next_rt < 3,
            Op::Compile => self.cur_rt.is_some_and(|c| self.rts.iter().any(|r| r.id == c)) && self.next_pkg < 4,
            Op::CompileOld => self.rts.len() >= 2 && self.next_pkg < 4,
            Op::GetNew => !self.pkgs.is_empty(),
            Op::GetOld => self.pkgs.len() >= 2,
            Op::CloneHandle | Op::DropOldHandle | Op::ThreadDropHandle => !self.hs.is_empty(),
            Op::DropNewHandle => self.hs.len() >= 2,
            Op::DropOldPackage => !self.pkgs.is_empty(),
            Op::DropNewPackage => self.pkgs.len() >= 2,
            Op::DropOldRuntime => !self.rts.is_empty(),
            Op::DropNewRuntime => self.rts.len() >= 2,
        }
    }

    /// expected multiset of live tags
    fn expected_live(&self) -> BTreeMap<i64, usize> {
        let mut m = BTreeMap::new();
        let mut rt_alive: Vec<usize> = self.rts.iter().map(|r| r.id).collect();
        rt_alive.extend(self.pkgs.iter().map(|p| p.rt_id));
        rt_alive.extend(self.hs.iter().map(|h| h.rt_id));
        rt_alive.sort();
        rt_alive.dedup();
        for r in rt_alive {
            *m.entry(RC_TAG + r as i64).or_insert(0) += 1;
            *m.entry(CAP_TAG + r as i64).or_insert(0) += 1;
            *m.entry(CAP2_TAG + r as i64).or_insert(0) += 1;
        }
        let mut pk: Vec<usize> = self.pkgs.iter().map(|p| p.id).collect();
        pk.extend(self.hs.iter().map(|h| h.pkg_id));
        pk.sort();
        pk.dedup();
        for p in pk {
            *m.entry(SC_TAG + p as i64).or_insert(0) += 1;
        }
        m
    }

    fn apply(&mut self, op: Op) -> Result<(), String> {
        match op {
            Op::NewRuntime => {
                let id = self.next_rt;
                self.next_rt += 1;
                self.rts.push(RtObj { id, rt: make_runtime(id) });
                self.cur_rt = Some(id);
            }
            Op::Compile | Op::CompileOld => {
                let rt_id = if op == Op::Compile { self.cur_rt.unwrap() } else { self.rts[0].id };
                let rt = &self.rts.iter().find(|r| r.id == rt_id).unwrap().rt;
                let id = self.next_pkg;
                self.next_pkg += 1;
                let src = script(id);
                let pkg = FileTree::test_file("v.roto", &src, 0).compile(rt).map_err(|e| {
                    let mut s = String::new();
                    let _ = e.write(&mut s, false);
                    format!("compile failed: {s}")
                })?;
                self.pkgs.push(PkgObj { id, rt_id, pkg });
            }
            Op::GetNew | Op::GetOld => {
                let i = if op == Op::GetNew { self.pkgs.len() - 1 } else { 0 };
                let p = &mut self.pkgs[i];
                let f = p.pkg.get_function::<fn() -> i64>("f").map_err(|e| format!("get_function: {e}"))?;
                let (pkg_id, rt_id) = (p.id, p.rt_id);
                self.hs.push(HObj { pkg_id, rt_id, f });
            }
            Op::CloneHandle => {
                let h = &self.hs[0];
                let c = HObj { pkg_id: h.pkg_id, rt_id: h.rt_id, f: h.f.clone() };
                self.hs.push(c);
            }
            Op::DropOldHandle => {
                self.hs.remove(0);
            }
            Op::DropNewHandle => {
                self.hs.pop();
            }
            Op::ThreadDropHandle => {
                let h = self.hs.remove(0);
                std::thread::spawn(move || {
                    // call once on the other thread, then drop there
                    let _ = h.f.call();
                    drop(h);
                })
                .join()
                .map_err(|_| "helper thread panicked".to_string())?;
            }
            Op::DropOldPackage => {
                self.pkgs.remove(0);
            }
            Op::DropNewPackage => {
                self.pkgs.pop();
            }
            Op::DropOldRuntime => {
                self.rts.remove(0);
            }
            Op::DropNewRuntime => {
                self.rts.pop();
            }
        }
        Ok(())
    }
}

pub struct Lifetimes {
    /// all well-formed histories up to the exhaustive length (as op index lists)
    histories: Vec<Vec<u8>>,
}

fn enumerate(max_len: usize) -> Vec<Vec<u8>> {
    // the abstract applicability only depends on counts, so histories can be
    // enumerated on a count model without touching the real API
    #[derive(Clone)]
    struct M {
        rts: usize,
        pkgs: usize,
        hs: usize,
        next_rt: usize,
        next_pkg: usize,
        cur_alive: bool,
    }
    fn app(m: &M, op: Op) -> bool {
        match op {
            Op::NewRuntime => m.next_rt < 3,
            Op::Compile => m.cur_alive && m.next_pkg < 4,
            Op::CompileOld => m.rts >= 2 && m.next_pkg < 4,
            Op::GetNew => m.pkgs >= 1,
            Op::GetOld => m.pkgs >= 2,
            Op::CloneHandle | Op::DropOldHandle | Op::ThreadDropHandle => m.hs >= 1,
            Op::DropNewHandle => m.hs >= 2,
            Op::DropOldPackage => m.pkgs >= 1,
            Op::DropNewPackage => m.pkgs >= 2,
            Op::DropOldRuntime => m.rts >= 1,
            Op::DropNewRuntime => m.rts >= 2,
        }
    }
    fn step(m: &M, op: Op) -> M {
        let mut n = m.clone();
        match op {
            Op::NewRuntime => {
                n.rts += 1;
                n.next_rt += 1;
                n.cur_alive = true;
            }
            Op::Compile | Op::CompileOld => {
                n.pkgs += 1;
                n.next_pkg += 1;
            }
            Op::GetNew | Op::GetOld | Op::CloneHandle => n.hs += 1,
            Op::DropOldHandle | Op::DropNewHandle | Op::ThreadDropHandle => n.hs -= 1,
            Op::DropOldPackage | Op::DropNewPackage => n.pkgs -= 1,
            Op::DropOldRuntime => {
                n.rts -= 1;
                // the oldest runtime is the current one only if it is the only one
                if n.rts == 0 {
                    n.cur_alive = false;
                }
            }
            Op::DropNewRuntime => {
                n.rts -= 1;
                n.cur_alive = false;
            }
        }
        n
    }
    let mut out = Vec::new();
    fn rec(m: &M, cur: &mut Vec<u8>, max_len: usize, out: &mut Vec<Vec<u8>>) {
        if !cur.is_empty() {
            out.push(cur.clone());
        }
        if cur.len() == max_len {
            return;
        }
        for (i, op) in OPS.iter().enumerate() {
            if app(m, *op) {
                cur.push(i as u8);
                rec(&step(m, *op), cur, max_len, out);
                cur.pop();
            }
        }
    }
    // start state: one runtime, one package, one handle already exist
    let m = M { rts: 1, pkgs: 1, hs: 1, next_rt: 1, next_pkg: 1, cur_alive: true };
    rec(&m, &mut Vec::new(), max_len, &mut out);
    out
}

impl Lifetimes {
    pub fn new(args: &Args) -> Lifetimes {
        let len = args.opt("exhaustive-len").and_then(|s| s.parse().ok()).unwrap_or(if args.thorough() { 6 } else { 4 });
        Lifetimes { histories: enumerate(len) }
    }
}

fn live_tags() -> BTreeMap<i64, usize> {
    let rep = host::ledger_report();
    let mut m = BTreeMap::new();
    for (_, tag) in rep.live {
        *m.entry(tag).or_insert(0) += 1;
    }
    m
}

impl Family for Lifetimes {
    fn n_cases(&self, args: &Args) -> u64 {
        self.histories.len() as u64 + if args.thorough() { 20_000 } else { 1_500 }
    }

    fn run(&mut self, k: u64, rng: &mut Rng, _args: &Args) -> CaseOut {
        let mut out = CaseOut::default();
        // history: enumerated prefix space first, then random long ones
        let exhaustive = (k as usize) < self.histories.len();
        let plan: Option<Vec<u8>> = if exhaustive { Some(self.histories[k as usize].clone()) } else { None };
        out.tags.push(if exhaustive { "history:enumerated".into() } else { "history:random".into() });
        host::ledger_reset();
        let mut w = World::new();
        let mut trace: Vec<String> = Vec::new();
        let mut ops_done = 0u64;
        let r = catch(|| -> Result<(), (String, String)> {
            // seeded start state: one runtime, one package, one handle
            for op in [Op::NewRuntime, Op::Compile, Op::GetNew] {
                w.apply(op).map_err(|e| ("lifetimes:setup".to_string(), e))?;
            }
            let n = plan.as_ref().map(|p| p.len()).unwrap_or_else(|| 8 + rng.usize(53));
            for step in 0..n {
                let op = match &plan {
                    Some(p) => OPS[p[step] as usize],
                    None => {
                        let apps: Vec<Op> = OPS.iter().copied().filter(|o| w.applicable(*o)).collect();
                        if apps.is_empty() {
                            break;
                        }
                        apps[rng.usize(apps.len())]
                    }
                };
                if !w.applicable(op) {
                    return Err(("lifetimes:harness-plan".into(), format!("{op:?} not applicable at step {step}")));
                }
                trace.push(format!("{op:?}"));
                out.tags.push(format!("op:{op:?}"));
                w.apply(op).map_err(|e| (format!("lifetimes:op-failed@{op:?}"), e))?;
                ops_done += 1;
                // 1. every surviving handle still returns its own value
                for h in &w.hs {
                    let v = h.f.call();
                    out.events += 1;
                    let e = expected_result(h.pkg_id, h.rt_id);
                    if v != e {
                        return Err((
                            format!("lifetimes:wrong-result-after@{op:?}"),
                            format!("handle of package {} (runtime {}) returned {v}, expected {e} after {trace:?}", h.pkg_id, h.rt_id),
                        ));
                    }
                }
                // 2. ledger: no alarm, live set as the ownership model says
                let rep = host::ledger_report();
                if let Some(a) = rep.alarms.first() {
                    return Err((format!("lifetimes:ledger-{}@{op:?}", a.kind), format!("{} {} after {trace:?}", a.kind, a.info)));
                }
                let live = live_tags();
                let exp = w.expected_live();
                out.events += 1;
                if live != exp {
                    let early: Vec<i64> = exp.keys().filter(|t| !live.contains_key(t)).copied().collect();
                    let late: Vec<i64> = live.keys().filter(|t| !exp.contains_key(t)).copied().collect();
                    let kind = if !early.is_empty() { "released-too-early" } else if !late.is_empty() { "not-released" } else { "wrong-count" };
                    let class = |t: i64| if t >= SC_TAG { "script-constant" } else if t >= CAP_TAG { "closure-capture" } else { "registered-constant" };
                    let what = early.first().or(late.first()).map(|t| class(*t)).unwrap_or("instance");
                    return Err((
                        format!("lifetimes:{kind}:{what}@{op:?}"),
                        format!("live tracked tags {live:?}, ownership model expects {exp:?} after {trace:?}"),
                    ));
                }
            }
            Ok(())
        });
        out.evals = ops_done;
        out.nontrivial = ops_done > 0;
        out.hash = hash_str(&format!("{trace:?}"));
        out.sample = Some(J::obj().set("history", J::Arr(trace.iter().map(|s| J::Str(s.clone())).collect())));
        match r {
            Err(p) => out.viol(format!("{}@lifetimes", panic_sig(&p)), format!("{p} after {trace:?}"), J::Null),
            Ok(Err((sig, msg))) => out.viol(sig, msg, J::Null),
            Ok(Ok(())) => {}
        }
        // tear everything down: nothing may stay live and nothing may be dropped twice
        drop(w);
        let rep = host::ledger_report();
        if out.viols.is_empty() {
            if let Some(a) = rep.alarms.first() {
                out.viol(format!("lifetimes:ledger-{}@teardown", a.kind), format!("{} {} after {trace:?}", a.kind, a.info), J::Null);
            } else if !rep.live.is_empty() {
                out.viol(
                    "lifetimes:not-released@teardown",
                    format!("after dropping every runtime, package and handle {:?} are still live (history {trace:?})", live_tags()),
                    J::Null,
                );
            }
        }
        out
    }
}
