//! C09: source text means what the documented grammar says.
//!
//! Independent decoders compute the value a literal spelling denotes; a 30-line
//! reference climber decides how an operator sequence groups (or that it must be
//! rejected). Compiled scripts must agree.

use std::net::{IpAddr, Ipv4Addr, Ipv6Addr};

use inetnum::addr::Prefix;
use inetnum::asn::Asn;
use roto::{FileTree, NoCtx, Package, RotoString, Runtime};

use crate::jsonw::J;
use crate::rng::Rng;
use crate::work::{Args, CaseOut, Family, catch, hash_str, panic_sig};
use crate::{conv, host};

pub struct Grammar {
    rt: Runtime<NoCtx>,
    seqs: Vec<Vec<usize>>,
}

const OPS: [&str; 13] = ["+", "-", "*", "/", "%", "==", "!=", "<", "<=", ">", ">=", "&&", "||"];

fn prec(op: usize) -> u8 {
    match op {
        11 | 12 => 1,
        5..=10 => 2,
        0 | 1 => 3,
        _ => 4,
    }
}

#[derive(Clone, Debug)]
enum Tree {
    Leaf(usize),
    Bin(usize, Box<Tree>, Box<Tree>),
}

/// Reference precedence climber: Logical < Comparison < AddSub < MulDiv, all left
/// associative; a comparison whose direct operand is an unparenthesised comparison
/// and a logical operator mixed with the other logical operator are rejected.
fn climb(ops: &[usize], pos: &mut usize, leaf: &mut usize, level: u8) -> Option<Tree> {
    if level > 4 {
        let l = *leaf;
        *leaf += 1;
        return Some(Tree::Leaf(l));
    }
    let mut left = climb(ops, pos, leaf, level + 1)?;
    let mut first: Option<usize> = None;
    while *pos < ops.len() && prec(ops[*pos]) == level {
        let op = ops[*pos];
        match (level, first) {
            (2, Some(_)) => return None,
            (1, Some(f)) if f != op => return None,
            _ => {}
        }
        first = Some(op);
        *pos += 1;
        let right = climb(ops, pos, leaf, level + 1)?;
        left = Tree::Bin(op, Box::new(left), Box::new(right));
    }
    Some(left)
}

fn parse_seq(ops: &[usize]) -> Option<Tree> {
    let mut pos = 0;
    let mut leaf = 0;
    let t = climb(ops, &mut pos, &mut leaf, 1)?;
    if pos == ops.len() { Some(t) } else { None }
}

#[derive(Clone, Copy, PartialEq, Debug)]
enum Kind {
    Int,
    Bool,
    Any,
}

/// Solve leaf types (int or bool). None = not typeable.
fn solve(t: &Tree, want: Kind, leaves: &mut Vec<Kind>) -> Option<Kind> {
    match t {
        Tree::Leaf(i) => {
            let k = if want == Kind::Any { Kind::Int } else { want };
            if leaves.len() <= *i {
                leaves.resize(*i + 1, Kind::Any);
            }
            leaves[*i] = k;
            Some(k)
        }
        Tree::Bin(op, a, b) => match *op {
            0..=4 => {
                if want == Kind::Bool {
                    return None;
                }
                solve(a, Kind::Int, leaves)?;
                solve(b, Kind::Int, leaves)?;
                Some(Kind::Int)
            }
            7..=10 => {
                if want == Kind::Int {
                    return None;
                }
                solve(a, Kind::Int, leaves)?;
                solve(b, Kind::Int, leaves)?;
                Some(Kind::Bool)
            }
            5 | 6 => {
                if want == Kind::Int {
                    return None;
                }
                // operands agree: bool if either side can only be bool
                let ka = natural(a);
                let kb = natural(b);
                let k = match (ka, kb) {
                    (Kind::Bool, Kind::Int) | (Kind::Int, Kind::Bool) => return None,
                    (Kind::Bool, _) | (_, Kind::Bool) => Kind::Bool,
                    _ => Kind::Int,
                };
                solve(a, k, leaves)?;
                solve(b, k, leaves)?;
                Some(Kind::Bool)
            }
            _ => {
                if want == Kind::Int {
                    return None;
                }
                solve(a, Kind::Bool, leaves)?;
                solve(b, Kind::Bool, leaves)?;
                Some(Kind::Bool)
            }
        },
    }
}

fn natural(t: &Tree) -> Kind {
    match t {
        Tree::Leaf(_) => Kind::Any,
        Tree::Bin(op, _, _) if *op <= 4 => Kind::Int,
        _ => Kind::Bool,
    }
}

#[derive(Clone, Copy, Debug, PartialEq)]
enum Val {
    I(i32),
    B(bool),
}

fn eval(t: &Tree, leaves: &[Val]) -> Option<Val> {
    Some(match t {
        Tree::Leaf(i) => leaves[*i],
        Tree::Bin(op, a, b) => {
            if *op == 11 {
                let Val::B(x) = eval(a, leaves)? else { return None };
                if !x {
                    return Some(Val::B(false));
                }
                return eval(b, leaves);
            }
            if *op == 12 {
                let Val::B(x) = eval(a, leaves)? else { return None };
                if x {
                    return Some(Val::B(true));
                }
                return eval(b, leaves);
            }
            let x = eval(a, leaves)?;
            let y = eval(b, leaves)?;
            match (x, y) {
                (Val::I(x), Val::I(y)) => match *op {
                    0 => Val::I(x.wrapping_add(y)),
                    1 => Val::I(x.wrapping_sub(y)),
                    2 => Val::I(x.wrapping_mul(y)),
                    3 | 4 => {
                        if y == 0 || (x == i32::MIN && y == -1) {
                            return None;
                        }
                        Val::I(if *op == 3 { x / y } else { x % y })
                    }
                    5 => Val::B(x == y),
                    6 => Val::B(x != y),
                    7 => Val::B(x < y),
                    8 => Val::B(x <= y),
                    9 => Val::B(x > y),
                    _ => Val::B(x >= y),
                },
                (Val::B(x), Val::B(y)) => match *op {
                    5 => Val::B(x == y),
                    6 => Val::B(x != y),
                    _ => return None,
                },
                _ => return None,
            }
        }
    })
}

fn leaf_text(i: usize, kinds: &[Kind], prefixes: &[u8]) -> String {
    let base = if kinds[i] == Kind::Bool { format!("b{i}") } else { format!("a{i}") };
    match prefixes[i] {
        1 => {
            if kinds[i] == Kind::Bool { format!("!{base}") } else { format!("-{base}") }
        }
        2 => {
            if kinds[i] == Kind::Bool { format!("!!{base}") } else { format!("- -{base}") }
        }
        _ => base,
    }
}

fn flat_text(ops: &[usize], kinds: &[Kind], prefixes: &[u8]) -> String {
    let mut s = leaf_text(0, kinds, prefixes);
    for (i, op) in ops.iter().enumerate() {
        s.push_str(&format!(" {} {}", OPS[*op], leaf_text(i + 1, kinds, prefixes)));
    }
    s
}

fn paren_text(t: &Tree, kinds: &[Kind], prefixes: &[u8]) -> String {
    match t {
        Tree::Leaf(i) => leaf_text(*i, kinds, prefixes),
        Tree::Bin(op, a, b) => format!("({} {} {})", paren_text(a, kinds, prefixes), OPS[*op], paren_text(b, kinds, prefixes)),
    }
}

fn all_sequences(max_len: usize) -> Vec<Vec<usize>> {
    let mut out = Vec::new();
    let mut cur: Vec<Vec<usize>> = vec![vec![]];
    for _ in 0..max_len {
        let mut next = Vec::new();
        for c in &cur {
            for op in 0..13 {
                let mut n = c.clone();
                n.push(op);
                next.push(n);
            }
        }
        out.extend(next.iter().cloned());
        cur = next;
    }
    out
}

enum Outcome {
    Ok(Package<NoCtx>),
    Rejected(Vec<&'static str>, String),
    Panicked(String),
}

fn compile(rt: &Runtime<NoCtx>, src: &str) -> Outcome {
    let r = catch(|| match FileTree::test_file("g.roto", src, 0).compile(rt) {
        Ok(p) => Ok(p),
        Err(rep) => {
            let kinds = roto::verif::report_kinds(&rep);
            let mut s = String::new();
            let _ = rep.write(&mut s, false);
            Err((kinds, s))
        }
    });
    match r {
        Err(p) => Outcome::Panicked(p),
        Ok(Ok(p)) => Outcome::Ok(p),
        Ok(Err((k, s))) => Outcome::Rejected(k, s),
    }
}

// ---------------------------------------------------------------------------
// literal decoders
// ---------------------------------------------------------------------------

/// Decode the body of a string/char literal (between the quotes) by hand.
fn unescape(body: &str) -> Option<String> {
    let cs: Vec<char> = body.chars().collect();
    let mut out = String::new();
    let mut i = 0;
    while i < cs.len() {
        let c = cs[i];
        if c != '\\' {
            out.push(c);
            i += 1;
            continue;
        }
        i += 1;
        let e = *cs.get(i)?;
        i += 1;
        match e {
            '0' => out.push('\0'),
            't' => out.push('\t'),
            'n' => out.push('\n'),
            'r' => out.push('\r'),
            '"' => out.push('"'),
            '\'' => out.push('\''),
            '\\' => out.push('\\'),
            'x' => {
                let h: String = cs.get(i..i + 2)?.iter().collect();
                i += 2;
                let v = u8::from_str_radix(&h, 16).ok()?;
                if v > 0x7f {
                    return None;
                }
                out.push(v as char);
            }
            'u' => {
                if *cs.get(i)? != '{' {
                    return None;
                }
                i += 1;
                let mut h = String::new();
                while *cs.get(i)? != '}' {
                    if cs[i] != '_' {
                        h.push(cs[i]);
                    }
                    i += 1;
                }
                i += 1;
                out.push(char::from_u32(u32::from_str_radix(&h, 16).ok()?)?);
            }
            '\n' => {
                // line continuation. The language reference (Strings, "Escape
                // sequences"): "Roto will ignore any whitespace after a `\` followed by
                // a newline". Blanks, tabs and line ends (LF, CR LF) are whitespace
                // beyond doubt and are skipped, however many lines they span. Whether
                // other characters (U+000B, U+000C, U+00A0, U+3000 ...) count as
                // whitespace here is not settled by that sentence: a literal in which
                // the skipped run is followed by such a character has no documented
                // value, and is not decoded (the generators never produce one).
                while i < cs.len() && matches!(cs[i], ' ' | '\t' | '\n' | '\r') {
                    i += 1;
                }
                if i < cs.len() && cs[i].is_whitespace() {
                    return None;
                }
            }
            _ => return None,
        }
    }
    Some(out)
}

struct LitCase {
    class: &'static str,
    /// Roto return type
    ty: String,
    /// the program
    src: String,
    /// expected value rendered for comparison
    expect: Expect,
    spelling: String,
}

enum Expect {
    Int(i128),
    F64(f64),
    /// f32 literal: the directly rounded value and the value rounded through f64
    F32(f32, f32),
    Str(String),
    Char(char),
    Ip(IpAddr),
    Pfx(Prefix),
    Asn(u32),
    /// the spelling must be rejected with a parse error
    ParseError,
}

fn digits_with_underscores(rng: &mut Rng, digits: &str) -> String {
    let mut s = String::new();
    for (i, c) in digits.chars().enumerate() {
        if i > 0 && rng.chance(1, 4) {
            let n = 1 + rng.usize(2);
            for _ in 0..n {
                s.push('_');
            }
        }
        s.push(c);
    }
    if rng.chance(1, 8) {
        s.push('_');
    }
    s
}

const INT_TYPES: [(&str, i128, i128); 8] = [
    ("u8", 0, 255),
    ("u16", 0, 65535),
    ("u32", 0, 4294967295),
    ("u64", 0, 18446744073709551615),
    ("i8", -128, 127),
    ("i16", -32768, 32767),
    ("i32", -2147483648, 2147483647),
    ("i64", -9223372036854775808, 9223372036854775807),
];

/// A literal of a signed type under unary minus: `-128i8`, `-32_768`, `-1i64`. The literal
/// token carries no sign, so its magnitude may be one above the type's maximum exactly when
/// it is negated (the minimum of the type); the value is the negated magnitude.
fn negated_int_literal(rng: &mut Rng) -> LitCase {
    let (ty, lo, hi) = INT_TYPES[4 + rng.usize(4)];
    let mag: i128 = match rng.below(6) {
        0 | 1 => -lo, // the minimum of the type: magnitude hi + 1
        2 => hi,
        3 => 1,
        4 => -lo - 1,
        _ => (rng.next() as i128).rem_euclid(-lo + 1),
    };
    let suffix = rng.bool();
    let digits = digits_with_underscores(rng, &mag.to_string());
    let spelling = if suffix { format!("-{digits}{ty}") } else { format!("-{digits}") };
    // (the minimum of i64 has a magnitude that no i64 holds: its own class)
    let class = match (suffix, mag == -lo, ty == "i64") {
        (true, true, false) => "int:negated-suffix-minimum",
        (true, true, true) => "int:negated-suffix-minimum-of-i64",
        (true, false, _) => "int:negated-suffix",
        (false, true, false) => "int:negated-bare-minimum",
        (false, true, true) => "int:negated-bare-minimum-of-i64",
        (false, false, _) => "int:negated-bare",
    };
    let src = match rng.below(3) {
        0 => format!("fn main() -> {ty} {{\n    {spelling}\n}}\n"),
        1 => format!("fn main() -> {ty} {{\n    let x: {ty} = {spelling};\n    x\n}}\n"),
        _ => format!("fn id(x: {ty}) -> {ty} {{\n    x\n}}\n\nfn main() -> {ty} {{\n    id({spelling})\n}}\n"),
    };
    LitCase { class, ty: ty.to_string(), src, expect: Expect::Int(-mag), spelling }
}

fn int_literal(rng: &mut Rng) -> LitCase {
    if rng.chance(1, 4) {
        return negated_int_literal(rng);
    }
    let (ty, _lo, hi) = INT_TYPES[rng.usize(8)];
    // magnitudes: edges and random; literals themselves are non-negative
    let v: i128 = match rng.below(6) {
        0 => 0,
        1 => hi,
        2 => hi - 1,
        3 => 1,
        _ => (rng.next() as i128).rem_euclid(hi + 1),
    };
    let form = rng.below(4);
    // hex and plain decimals go through a signed 64-bit parse in the documented grammar? the
    // documentation gives no limit below the type's range, so the full range is expected
    let (spelling, class) = match form {
        0 => (format!("{}{ty}", digits_with_underscores(rng, &v.to_string())), "int:suffix"),
        1 => (digits_with_underscores(rng, &v.to_string()), "int:bare"),
        2 => (format!("0x{:X}", v), "int:hex-upper"),
        _ => (format!("0x{:x}", v), "int:hex-lower"),
    };
    let class = if v > i64::MAX as i128 { "int:u64-above-i64-max" } else { class };
    LitCase {
        class,
        ty: ty.to_string(),
        src: format!("fn main() -> {ty} {{\n    {spelling}\n}}\n"),
        expect: Expect::Int(v),
        spelling,
    }
}

fn float_literal(rng: &mut Rng) -> LitCase {
    let f32ty = rng.bool();
    let ty = if f32ty { "f32" } else { "f64" };
    if rng.chance(1, 8) {
        // digits and a float suffix only (`10f32`): 1-25 digits, so that the magnitude also lies
        // around and above 2^63 and 2^64 (the value is a float of the suffix' type whatever the
        // size of the digit string)
        let n = 1 + rng.usize(25);
        let mut digits: String = (0..n).map(|i| char::from(b'0' + if i == 0 { 1 + rng.below(9) as u8 } else { rng.below(10) as u8 })).collect();
        if rng.chance(1, 4) {
            digits = ["9223372036854775807", "9223372036854775808", "18446744073709551615", "18446744073709551616"][rng.usize(4)].to_string();
        }
        let mut spelling = digits_with_underscores(rng, &digits);
        while spelling.ends_with('_') {
            spelling.pop();
        }
        spelling.push_str(ty);
        let v64: f64 = digits.parse().unwrap_or(f64::NAN);
        let v32: f32 = digits.parse().unwrap_or(f32::NAN);
        return LitCase {
            class: "float:digits+suffix",
            ty: ty.to_string(),
            src: format!("fn main() -> {ty} {{\n    {spelling}\n}}\n"),
            expect: if f32ty { Expect::F32(v32, v64 as f32) } else { Expect::F64(v64) },
            spelling,
        };
    }
    let int_part = match rng.below(4) {
        0 => "0".to_string(),
        1 => format!("{}", rng.below(10)),
        2 => format!("{}", rng.below(100000)),
        _ => format!("{}", rng.next() % 1_000_000_000_000),
    };
    let frac = match rng.below(4) {
        0 => String::new(),
        1 => format!("{}", rng.below(10)),
        2 => format!("{:03}", rng.below(1000)),
        _ => format!("{}", rng.next() % 10_000_000_000),
    };
    let exp = match rng.below(5) {
        0 => format!("e{}", rng.below(30)),
        1 => format!("E-{}", rng.below(30)),
        2 => format!("e+{}", rng.below(20)),
        _ => String::new(),
    };
    // `10.e5` is not among the documented spellings (after `10.` an identifier start
    // reads as a field/method access): the dot is only written before digits or at the end
    let dot = !frac.is_empty() || exp.is_empty();
    let mut spelling = digits_with_underscores(rng, &int_part);
    // a trailing underscore directly before `.` or the exponent is avoided: not documented
    while spelling.ends_with('_') {
        spelling.pop();
    }
    if dot {
        spelling.push('.');
        spelling.push_str(&frac);
    }
    spelling.push_str(&exp);
    let suffix = rng.bool();
    let class = match (dot, !exp.is_empty()) {
        (true, true) => "float:fraction+exponent",
        (true, false) => "float:fraction",
        _ => "float:exponent",
    };
    // `10.f32` lexes as the integer 10 followed by `.f32`
    if suffix && spelling.ends_with('.') {
        spelling.push('0');
    }
    if suffix {
        spelling.push_str(ty);
    }
    let clean: String = spelling.trim_end_matches(ty).chars().filter(|c| *c != '_').collect();
    let v64: f64 = clean.parse().unwrap_or(f64::NAN);
    let v32: f32 = clean.parse().unwrap_or(f32::NAN);
    LitCase {
        class,
        ty: ty.to_string(),
        src: format!("fn main() -> {ty} {{\n    {spelling}\n}}\n"),
        expect: if f32ty { Expect::F32(v32, v64 as f32) } else { Expect::F64(v64) },
        spelling,
    }
}

const TEXT_PIECES: [&str; 32] = [
    "a", "Z", "0", " ", "_", "é", "ß", "東京", "ж", "𝄞", "ñ", "\\n", "\\t", "\\r", "\\0", "\\\\", "\\\"", "\\'", "\\x41",
    "\\x7f", "\\x00", "\\u{e9}", "\\u{1F600}", "\\u{0}", "\\u{10FFFF}", "\\\n   ", "'", "{", "}", "-", "\\\n\n\t ", "\\\n",
];

fn string_literal(rng: &mut Rng) -> LitCase {
    let n = rng.usize(7);
    let mut body = String::new();
    for _ in 0..n {
        let p = TEXT_PIECES[rng.usize(TEXT_PIECES.len())];
        body.push_str(p);
    }
    let spelling = format!("\"{body}\"");
    let expect = unescape(&body).expect("generated escapes are valid");
    LitCase {
        class: if body.contains("\\\n") { "string:continuation" } else if body.contains('\\') { "string:escapes" } else { "string:plain" },
        ty: "String".into(),
        src: format!("fn main() -> String {{\n    {spelling}\n}}\n"),
        expect: Expect::Str(expect),
        spelling,
    }
}

/// One line continuation: `\` LF and a run of what the reference says is ignored
/// ("any whitespace after a `\` followed by a newline"): 0..3 blank lines (empty or
/// holding blanks/tabs, ended by LF or CR LF) and the indentation of the next line.
fn continuation(rng: &mut Rng, tags: &mut Vec<String>) -> String {
    let mut s = String::from("\\\n");
    let blank = rng.usize(4);
    for _ in 0..blank {
        match rng.below(4) {
            0 | 1 => {}
            2 => s.push_str("    "),
            _ => s.push_str(" \t"),
        }
        if rng.chance(1, 5) {
            s.push_str("\r\n");
            tags.push("continuation:blank-line-ends-with-crlf".into());
        } else {
            s.push('\n');
        }
    }
    tags.push(format!("continuation:blank-lines:{blank}"));
    let indent = match rng.below(6) {
        0 => ("", "none"),
        1 => ("    ", "spaces"),
        2 => ("\t", "tab"),
        3 => (" \t  \t", "mixed"),
        4 => ("                ", "spaces"),
        _ => (" ", "spaces"),
    };
    s.push_str(indent.0);
    tags.push(format!("continuation:indent:{}", indent.1));
    // a lone CR inside the skipped run is whitespace like the rest
    if rng.chance(1, 12) {
        s.push_str("\r ");
        tags.push("continuation:lone-cr-in-skipped-run".into());
    }
    s
}

/// Strings and f-strings with line continuations of every shape: at the start, in
/// the middle and at the end of the literal, several in one literal, next to other
/// escapes, multi-byte text, and (f-strings) next to `{expr}`, `{{` and `}}`.
/// Each continuation carries its whole skipped run, and what follows it never starts
/// with a whitespace character, so the value is the concatenation of the pieces'
/// values with every continuation contributing nothing.
fn continuation_literal(rng: &mut Rng) -> (LitCase, Vec<String>) {
    // (spelling, tag); none starts with whitespace
    const SOLID: [(&str, &str); 26] = [
        ("a", "ascii"),
        ("Z9", "ascii"),
        ("_", "ascii"),
        ("-", "ascii"),
        ("'", "ascii"),
        ("é", "multibyte"),
        ("ß", "multibyte"),
        ("東京", "multibyte"),
        ("ж", "multibyte"),
        ("𝄞", "multibyte"),
        ("\\n", "escape"),
        ("\\t", "escape"),
        ("\\r", "escape"),
        ("\\0", "escape"),
        ("\\\\", "escape"),
        ("\\\"", "escape"),
        ("\\'", "escape"),
        ("\\x41", "escape"),
        ("\\x20", "escaped-blank"),
        ("\\x09", "escaped-blank"),
        ("\\x0a", "escaped-blank"),
        ("\\u{20}", "escaped-blank"),
        ("\\u{e9}", "escape"),
        ("\\u{1F600}", "escape"),
        ("\\u{a0}", "escaped-blank"),
        ("\\u{3000}", "escaped-blank"),
    ];
    let fstr = rng.chance(1, 2);
    let mut tags = Vec::new();
    let x = rng.range(-50, 50);
    let b = rng.bool();
    let n = 1 + rng.usize(7);
    let n_cont = 1 + rng.usize(3.min(n));
    // which of the n pieces are continuations: the ends are the interesting places
    let mut is_cont = vec![false; n];
    match rng.below(4) {
        0 => is_cont[0] = true,
        1 => is_cont[n - 1] = true,
        _ => {}
    }
    while is_cont.iter().filter(|c| **c).count() < n_cont {
        is_cont[rng.usize(n)] = true;
    }
    let mut body = String::new();
    let mut expect = String::new();
    let mut prev = "start";
    let mut after_cont = false;
    let mut count = 0;
    for (i, &c) in is_cont.iter().enumerate() {
        let kind: &'static str;
        if c {
            body.push_str(&continuation(rng, &mut tags));
            kind = "continuation";
            count += 1;
            tags.push(format!("continuation:at:{}", if n == 1 { "whole-literal" } else if i == 0 { "start" } else if i == n - 1 { "end" } else { "middle" }));
            tags.push(format!("continuation:after:{prev}"));
        } else {
            let pick = rng.below(if fstr { 10 } else { 7 });
            match pick {
                // blanks in front of a continuation (or anywhere else but right after one) stay
                0 if !after_cont => {
                    let sp = if rng.bool() { " " } else { "   " };
                    body.push_str(sp);
                    expect.push_str(sp);
                    kind = "blanks";
                }
                7 => {
                    let (sp, v) = match rng.below(3) {
                        0 => ("{x}", x.to_string()),
                        1 => ("{ x + 1 }", (x + 1).to_string()),
                        _ => ("{b}", b.to_string()),
                    };
                    body.push_str(sp);
                    expect.push_str(&v);
                    kind = "interpolation";
                }
                8 => {
                    body.push_str("{{");
                    expect.push('{');
                    kind = "brace-escape";
                }
                9 => {
                    body.push_str("}}");
                    expect.push('}');
                    kind = "brace-escape";
                }
                _ => {
                    let (sp, t) = SOLID[rng.usize(SOLID.len())];
                    body.push_str(sp);
                    expect.push_str(&unescape(sp).expect("valid escape"));
                    kind = t;
                }
            }
            if after_cont {
                tags.push(format!("continuation:before:{kind}"));
            }
        }
        after_cont = c;
        prev = kind;
    }
    if after_cont {
        tags.push("continuation:before:end".into());
    }
    tags.push(format!("continuation:per-literal:{count}"));
    tags.push(format!("continuation:in:{}", if fstr { "fstring" } else { "string" }));
    let spelling = if fstr { format!("f\"{body}\"") } else { format!("\"{body}\"") };
    // the whole-body decoder must agree with the piecewise value (strings only: it
    // does not know about `{`); a disagreement is a mistake of the generator
    if !fstr {
        assert_eq!(unescape(&body).as_deref(), Some(expect.as_str()), "decoder and generator disagree on {body:?}");
    }
    let place = match rng.below(3) {
        0 => format!("fn main() -> String {{\n    let x = {x};\n    let b = {b};\n    {spelling}\n}}\n"),
        1 => format!("fn main() -> String {{\n    let x = {x};\n    let b = {b};\n    let s = {spelling};\n    s\n}}\n"),
        _ => format!("fn id(s: String) -> String {{\n    s\n}}\n\nfn main() -> String {{\n    let x = {x};\n    let b = {b};\n    id({spelling})\n}}\n"),
    };
    (
        LitCase {
            class: if fstr { "fstring:continuation-lines" } else { "string:continuation-lines" },
            ty: "String".into(),
            src: place,
            expect: Expect::Str(expect),
            spelling,
        },
        tags,
    )
}

fn char_literal(rng: &mut Rng) -> LitCase {
    const CH: [&str; 20] = [
        "a", "Z", " ", "é", "東", "𝄞", "\\n", "\\t", "\\r", "\\0", "\\\\", "\\'", "\\\"", "\\x41", "\\x7f", "\\u{e9}",
        "\\u{1F600}", "\\u{10FFFF}", "\"", "{",
    ];
    let body = CH[rng.usize(CH.len())];
    let spelling = format!("'{body}'");
    let expect = unescape(body).unwrap().chars().next().unwrap();
    LitCase {
        class: if body.starts_with('\\') { "char:escape" } else { "char:plain" },
        ty: "char".into(),
        src: format!("fn main() -> char {{\n    {spelling}\n}}\n"),
        expect: Expect::Char(expect),
        spelling,
    }
}

fn fstring_literal(rng: &mut Rng) -> LitCase {
    // text pieces (with {{ }} escapes and Unicode) interleaved with {expr}
    const T: [&str; 16] = ["a", " ", "é", "東京", "𝄞", "{{", "}}", "{{}}", "\\n", "\\\"", "x=", "ß ", "\\u{e9}", "-", "0", "ж"];
    let n = 1 + rng.usize(5);
    let mut spelling = String::from("f\"");
    let mut expect = String::new();
    let x = rng.range(-50, 50);
    let b = rng.bool();
    for _ in 0..n {
        if rng.chance(2, 3) {
            let k = 1 + rng.usize(3);
            for _ in 0..k {
                let p = T[rng.usize(T.len())];
                spelling.push_str(p);
                let plain = p.replace("{{", "{").replace("}}", "}");
                expect.push_str(&unescape(&plain).unwrap());
            }
        }
        match rng.below(4) {
            0 => {
                spelling.push_str("{x}");
                expect.push_str(&x.to_string());
            }
            1 => {
                spelling.push_str("{ x + 1 }");
                expect.push_str(&(x + 1).to_string());
            }
            2 => {
                spelling.push_str("{b}");
                expect.push_str(&b.to_string());
            }
            _ => {}
        }
    }
    spelling.push('"');
    LitCase {
        class: "fstring",
        ty: "String".into(),
        src: format!("fn main() -> String {{\n    let x = {x};\n    let b = {b};\n    {spelling}\n}}\n"),
        expect: Expect::Str(expect),
        spelling,
    }
}

fn ipv4(rng: &mut Rng) -> Ipv4Addr {
    let o = |r: &mut Rng| match r.below(5) {
        0 => 0u8,
        1 => 255,
        2 => 1,
        _ => r.below(256) as u8,
    };
    Ipv4Addr::new(o(rng), o(rng), o(rng), o(rng))
}

/// The canonical text of an IPv6 address from hex groups only: lower-case groups
/// without leading zeros, the longest run of two or more zero groups (the first
/// one if there are several) written as `::`.
fn ipv6_hex_groups(segs: &[u16; 8]) -> String {
    let (mut best_at, mut best_len) = (0, 0);
    let mut i = 0;
    while i < 8 {
        if segs[i] == 0 {
            let mut j = i;
            while j < 8 && segs[j] == 0 {
                j += 1;
            }
            if j - i > best_len {
                (best_at, best_len) = (i, j - i);
            }
            i = j;
        } else {
            i += 1;
        }
    }
    let hex = |g: &[u16]| g.iter().map(|s| format!("{s:x}")).collect::<Vec<_>>().join(":");
    if best_len < 2 { hex(segs) } else { format!("{}::{}", hex(&segs[..best_at]), hex(&segs[best_at + best_len..])) }
}

fn ipv6_text(rng: &mut Rng, tags: &mut Vec<String>) -> (String, Ipv6Addr) {
    let mut segs = [0u16; 8];
    for s in segs.iter_mut() {
        *s = match rng.below(4) {
            0 => 0,
            1 => 0xffff,
            _ => rng.below(65536) as u16,
        };
    }
    // runs of zeros make `::` forms interesting
    if rng.bool() {
        let a = rng.usize(8);
        let b = (a + 1 + rng.usize(8)).min(8);
        for s in segs[a..b].iter_mut() {
            *s = 0;
        }
    }
    let addr = Ipv6Addr::from(segs);
    // Only hex groups and `::` are spelled. The form with a dotted IPv4 tail
    // (`::ffff:1.2.3.4`, `::1.2.3.4`), which the Display of std's Ipv6Addr uses for
    // IPv4-mapped and IPv4-compatible addresses, is not promised by the documentation
    // (unspecified): such an address is spelled with hex groups like any other.
    let compressed = ipv6_hex_groups(&segs);
    assert_eq!(compressed.parse::<Ipv6Addr>().ok(), Some(addr), "hex-group spelling of {segs:x?}");
    if addr.to_string().contains('.') {
        tags.push("unspecified:ipv6-dotted-tail".into());
    }
    let text = match rng.below(4) {
        0 => compressed,
        1 => compressed.to_uppercase(),
        2 => segs.iter().map(|s| format!("{s:04x}")).collect::<Vec<_>>().join(":"),
        _ => segs.iter().map(|s| format!("{s:X}")).collect::<Vec<_>>().join(":"),
    };
    (text, addr)
}

fn net_literal(rng: &mut Rng, tags: &mut Vec<String>) -> LitCase {
    match rng.below(5) {
        0 => {
            let a = ipv4(rng);
            let spelling = a.to_string();
            LitCase {
                class: "ipv4",
                ty: "IpAddr".into(),
                src: format!("fn main() -> IpAddr {{\n    {spelling}\n}}\n"),
                expect: Expect::Ip(IpAddr::V4(a)),
                spelling,
            }
        }
        1 => {
            let (spelling, a) = ipv6_text(rng, tags);
            // the std parser is the oracle for the spelling itself
            let parsed: Ipv6Addr = spelling.parse().unwrap_or(a);
            LitCase {
                class: "ipv6",
                ty: "IpAddr".into(),
                src: format!("fn main() -> IpAddr {{\n    {spelling}\n}}\n"),
                expect: Expect::Ip(IpAddr::V6(parsed)),
                spelling,
            }
        }
        2 => {
            let n = match rng.below(4) {
                0 => 0u32,
                1 => u32::MAX,
                _ => rng.next() as u32,
            };
            let spelling = format!("AS{n}");
            LitCase {
                class: "asn",
                ty: "Asn".into(),
                src: format!("fn main() -> Asn {{\n    {spelling}\n}}\n"),
                expect: Expect::Asn(n),
                spelling,
            }
        }
        3 => {
            let a = ipv4(rng);
            let len = rng.below(33) as u8;
            let spelling = format!("{a}/{len}");
            let p = Prefix::new_relaxed(IpAddr::V4(a), len).unwrap();
            LitCase {
                class: "prefix:v4",
                ty: "Prefix".into(),
                src: format!("fn main() -> Prefix {{\n    {spelling}\n}}\n"),
                expect: Expect::Pfx(p),
                spelling,
            }
        }
        _ => {
            let (t, a) = ipv6_text(rng, tags);
            let parsed: Ipv6Addr = t.parse().unwrap_or(a);
            let len = rng.below(129) as u8;
            let spelling = format!("{t}/{len}");
            let p = Prefix::new_relaxed(IpAddr::V6(parsed), len).unwrap();
            LitCase {
                class: "prefix:v6",
                ty: "Prefix".into(),
                src: format!("fn main() -> Prefix {{\n    {spelling}\n}}\n"),
                expect: Expect::Pfx(p),
                spelling,
            }
        }
    }
}

/// XID_Start / XID_Continue characters from long-stable Unicode blocks.
const XID_START: [&str; 24] = [
    "a", "z", "A", "Z", "_", "é", "ß", "ñ", "Ω", "λ", "ж", "Я", "א", "ش", "क", "あ", "ア", "東", "京", "한", "ǆ", "ø", "Þ", "µ",
];
const XID_CONT_ONLY: [&str; 8] = ["0", "9", "\u{301}", "\u{300}", "\u{94d}", "٣", "\u{200d}", "·"];
const NOT_XID: [&str; 9] = ["🙂", "-", "€", "∑", "→", "«", "。", "$", "@"];
const KEYWORDS: [&str; 22] = [
    "accept", "const", "dep", "else", "enum", "filter", "filtermap", "for", "fn", "if", "import", "in", "let", "match", "pkg",
    "record", "reject", "return", "std", "super", "test", "while",
];

fn ident_case(rng: &mut Rng) -> LitCase {
    let mut id = String::new();
    let class;
    match rng.below(10) {
        0..=5 => {
            id.push_str(XID_START[rng.usize(XID_START.len())]);
            let n = rng.usize(5);
            for _ in 0..n {
                if rng.chance(1, 3) {
                    // U+200D (ZWJ) and U+00B7 are XID_Continue only in newer/other
                    // tables: leave them to the negative/unspecified side
                    let c = XID_CONT_ONLY[rng.usize(6)];
                    id.push_str(c);
                } else {
                    id.push_str(XID_START[rng.usize(XID_START.len())]);
                }
            }
            if id == "_" || KEYWORDS.contains(&id.as_str()) || id == "true" || id == "false" || id == "f" {
                id.push('x');
            }
            class = "ident:valid";
        }
        6 => {
            id.push_str(XID_CONT_ONLY[rng.usize(5)]);
            id.push_str(XID_START[rng.usize(XID_START.len())]);
            class = "ident:continue-char-first";
        }
        7 => {
            id.push_str(XID_START[rng.usize(XID_START.len())]);
            id.push_str(NOT_XID[rng.usize(NOT_XID.len())]);
            id.push_str(XID_START[rng.usize(XID_START.len())]);
            class = "ident:non-xid-inside";
        }
        8 => {
            id.push_str(NOT_XID[rng.usize(NOT_XID.len())]);
            id.push('a');
            class = "ident:non-xid-first";
        }
        _ => {
            id = KEYWORDS[rng.usize(KEYWORDS.len())].to_string();
            class = "ident:keyword";
        }
    }
    let valid = class == "ident:valid";
    // hex-digit-only identifiers followed by `:` can look like IPv6 to the lexer; the
    // program below never puts a colon after the identifier
    let src = format!("fn main() -> i32 {{\n    let {id} = 41;\n    {id} + 1\n}}\n");
    LitCase {
        class,
        ty: "i32".into(),
        src,
        expect: if valid { Expect::Int(42) } else { Expect::ParseError },
        spelling: id,
    }
}

fn call_and_compare(pkg: &mut Package<NoCtx>, c: &LitCase) -> Result<(), String> {
    macro_rules! get {
        ($t:ty) => {
            pkg.get_function::<fn() -> $t>("main").map_err(|e| format!("get_function: {e}"))?.call()
        };
    }
    match &c.expect {
        Expect::Int(v) => {
            let got: i128 = match c.ty.as_str() {
                "u8" => get!(u8) as i128,
                "u16" => get!(u16) as i128,
                "u32" => get!(u32) as i128,
                "u64" => get!(u64) as i128,
                "i8" => get!(i8) as i128,
                "i16" => get!(i16) as i128,
                "i32" => get!(i32) as i128,
                _ => get!(i64) as i128,
            };
            if got != *v { Err(format!("denotes {v}, script returned {got}")) } else { Ok(()) }
        }
        Expect::F64(v) => {
            let got = get!(f64);
            if got.to_bits() != v.to_bits() { Err(format!("denotes {v:?}, script returned {got:?}")) } else { Ok(()) }
        }
        Expect::F32(a, b) => {
            let got = get!(f32);
            if got.to_bits() != a.to_bits() && got.to_bits() != b.to_bits() {
                Err(format!("denotes {a:?} (or {b:?} when rounded through f64), script returned {got:?}"))
            } else {
                Ok(())
            }
        }
        Expect::Str(v) => {
            let got = get!(RotoString).to_string();
            if got != *v { Err(format!("denotes {v:?}, script returned {got:?}")) } else { Ok(()) }
        }
        Expect::Char(v) => {
            let got = get!(char);
            if got != *v { Err(format!("denotes {v:?}, script returned {got:?}")) } else { Ok(()) }
        }
        Expect::Ip(v) => {
            let got = get!(IpAddr);
            if got != *v { Err(format!("denotes {v}, script returned {got}")) } else { Ok(()) }
        }
        Expect::Pfx(v) => {
            let got = get!(Prefix);
            if got != *v { Err(format!("denotes {v}, script returned {got}")) } else { Ok(()) }
        }
        Expect::Asn(v) => {
            let got = get!(Asn).into_u32();
            if got != *v { Err(format!("denotes AS{v}, script returned AS{got}")) } else { Ok(()) }
        }
        Expect::ParseError => Err("accepted although the documented grammar rejects it".into()),
    }
}

const BASE: &str = "fn helper ( a : i32 , b : i32 ) -> i32 {\n if a < b { a * 2 } else { b - 1 }\n}\nfn main ( ) -> i32 {\n let x = 7 ;\n let l = [ 1 , 2 , 3 ] ;\n let t = 0 ;\n for e in l { t = t + e ; }\n match l . get ( 1 ) { Some ( v ) => helper ( x , v ) + t , None => 0 , }\n}\n";

impl Grammar {
    pub fn new(_args: &Args) -> Grammar {
        Grammar { rt: host::runtime(), seqs: all_sequences(3) }
    }

    fn operator_case(&mut self, ops: &[usize], rng: &mut Rng, out: &mut CaseOut) {
        let text_ops: Vec<&str> = ops.iter().map(|o| OPS[*o]).collect();
        let n_leaves = ops.len() + 1;
        let tree = parse_seq(ops);
        let all_int = vec![Kind::Int; n_leaves];
        let no_prefix = vec![0u8; n_leaves];
        let params = |kinds: &[Kind]| -> String {
            (0..n_leaves).map(|i| if kinds[i] == Kind::Bool { format!("b{i}: bool") } else { format!("a{i}: i32") }).collect::<Vec<_>>().join(", ")
        };
        out.sample = Some(J::obj().set("operators", text_ops.join(" ")));
        let Some(tree) = tree else {
            // must be rejected with a parse error, whatever the operand types
            out.tags.push("seq:must-be-rejected".into());
            let src = format!("fn main({}) -> bool {{\n    {}\n}}\n", params(&all_int), flat_text(ops, &all_int, &no_prefix));
            out.evals += 1;
            out.events += 1;
            match compile(&self.rt, &src) {
                Outcome::Rejected(k, text) => {
                    if k.iter().any(|x| *x != "parse") {
                        out.viol(
                            "precedence:chain-rejected-by-type-checker-only",
                            format!("`{}` must be a parse error (chained comparison / mixed && ||), got {k:?}:\n{text}", text_ops.join(" ")),
                            J::obj().set("source", src),
                        );
                    }
                    out.nontrivial = true;
                }
                Outcome::Ok(_) => out.viol(
                    "precedence:chain-accepted",
                    format!("`{}` (chained comparison or mixed && / ||) was accepted", text_ops.join(" ")),
                    J::obj().set("source", src),
                ),
                Outcome::Panicked(p) => out.viol(format!("{}@operator-sequence", panic_sig(&p)), p, J::obj().set("source", src)),
            }
            return;
        };
        let mut kinds = Vec::new();
        let root = solve(&tree, Kind::Any, &mut kinds);
        let Some(root) = root else {
            // grammatical, but no assignment of int/bool to the operands is well typed
            out.tags.push("seq:untypeable".into());
            let src = format!("fn main({}) -> bool {{\n    {}\n}}\n", params(&all_int), flat_text(ops, &all_int, &no_prefix));
            out.evals += 1;
            out.events += 1;
            match compile(&self.rt, &src) {
                Outcome::Rejected(k, text) => {
                    if k.iter().any(|x| *x != "type") {
                        out.viol(
                            "precedence:untypeable-not-a-type-error",
                            format!("`{}` groups fine but cannot be typed; expected a type error, got {k:?}:\n{text}", text_ops.join(" ")),
                            J::obj().set("source", src),
                        );
                    }
                    out.nontrivial = true;
                }
                Outcome::Ok(_) => out.viol("precedence:untypeable-accepted", format!("`{}` compiled with all-int operands", text_ops.join(" ")), J::obj().set("source", src)),
                Outcome::Panicked(p) => out.viol(format!("{}@operator-sequence", panic_sig(&p)), p, J::obj().set("source", src)),
            }
            return;
        };
        kinds.resize(n_leaves, Kind::Int);
        out.tags.push("seq:typed".into());
        let prefixes: Vec<u8> = (0..n_leaves).map(|_| if rng.chance(1, 4) { 1 + rng.below(2) as u8 } else { 0 }).collect();
        let ret = if root == Kind::Bool { "bool" } else { "i32" };
        let flat = format!("fn main({}) -> {ret} {{\n    {}\n}}\n", params(&kinds), flat_text(ops, &kinds, &prefixes));
        let paren = format!("fn main({}) -> {ret} {{\n    {}\n}}\n", params(&kinds), paren_text(&tree, &kinds, &prefixes));
        out.sample = Some(J::obj().set("operators", text_ops.join(" ")).set("as_written", flat.as_str()).set("parenthesised", paren.as_str()));
        let mut pkgs = Vec::new();
        for (what, src) in [("as-written", &flat), ("parenthesised", &paren)] {
            out.evals += 1;
            match compile(&self.rt, src) {
                Outcome::Ok(p) => pkgs.push(p),
                Outcome::Rejected(k, text) => {
                    out.viol(
                        format!("precedence:{what}-rejected"),
                        format!("`{}` ({what}) is well typed by the documented precedence but was rejected ({k:?}):\n{text}", text_ops.join(" ")),
                        J::obj().set("source", src.as_str()),
                    );
                    return;
                }
                Outcome::Panicked(p) => {
                    out.viol(format!("{}@operator-sequence", panic_sig(&p)), p, J::obj().set("source", src.as_str()));
                    return;
                }
            }
        }
        // run both on value vectors; the harness calls through a uniform signature:
        // all parameters are passed as i32/bool in leaf order -> use arity-specific getters
        for _ in 0..16 {
            let ints: Vec<i32> = (0..n_leaves)
                .map(|_| match rng.below(8) {
                    0 => 0,
                    1 => 1,
                    2 => -1,
                    3 => i32::MAX,
                    4 => i32::MIN,
                    5 => 2,
                    _ => rng.range(-20, 20) as i32,
                })
                .collect();
            let bools: Vec<bool> = (0..n_leaves).map(|_| rng.bool()).collect();
            let vals: Vec<Val> = (0..n_leaves)
                .map(|i| {
                    let base = if kinds[i] == Kind::Bool { Val::B(bools[i]) } else { Val::I(ints[i]) };
                    // apply the prefixes (double prefixes cancel)
                    match (prefixes[i], base) {
                        (1, Val::B(b)) => Val::B(!b),
                        (1, Val::I(x)) => Val::I(x.wrapping_neg()),
                        (_, v) => v,
                    }
                })
                .collect();
            let Some(expect) = eval(&tree, &vals) else {
                out.count("skipped_trapping_vectors", 1);
                continue;
            };
            let mut results = Vec::new();
            for p in pkgs.iter_mut() {
                let r = call_dyn(p, &kinds, &ints, &bools, root);
                results.push(r);
            }
            out.events += 2;
            out.nontrivial = true;
            for (what, r) in ["as-written", "parenthesised"].iter().zip(&results) {
                match r {
                    Err(e) => {
                        out.viol(format!("precedence:{what}-not-callable"), e.clone(), J::Null);
                        return;
                    }
                    Ok(v) if *v != expect => {
                        out.viol(
                            format!("precedence:{what}-wrong-value"),
                            format!("`{}` {what} with operands {vals:?}: reference grouping gives {expect:?}, script returned {v:?}", text_ops.join(" ")),
                            J::obj().set("as_written", flat.as_str()).set("parenthesised", paren.as_str()),
                        );
                        return;
                    }
                    _ => {}
                }
            }
        }
    }
}

/// Call `main` whose parameters are i32/bool in leaf order (1..=7 parameters).
fn call_dyn(p: &mut Package<NoCtx>, kinds: &[Kind], ints: &[i32], bools: &[bool], root: Kind) -> Result<Val, String> {
    // encode every parameter as i64 on the harness side; the typed dispatch below
    // enumerates all int/bool patterns up to 4 parameters (operator sequences <= 3) and
    // falls back to all-int / all-bool uniform shapes for longer ones
    macro_rules! arg {
        (i, $i:expr) => {
            ints[$i]
        };
        (b, $i:expr) => {
            bools[$i]
        };
    }
    macro_rules! ty {
        (i) => { i32 };
        (b) => { bool };
    }
    macro_rules! call {
        ($($k:ident $i:expr),*) => {{
            if root == Kind::Bool {
                let f = p.get_function::<fn($(ty!($k)),*) -> bool>("main").map_err(|e| format!("{e}"))?;
                Ok(Val::B(f.call($(arg!($k, $i)),*)))
            } else {
                let f = p.get_function::<fn($(ty!($k)),*) -> i32>("main").map_err(|e| format!("{e}"))?;
                Ok(Val::I(f.call($(arg!($k, $i)),*)))
            }
        }};
    }
    let pat: String = kinds.iter().map(|k| if *k == Kind::Bool { 'b' } else { 'i' }).collect();
    match pat.as_str() {
        "ii" => call!(i 0, i 1),
        "bb" => call!(b 0, b 1),
        "iii" => call!(i 0, i 1, i 2),
        "iib" => call!(i 0, i 1, b 2),
        "ibi" => call!(i 0, b 1, i 2),
        "ibb" => call!(i 0, b 1, b 2),
        "bii" => call!(b 0, i 1, i 2),
        "bib" => call!(b 0, i 1, b 2),
        "bbi" => call!(b 0, b 1, i 2),
        "bbb" => call!(b 0, b 1, b 2),
        "iiii" => call!(i 0, i 1, i 2, i 3),
        "iiib" => call!(i 0, i 1, i 2, b 3),
        "iibi" => call!(i 0, i 1, b 2, i 3),
        "iibb" => call!(i 0, i 1, b 2, b 3),
        "ibii" => call!(i 0, b 1, i 2, i 3),
        "ibib" => call!(i 0, b 1, i 2, b 3),
        "ibbi" => call!(i 0, b 1, b 2, i 3),
        "ibbb" => call!(i 0, b 1, b 2, b 3),
        "biii" => call!(b 0, i 1, i 2, i 3),
        "biib" => call!(b 0, i 1, i 2, b 3),
        "bibi" => call!(b 0, i 1, b 2, i 3),
        "bibb" => call!(b 0, i 1, b 2, b 3),
        "bbii" => call!(b 0, b 1, i 2, i 3),
        "bbib" => call!(b 0, b 1, i 2, b 3),
        "bbbi" => call!(b 0, b 1, b 2, i 3),
        "bbbb" => call!(b 0, b 1, b 2, b 3),
        "iiiii" => call!(i 0, i 1, i 2, i 3, i 4),
        "iiiiii" => call!(i 0, i 1, i 2, i 3, i 4, i 5),
        "iiiiiii" => call!(i 0, i 1, i 2, i 3, i 4, i 5, i 6),
        "bbbbb" => call!(b 0, b 1, b 2, b 3, b 4),
        "bbbbbb" => call!(b 0, b 1, b 2, b 3, b 4, b 5),
        "bbbbbbb" => call!(b 0, b 1, b 2, b 3, b 4, b 5, b 6),
        _ => Err(format!("harness: no monomorphised call shape for {pat}")),
    }
}

impl Family for Grammar {
    fn n_cases(&self, args: &Args) -> u64 {
        // all operator sequences up to length 3, then sampled cases
        self.seqs.len() as u64 + if args.thorough() { 400_000 } else { 24_000 }
    }

    fn run(&mut self, k: u64, rng: &mut Rng, _args: &Args) -> CaseOut {
        let mut out = CaseOut::default();
        out.keep_sample = false;
        if (k as usize) < self.seqs.len() {
            let ops = self.seqs[k as usize].clone();
            out.hash = hash_str(&format!("seq{ops:?}"));
            out.tags.push(format!("seq-len:{}", ops.len()));
            self.operator_case(&ops, rng, &mut out);
            return out;
        }
        match rng.below(100) {
            0..=19 => {
                // longer operator sequences (4..6); only uniform-typed ones are callable
                let n = 4 + rng.usize(3);
                let ops: Vec<usize> = (0..n).map(|_| rng.usize(13)).collect();
                out.hash = hash_str(&format!("seq{ops:?}"));
                out.tags.push(format!("seq-len:{n}"));
                let callable = match parse_seq(&ops) {
                    None => true,
                    Some(t) => {
                        let mut kinds = Vec::new();
                        match solve(&t, Kind::Any, &mut kinds) {
                            None => true,
                            Some(_) => kinds.iter().all(|k| *k == Kind::Int) || kinds.iter().all(|k| *k == Kind::Bool),
                        }
                    }
                };
                if callable {
                    self.operator_case(&ops, rng, &mut out);
                } else {
                    out.skipped = Some("mixed-operand-types-beyond-4-operands".into());
                }
            }
            20..=84 => {
                let mut extra_tags = Vec::new();
                let c = match rng.below(15) {
                    0..=2 => int_literal(rng),
                    3..=4 => float_literal(rng),
                    5..=6 => string_literal(rng),
                    7 => char_literal(rng),
                    8..=9 => fstring_literal(rng),
                    10..=11 => net_literal(rng, &mut extra_tags),
                    12 => ident_case(rng),
                    _ => {
                        let (c, t) = continuation_literal(rng);
                        extra_tags = t;
                        c
                    }
                };
                out.hash = hash_str(&c.src);
                out.tags.push(format!("literal:{}", c.class));
                out.tags.extend(extra_tags);
                out.sample = Some(J::obj().set("class", c.class).set("spelling", c.spelling.as_str()).set("source", c.src.as_str()));
                out.evals = 1;
                out.events = 1;
                out.nontrivial = true;
                match compile(&self.rt, &c.src) {
                    Outcome::Panicked(p) => out.viol(format!("{}@{}", panic_sig(&p), c.class), p, J::obj().set("spelling", c.spelling.as_str())),
                    Outcome::Rejected(kinds, text) => match c.expect {
                        Expect::ParseError => {
                            if kinds.iter().any(|k| *k != "parse") {
                                out.viol(
                                    format!("spelling:not-a-parse-error@{}", c.class),
                                    format!("`{}` must be rejected by the parser, got {kinds:?}: {text}", c.spelling),
                                    J::obj().set("spelling", c.spelling.as_str()),
                                );
                            }
                        }
                        _ => out.viol(
                            format!("spelling:rejected@{}", c.class),
                            format!("the documented spelling `{}` was rejected: {text}", c.spelling),
                            J::obj().set("spelling", c.spelling.as_str()).set("source", c.src.as_str()),
                        ),
                    },
                    Outcome::Ok(mut pkg) => {
                        let r = catch(|| call_and_compare(&mut pkg, &c));
                        match r {
                            Err(p) => out.viol(format!("{}@{}", panic_sig(&p), c.class), p, J::Null),
                            Ok(Err(msg)) => {
                                let kind = if matches!(c.expect, Expect::ParseError) { "spelling:accepted" } else { "spelling:wrong-value" };
                                out.viol(
                                    format!("{kind}@{}", c.class),
                                    format!("`{}` {msg}", c.spelling),
                                    J::obj().set("spelling", c.spelling.as_str()).set("source", c.src.as_str()),
                                );
                            }
                            Ok(Ok(())) => {}
                        }
                    }
                }
            }
            _ => {
                // comments / shebang at token boundaries must not change behaviour
                let toks: Vec<&str> = BASE.split(' ').collect();
                let mut src = String::new();
                let shebang = rng.chance(1, 3);
                if shebang {
                    src.push_str("#!/usr/bin/env roto é 東\n");
                }
                let mut n_comments = 0;
                for (i, t) in toks.iter().enumerate() {
                    if i > 0 {
                        if rng.chance(1, 6) {
                            n_comments += 1;
                            src.push_str(match rng.below(4) {
                                0 => " // comment\n",
                                1 => " //\n",
                                2 => " // é 東京 𝄞 \" ' { } /* */ #!\n",
                                _ => "\n// fn main() { syntax error\n",
                            });
                        } else {
                            src.push(' ');
                        }
                    }
                    src.push_str(t);
                }
                out.hash = hash_str(&src);
                out.tags.push(format!("comments:{}", if shebang { "with-shebang" } else { "plain" }));
                out.sample = Some(J::obj().set("source", src.as_str()));
                out.evals = 1;
                out.events = 1;
                out.nontrivial = n_comments > 0 || shebang;
                match compile(&self.rt, &src) {
                    Outcome::Ok(mut p) => match p.get_function::<fn() -> i32>("main") {
                        Ok(f) => {
                            let v = f.call();
                            // helper(7, 2) = 2 - 1 = 1; t = 6
                            if v != 7 {
                                out.viol("comments:changed-behaviour", format!("base program returned {v} instead of 7"), J::obj().set("source", src));
                            }
                        }
                        Err(e) => out.viol("comments:main-missing", format!("{e}"), J::obj().set("source", src)),
                    },
                    Outcome::Rejected(_, text) => out.viol(
                        "comments:rejected",
                        format!("comments/shebang made the base program invalid: {text}"),
                        J::obj().set("source", src),
                    ),
                    Outcome::Panicked(p) => out.viol(format!("{}@comments", panic_sig(&p)), p, J::obj().set("source", src)),
                }
            }
        }
        let _ = conv::EDGE_WORDS;
        out
    }
}
