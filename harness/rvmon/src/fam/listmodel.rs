//! C15 — lists behave like one shared growable array.
//!
//! Families:
//! * `list-api`    driver 1: the Rust `roto::List` API. Cases `0..E` are blocks of the
//!   exhaustive enumeration of ALL operation sequences up to a length bound over two
//!   handle slots and three initial aliasing states; the remaining cases are random
//!   sequences (<= 200 operations, three slots) started at a growth boundary.
//! * `list-script` drivers 2/3: generated scripts (literals, methods, `+`, `==`, `for`,
//!   `join`) whose host-call log is compared with the model, and alternating runs in
//!   which every operation is routed either to the Rust API or to a compiled script
//!   function taking / returning the same list objects.
//!
//! The model, the operation alphabet and the executor live in `listcore.rs` (shared
//! with the Miri crate `harness/listmiri`).

use std::sync::Arc;
use std::time::Duration;

use roto::{List, Val};

#[path = "listcore.rs"]
pub mod listcore;

use self::listcore as lc;
use self::listcore::{Api, Elem, ExecCfg, ExhaustiveSrc, HangState, OneSrc, Op, Report, RustApi, SeqSource, Worker};
use crate::host::{self, Trk, TrkZ};
use crate::jsonw::J;
use crate::rng::Rng;
use crate::work::{Args, CaseOut, Family, hash_str, panic_sig};

// ---------------------------------------------------------------------------
// Drop-tracked element types (ledger in crate::host)
// ---------------------------------------------------------------------------

fn host_probe() -> Option<(i64, Vec<(String, String)>)> {
    let r = host::ledger_report();
    let alarms = r.alarms.iter().map(|a| (a.kind.to_string(), format!("{}: instance {} {}", a.kind, a.id, a.info))).collect();
    Some((r.live.len() as i64, alarms))
}

impl Elem for Val<Trk> {
    const NAME: &'static str = "trk";
    fn make(key: u64) -> Self {
        Val(Trk::new(key as i64))
    }
    fn canon(key: u64) -> u64 {
        key
    }
    fn key_of(&self) -> u64 {
        if self.check("list-element") { self.tag as u64 } else { u64::MAX }
    }
    fn debug_norm(s: &str) -> String {
        // instance ids differ between clones
        let mut out = String::new();
        let mut rest = s;
        while let Some(p) = rest.find("id: ") {
            out.push_str(&rest[..p + 4]);
            out.push('_');
            rest = rest[p + 4..].trim_start_matches(|c: char| c.is_ascii_digit());
        }
        out.push_str(rest);
        out
    }
    fn ledger_reset() {
        host::ledger_reset();
    }
    fn ledger_probe() -> Option<(i64, Vec<(String, String)>)> {
        host_probe()
    }
}

impl Elem for Val<TrkZ> {
    const NAME: &'static str = "trkz";
    fn make(_key: u64) -> Self {
        Val(TrkZ::new())
    }
    fn canon(_key: u64) -> u64 {
        0
    }
    fn key_of(&self) -> u64 {
        0
    }
    fn ledger_reset() {
        host::ledger_reset();
    }
    fn ledger_probe() -> Option<(i64, Vec<(String, String)>)> {
        Some((host::Z_LIVE.load(std::sync::atomic::Ordering::SeqCst), Vec::new()))
    }
}

pub const ELEMS: [&str; 7] = ["u64", "trk", "u8", "string", "list<u8>", "trkz", "option<u32>"];

/// Dispatch on the element type index into `ELEMS`.
macro_rules! with_elem {
    ($id:expr, $E:ident => $body:expr) => {
        match $id {
            0 => {
                type $E = u64;
                $body
            }
            1 => {
                type $E = Val<Trk>;
                $body
            }
            2 => {
                type $E = u8;
                $body
            }
            3 => {
                type $E = roto::RotoString;
                $body
            }
            4 => {
                type $E = List<u8>;
                $body
            }
            5 => {
                type $E = Val<TrkZ>;
                $body
            }
            _ => {
                type $E = Option<u32>;
                $body
            }
        }
    };
}

fn timeout(args: &Args) -> Duration {
    Duration::from_millis(args.opt("hang-ms").and_then(|s| s.parse().ok()).unwrap_or(5000))
}

fn elem_filter(args: &Args) -> Vec<usize> {
    match args.opt("elem") {
        Some(s) => (0..ELEMS.len()).filter(|i| s.split(',').any(|x| x == ELEMS[*i])).collect(),
        None => (0..ELEMS.len()).collect(),
    }
}

fn fill_out(out: &mut CaseOut, rep: Report, elem: &str) {
    out.evals = rep.ops;
    out.events = rep.checks;
    out.nontrivial = rep.checks >= 1;
    out.tags.extend(rep.tags.iter().map(|s| s.to_string()));
    out.tags.push(format!("elem:{elem}"));
    out.count("seqs", rep.seqs);
    out.count("skipped_ops", rep.skipped_ops);
    out.count("hang_skips", rep.hang_skips);
    for v in rep.viols {
        out.viol(v.sig, v.msg, J::obj().set("seq", v.seq).set("count", v.count));
    }
    for (p, seq) in rep.panics {
        out.viol(panic_sig(&p), p.clone(), J::obj().set("seq", seq));
    }
}

// ---------------------------------------------------------------------------
// Driver 1: Rust API
// ---------------------------------------------------------------------------

struct Section {
    elem: usize,
    per_init: u64,
    total: u64,
    first_block: u64,
    blocks: u64,
}

pub struct ListApi {
    worker: Worker<()>,
    hs: HangState,
    alpha: Vec<Op>,
    sections: Vec<Section>,
    block: u64,
    exh_blocks: u64,
    random: u64,
    elems: Vec<usize>,
}

impl ListApi {
    pub fn new(args: &Args) -> ListApi {
        let alpha = lc::alphabet(2);
        let a = alpha.len() as u64;
        let num = |k: &str, d: u64| args.opt(k).and_then(|s| s.parse().ok()).unwrap_or(d);
        // quick: every sequence up to 3 operations for all element types, up to 4 for u64
        // and the 24-byte tracked type in thorough
        let len_main = num("len-main", if args.thorough() { 4 } else { 3 }) as u32;
        let len_other = num("len-other", 3) as u32;
        let block = num("block", 8192);
        let random = num("random", if args.thorough() { 40_000 } else { 4_000 });
        let elems = elem_filter(args);
        let mut sections = Vec::new();
        let mut first = 0;
        for &e in &elems {
            let l = if e <= 1 { len_main } else { len_other };
            if l == 0 {
                continue;
            }
            let per_init = lc::n_seqs(a, l);
            let total = per_init * lc::N_INITS;
            let blocks = total.div_ceil(block);
            sections.push(Section { elem: e, per_init, total, first_block: first, blocks });
            first += blocks;
        }
        ListApi { worker: Worker::spawn(|| ()), hs: HangState::default(), alpha, sections, block, exh_blocks: first, random, elems }
    }

    fn run_src<E: Elem>(&mut self, src: Arc<dyn SeqSource>, args: &Args) -> Report {
        let cfg = ExecCfg { ledger_every_op: true, max_len: 1200 };
        lc::run_block::<E, (), RustApi>(
            &mut self.worker,
            &|| Worker::spawn(|| ()),
            &mut self.hs,
            timeout(args),
            src,
            cfg,
            Arc::new(|_: &mut (), _| RustApi::default()),
        )
    }
}

impl Family for ListApi {
    fn n_cases(&self, _args: &Args) -> u64 {
        self.exh_blocks + self.random
    }

    fn run(&mut self, k: u64, rng: &mut Rng, args: &Args) -> CaseOut {
        let mut out = CaseOut::default();
        if self.elems.is_empty() {
            out.skipped = Some("no element type selected".into());
            return out;
        }
        if k < self.exh_blocks {
            let s = self.sections.iter().find(|s| k >= s.first_block && k < s.first_block + s.blocks).unwrap();
            let lo = (k - s.first_block) * self.block;
            let hi = (lo + self.block).min(s.total);
            let elem = s.elem;
            let src = Arc::new(ExhaustiveSrc { alpha: self.alpha.clone(), per_init: s.per_init, lo, hi });
            let mut first = (Vec::new(), Vec::new());
            src.get(0, &mut first.0, &mut first.1);
            let mut last = (Vec::new(), Vec::new());
            src.get(hi - lo - 1, &mut last.0, &mut last.1);
            out.hash = hash_str(&format!("exh:{}:{lo}:{hi}:{}", ELEMS[elem], self.alpha.len()));
            out.sample = Some(
                J::obj()
                    .set("driver", "rust-api/exhaustive")
                    .set("elem", ELEMS[elem])
                    .set("sequences", J::Arr(vec![J::Int(lo as i128), J::Int(hi as i128)]))
                    .set("alphabet", self.alpha.len() as u64)
                    .set("first", format!("init [{}] ops [{}]", lc::show_ops(&first.0), lc::show_ops(&first.1)))
                    .set("last", format!("init [{}] ops [{}]", lc::show_ops(&last.0), lc::show_ops(&last.1))),
            );
            out.tags.push("driver:rust-api-exhaustive".into());
            out.tags.push(format!("seqlen:{}", last.1.len()));
            let rep = with_elem!(elem, E => self.run_src::<E>(src, args));
            fill_out(&mut out, rep, ELEMS[elem]);
        } else {
            let r = k - self.exh_blocks;
            let elem = self.elems[(r % self.elems.len() as u64) as usize];
            let ops = lc::random_ops(rng, 3, 200, false, 256);
            let text = lc::show_ops(&ops);
            out.hash = hash_str(&format!("rand:{}:{text}", ELEMS[elem]));
            out.sample = Some(J::obj().set("driver", "rust-api/random").set("elem", ELEMS[elem]).set("n_ops", ops.len() as u64).set("ops", text));
            out.tags.push("driver:rust-api-random".into());
            let src = Arc::new(OneSrc { nh: 3, ops });
            let rep = with_elem!(elem, E => self.run_src::<E>(src, args));
            fill_out(&mut out, rep, ELEMS[elem]);
        }
        out
    }

    fn describe(&mut self, k: u64, rng: &mut Rng, _args: &Args) -> Option<J> {
        if k < self.exh_blocks {
            let s = self.sections.iter().find(|s| k >= s.first_block && k < s.first_block + s.blocks)?;
            let lo = (k - s.first_block) * self.block;
            Some(J::obj().set("driver", "rust-api/exhaustive").set("elem", ELEMS[s.elem]).set("first_sequence", lo))
        } else {
            let r = k - self.exh_blocks;
            let elem = self.elems[(r % self.elems.len().max(1) as u64) as usize];
            let ops = lc::random_ops(rng, 3, 200, false, 256);
            Some(J::obj().set("driver", "rust-api/random").set("elem", ELEMS[elem]).set("ops", lc::show_ops(&ops)))
        }
    }
}

// ---------------------------------------------------------------------------
// Drivers 2/3: scripts
// ---------------------------------------------------------------------------

use std::any::Any;
use std::collections::{BTreeSet, HashMap};

use roto::{NoCtx, Package, RotoString, Runtime, TypedFunc};

use self::listcore::{Ix, KeySel};
use crate::val::{Ev, V};

/// An element type that also exists in scripts.
pub trait ScriptElem: Elem {
    /// the Roto type
    const ROTO: &'static str;
    /// `iter` can be observed through single host-call events
    const PARSE: bool = true;
    const HAS_JOIN: bool = false;
    /// Roto expression for `make(key)`
    fn lit(key: u64) -> String;
    /// statement(s) logging the element in variable `v`
    fn emit(v: &str) -> String;
    /// the events (`Ev::show`) that `emit` produces for `make(key)`
    fn shown(key: u64) -> Vec<String>;
    /// canonical key from one logged event
    fn parse(_ev: &Ev) -> Option<u64> {
        None
    }
    fn join_via(_f: &TypedFunc<NoCtx, fn(List<RotoString>, RotoString) -> RotoString>, _l: &List<Self>, _sep: &str) -> Option<String> {
        None
    }
}

impl ScriptElem for u64 {
    const ROTO: &'static str = "u64";
    fn lit(key: u64) -> String {
        format!("{}", Self::make(key))
    }
    fn emit(v: &str) -> String {
        format!("out_u64({v});")
    }
    fn shown(key: u64) -> Vec<String> {
        vec![format!("out_u64({}u64)", Self::make(key))]
    }
    fn parse(ev: &Ev) -> Option<u64> {
        match (ev.f.as_str(), ev.args.first()) {
            ("out_u64", Some(V::Int(_, x))) => Some(*x as u64),
            _ => None,
        }
    }
}

impl ScriptElem for i32 {
    const ROTO: &'static str = "i32";
    fn lit(key: u64) -> String {
        format!("{}", Self::make(key))
    }
    fn emit(v: &str) -> String {
        format!("out_i32({v});")
    }
    fn shown(key: u64) -> Vec<String> {
        vec![format!("out_i32({}i32)", Self::make(key))]
    }
    fn parse(ev: &Ev) -> Option<u64> {
        match (ev.f.as_str(), ev.args.first()) {
            ("out_i32", Some(V::Int(_, x))) => Some(*x as i32 as u32 as u64),
            _ => None,
        }
    }
}

impl ScriptElem for RotoString {
    const ROTO: &'static str = "String";
    const HAS_JOIN: bool = true;
    fn lit(key: u64) -> String {
        format!("\"{}\"", Self::plain(key))
    }
    fn emit(v: &str) -> String {
        format!("out_str({v});")
    }
    fn shown(key: u64) -> Vec<String> {
        vec![format!("out_str({:?})", Self::plain(key))]
    }
    fn parse(ev: &Ev) -> Option<u64> {
        match (ev.f.as_str(), ev.args.first()) {
            ("out_str", Some(V::Str(s))) => Some(RotoString::from(s.as_str()).key_of()),
            _ => None,
        }
    }
    fn join_via(f: &TypedFunc<NoCtx, fn(List<RotoString>, RotoString) -> RotoString>, l: &List<Self>, sep: &str) -> Option<String> {
        Some(f.call(l.clone(), RotoString::from(sep)).to_string())
    }
}

impl ScriptElem for Val<Trk> {
    const ROTO: &'static str = "Trk";
    fn lit(key: u64) -> String {
        format!("mk({})", key as i64)
    }
    fn emit(v: &str) -> String {
        format!("out_trk({v});")
    }
    fn shown(key: u64) -> Vec<String> {
        vec![format!("out_trk(Trk#{})", key as i64)]
    }
    fn parse(ev: &Ev) -> Option<u64> {
        match (ev.f.as_str(), ev.args.first()) {
            ("out_trk", Some(V::Trk(t))) => Some(*t as u64),
            _ => None,
        }
    }
}

fn nested_of(key: u64) -> Vec<u8> {
    List::<u8>::make(key).to_vec()
}

impl ScriptElem for List<u8> {
    const ROTO: &'static str = "List[u8]";
    const PARSE: bool = false;
    fn lit(key: u64) -> String {
        let v: Vec<String> = nested_of(key).iter().map(|b| b.to_string()).collect();
        format!("[{}]", v.join(", "))
    }
    fn emit(v: &str) -> String {
        format!("out_u64({v}.len()); for y__ in {v} {{ out_u8(y__); }}")
    }
    fn shown(key: u64) -> Vec<String> {
        let b = nested_of(key);
        let mut v = vec![format!("out_u64({}u64)", b.len())];
        v.extend(b.iter().map(|x| format!("out_u8({x}u8)")));
        v
    }
}

impl ScriptElem for Option<u32> {
    const ROTO: &'static str = "u32?";
    fn lit(key: u64) -> String {
        match Self::make(key) {
            None => "None".into(),
            Some(v) => format!("Some({v})"),
        }
    }
    fn emit(v: &str) -> String {
        format!("match {v} {{ Some(w__) => {{ out_u32(w__); }} None => {{ out_unit(); }} }}")
    }
    fn shown(key: u64) -> Vec<String> {
        match Self::make(key) {
            None => vec!["out_unit()".into()],
            Some(v) => vec![format!("out_u32({v}u32)")],
        }
    }
    fn parse(ev: &Ev) -> Option<u64> {
        match (ev.f.as_str(), ev.args.first()) {
            ("out_unit", None) => Some(0),
            ("out_u32", Some(V::Int(_, x))) => Some((1 << 32) | (*x as u32 as u64)),
            _ => None,
        }
    }
}

/// `()`: a zero-sized element type WITHOUT clone/drop functions (only in the script drivers:
/// lists made by scripts; the Rust-API drivers have the zero-sized tracked type)
impl Elem for () {
    const NAME: &'static str = "unit";
    fn make(_key: u64) {}
    fn canon(_key: u64) -> u64 {
        0
    }
    fn key_of(&self) -> u64 {
        0
    }
}

impl ScriptElem for () {
    const ROTO: &'static str = "()";
    fn lit(_key: u64) -> String {
        "()".into()
    }
    fn emit(v: &str) -> String {
        format!("out_unit(); let u__: () = {v};")
    }
    fn shown(_key: u64) -> Vec<String> {
        vec!["out_unit()".into()]
    }
    fn parse(ev: &Ev) -> Option<u64> {
        match ev.f.as_str() {
            "out_unit" => Some(0),
            _ => None,
        }
    }
}

pub const SELEMS: [&str; 7] = ["u64", "i32", "string", "trk", "list<u8>", "option<u32>", "unit"];

macro_rules! with_selem {
    ($id:expr, $E:ident => $body:expr) => {
        match $id {
            0 => {
                type $E = u64;
                $body
            }
            1 => {
                type $E = i32;
                $body
            }
            2 => {
                type $E = RotoString;
                $body
            }
            3 => {
                type $E = Val<Trk>;
                $body
            }
            4 => {
                type $E = List<u8>;
                $body
            }
            5 => {
                type $E = Option<u32>;
                $body
            }
            _ => {
                type $E = ();
                $body
            }
        }
    };
}

type F<Sig> = TypedFunc<NoCtx, Sig>;

/// The list operations as script functions, compiled once per element type.
pub struct ScriptFns<E: ScriptElem> {
    new_: F<fn() -> List<E>>,
    lit0: F<fn() -> List<E>>,
    from3: F<fn(E, E, E) -> List<E>>,
    push: F<fn(List<E>, E) -> ()>,
    push2: F<fn(List<E>, E) -> List<E>>,
    get: F<fn(List<E>, u64) -> Option<E>>,
    len: F<fn(List<E>) -> u64>,
    is_empty: F<fn(List<E>) -> bool>,
    capacity: F<fn(List<E>) -> u64>,
    swap: F<fn(List<E>, u64, u64) -> ()>,
    concat: F<fn(List<E>, List<E>) -> List<E>>,
    plus: F<fn(List<E>, List<E>) -> List<E>>,
    contains: F<fn(List<E>, E) -> bool>,
    index: F<fn(List<E>, E) -> Option<u64>>,
    eq: F<fn(List<E>, List<E>) -> bool>,
    id: F<fn(List<E>) -> List<E>>,
    iter: F<fn(List<E>) -> ()>,
    join: Option<F<fn(List<RotoString>, RotoString) -> RotoString>>,
    _pkg: Package<NoCtx>,
}

pub fn fns_source<E: ScriptElem>() -> String {
    let t = E::ROTO;
    let mut s = String::new();
    s.push_str(&format!("fn s_new() -> List[{t}] {{ List.new() }}\n"));
    s.push_str(&format!("fn s_lit0() -> List[{t}] {{ [] }}\n"));
    s.push_str(&format!("fn s_from3(a: {t}, b: {t}, c: {t}) -> List[{t}] {{ [a, b, c] }}\n"));
    s.push_str(&format!("fn s_push(l: List[{t}], x: {t}) {{ l.push(x); }}\n"));
    s.push_str(&format!("fn s_push2(l: List[{t}], x: {t}) -> List[{t}] {{ let m = l; m.push(x); l }}\n"));
    s.push_str(&format!("fn s_get(l: List[{t}], i: u64) -> {t}? {{ l.get(i) }}\n"));
    s.push_str(&format!("fn s_len(l: List[{t}]) -> u64 {{ l.len() }}\n"));
    s.push_str(&format!("fn s_is_empty(l: List[{t}]) -> bool {{ l.is_empty() }}\n"));
    s.push_str(&format!("fn s_capacity(l: List[{t}]) -> u64 {{ l.capacity() }}\n"));
    s.push_str(&format!("fn s_swap(l: List[{t}], i: u64, j: u64) {{ l.swap(i, j); }}\n"));
    s.push_str(&format!("fn s_concat(a: List[{t}], b: List[{t}]) -> List[{t}] {{ a.concat(b) }}\n"));
    s.push_str(&format!("fn s_plus(a: List[{t}], b: List[{t}]) -> List[{t}] {{ a + b }}\n"));
    s.push_str(&format!("fn s_contains(l: List[{t}], x: {t}) -> bool {{ l.contains(x) }}\n"));
    s.push_str(&format!("fn s_index(l: List[{t}], x: {t}) -> u64? {{ l.index(x) }}\n"));
    s.push_str(&format!("fn s_eq(a: List[{t}], b: List[{t}]) -> bool {{ a == b }}\n"));
    s.push_str(&format!("fn s_id(l: List[{t}]) -> List[{t}] {{ l }}\n"));
    s.push_str(&format!("fn s_iter(l: List[{t}]) {{ for x in l {{ {} }} }}\n", E::emit("x")));
    if E::HAS_JOIN {
        s.push_str("fn s_join(l: List[String], sep: String) -> String { l.join(sep) }\n");
    }
    s
}

impl<E: ScriptElem> ScriptFns<E> {
    pub fn compile(rt: &Runtime<NoCtx>) -> Result<ScriptFns<E>, String> {
        let src = fns_source::<E>();
        let mut pkg = crate::exec::compile(&src, rt).map_err(|e| format!("script function library for {} rejected: {e}\n{src}", E::NAME))?;
        macro_rules! g {
            ($name:expr) => {
                pkg.get_function($name).map_err(|e| format!("get_function({}) for {}: {e}", $name, E::NAME))?
            };
        }
        Ok(ScriptFns {
            new_: g!("s_new"),
            lit0: g!("s_lit0"),
            from3: g!("s_from3"),
            push: g!("s_push"),
            push2: g!("s_push2"),
            get: g!("s_get"),
            len: g!("s_len"),
            is_empty: g!("s_is_empty"),
            capacity: g!("s_capacity"),
            swap: g!("s_swap"),
            concat: g!("s_concat"),
            plus: g!("s_plus"),
            contains: g!("s_contains"),
            index: g!("s_index"),
            eq: g!("s_eq"),
            id: g!("s_id"),
            iter: g!("s_iter"),
            join: if E::HAS_JOIN { Some(g!("s_join")) } else { None },
            _pkg: pkg,
        })
    }
}

/// State owned by the worker thread of the script drivers.
pub struct ScriptState {
    rt: Runtime<NoCtx>,
    cache: HashMap<&'static str, Box<dyn Any>>,
}

impl ScriptState {
    fn new() -> ScriptState {
        ScriptState { rt: host::runtime(), cache: HashMap::new() }
    }
    fn fns<E: ScriptElem>(&mut self) -> Arc<ScriptFns<E>> {
        if !self.cache.contains_key(E::NAME) {
            let f = match ScriptFns::<E>::compile(&self.rt) {
                Ok(f) => f,
                Err(e) => panic!("{e}"),
            };
            self.cache.insert(E::NAME, Box::new(Arc::new(f)));
        }
        self.cache[E::NAME].downcast_ref::<Arc<ScriptFns<E>>>().expect("cache type").clone()
    }
}

/// Driver 3: every operation goes either to the Rust API or through a compiled script
/// function that receives (and possibly returns) the very same list objects.
pub struct MixApi<E: ScriptElem> {
    f: Arc<ScriptFns<E>>,
    rng: Rng,
    /// probability (in 1/8) that an operation is routed through the script
    p8: u64,
    script: bool,
    origin: u8,
    rust: RustApi,
}

impl<E: ScriptElem> Api<E> for MixApi<E> {
    fn prefix(&self) -> &'static str {
        if self.script { "script." } else { "" }
    }
    fn route(&self) -> &'static str {
        if self.script { "via:script" } else { "via:rust" }
    }
    fn origin(&self) -> u8 {
        self.origin
    }
    fn begin_op(&mut self) {
        self.script = self.rng.below(8) < self.p8;
    }
    fn new_list(&mut self) -> List<E> {
        if self.script {
            self.origin = 1;
            if self.rng.bool() { self.f.new_.call() } else { self.f.lit0.call() }
        } else {
            self.origin = 0;
            self.rust.new_list()
        }
    }
    fn from_vec(&mut self, v: Vec<E>, how: u8) -> List<E> {
        if self.script {
            self.origin = 1;
            if how == 2 && v.len() == 3 {
                let mut it = v.into_iter();
                return self.f.from3.call(it.next().unwrap(), it.next().unwrap(), it.next().unwrap());
            }
            let mut l = self.f.new_.call();
            for e in v {
                if how == 1 {
                    l = self.f.push2.call(l, e);
                } else {
                    self.f.push.call(l.clone(), e);
                }
            }
            l
        } else {
            self.origin = 0;
            self.rust.from_vec(v, how)
        }
    }
    fn push(&mut self, l: &List<E>, e: E) {
        if self.script { self.f.push.call(l.clone(), e) } else { l.push(e) }
    }
    fn get(&mut self, l: &List<E>, i: u64) -> Option<E> {
        if self.script { self.f.get.call(l.clone(), i) } else { l.get(i as usize) }
    }
    fn len(&mut self, l: &List<E>) -> u64 {
        if self.script { self.f.len.call(l.clone()) } else { l.len() as u64 }
    }
    fn is_empty(&mut self, l: &List<E>) -> bool {
        if self.script { self.f.is_empty.call(l.clone()) } else { l.is_empty() }
    }
    fn capacity(&mut self, l: &List<E>) -> u64 {
        if self.script { self.f.capacity.call(l.clone()) } else { l.capacity() as u64 }
    }
    fn swap(&mut self, l: &List<E>, i: u64, j: u64) {
        if self.script { self.f.swap.call(l.clone(), i, j) } else { l.swap(i as usize, j as usize) }
    }
    fn concat(&mut self, a: &List<E>, b: &List<E>, plus: bool) -> List<E> {
        if self.script {
            self.origin = 1;
            if plus { self.f.plus.call(a.clone(), b.clone()) } else { self.f.concat.call(a.clone(), b.clone()) }
        } else {
            self.origin = 0;
            a.concat(b)
        }
    }
    fn contains(&mut self, l: &List<E>, e: E) -> bool {
        if self.script { self.f.contains.call(l.clone(), e) } else { l.contains(&e) }
    }
    fn index(&mut self, l: &List<E>, e: E) -> Option<u64> {
        if self.script { self.f.index.call(l.clone(), e) } else { l.index(&e).map(|i| i as u64) }
    }
    fn eq(&mut self, a: &List<E>, b: &List<E>) -> bool {
        if self.script { self.f.eq.call(a.clone(), b.clone()) } else { a == b }
    }
    fn clone_h(&mut self, l: &List<E>) -> List<E> {
        if self.script { self.f.id.call(l.clone()) } else { l.clone() }
    }
    fn to_vec(&mut self, l: &List<E>) -> Vec<E> {
        l.to_vec()
    }
    fn iter_keys(&mut self, l: &List<E>) -> Vec<u64> {
        if self.script && E::PARSE {
            host::log_clear();
            self.f.iter.call(l.clone());
            host::log_take().iter().map(|ev| E::parse(ev).unwrap_or(u64::MAX - 7)).collect()
        } else {
            l.clone().into_iter().map(|e| e.key_of()).collect()
        }
    }
    fn debug(&mut self, l: &List<E>) -> Option<String> {
        Some(format!("{l:?}"))
    }
    fn join(&mut self, l: &List<E>, sep: &str) -> Option<String> {
        // only scripts have join
        let f = self.f.join.as_ref()?;
        self.script = true;
        E::join_via(f, l, sep)
    }
}

// --- driver 2: whole generated scripts -------------------------------------------------

/// Model-only interpretation of an operation sequence that writes the script and the
/// host-call log it must produce.
struct Gen<E: ScriptElem> {
    lines: Vec<String>,
    exp: Vec<String>,
    slots: Vec<Option<(String, usize)>>,
    objs: Vec<Vec<u64>>,
    nvar: usize,
    next_key: u64,
    tags: BTreeSet<&'static str>,
    ops: u64,
    checks: u64,
    skipped: u64,
    rng: Rng,
    _e: std::marker::PhantomData<E>,
}

const SCRIPT_MAX_LEN: usize = 300;
const BIG: u64 = i64::MAX as u64; // largest index a Roto literal can express

impl<E: ScriptElem> Gen<E> {
    fn var(&mut self) -> String {
        self.nvar += 1;
        format!("v{}", self.nvar)
    }
    fn fresh(&mut self) -> u64 {
        self.next_key += 1;
        self.next_key
    }
    fn bind(&mut self, h: u8, v: String, content: Option<Vec<u64>>, alias: Option<usize>) {
        let o = match alias {
            Some(o) => o,
            None => {
                self.objs.push(content.unwrap_or_default());
                self.objs.len() - 1
            }
        };
        self.slots[h as usize] = Some((v, o));
    }
    fn h(&self, h: u8) -> Option<(String, usize)> {
        self.slots.get(h as usize)?.clone()
    }
    fn ix(&self, o: usize, ix: Ix) -> u64 {
        let len = self.objs[o].len() as u64;
        match ix {
            Ix::First => 0,
            Ix::Last => {
                if len > 0 {
                    len - 1
                } else {
                    BIG
                }
            }
            Ix::Len => len,
            Ix::LenP1 => len + 1,
            Ix::Max => BIG,
            Ix::Mid(s) => {
                if len > 0 {
                    s as u64 % len
                } else {
                    0
                }
            }
        }
    }
    fn keysel(&mut self, o: usize, sel: KeySel) -> u64 {
        let v = &self.objs[o];
        match sel {
            KeySel::First if !v.is_empty() => v[0],
            KeySel::Last if !v.is_empty() => v[v.len() - 1],
            KeySel::Mid(s) if !v.is_empty() => v[s as usize % v.len()],
            KeySel::Absent => {
                let present: BTreeSet<u64> = v.iter().map(|k| E::canon(*k)).collect();
                let mut k = self.next_key + 1000;
                for _ in 0..300 {
                    if !present.contains(&E::canon(k)) {
                        break;
                    }
                    k += 1;
                }
                k
            }
            _ => self.fresh(),
        }
    }
    fn position(&self, o: usize, key: u64) -> Option<u64> {
        let c = E::canon(key);
        self.objs[o].iter().position(|k| E::canon(*k) == c).map(|i| i as u64)
    }
    fn expect_elems(&mut self, o: usize) {
        let keys = self.objs[o].clone();
        for k in keys {
            self.exp.extend(E::shown(k));
        }
        self.checks += 1;
    }

    fn op(&mut self, op: Op) {
        self.ops += 1;
        let before = self.lines.len();
        self.op_inner(op);
        if self.lines.len() == before && !matches!(op, Op::DropH(_)) {
            self.skipped += 1;
        } else {
            self.tags.insert(match op {
                Op::New(_) => "script:literal-empty/new",
                Op::From(..) => "script:literal",
                Op::Push(..) => "script:push",
                Op::Get(..) => "script:get",
                Op::Len(_) => "script:len",
                Op::IsEmpty(_) => "script:is_empty",
                Op::Capacity(_) => "script:capacity",
                Op::Swap(..) => "script:swap",
                Op::Concat(_, _, _, false) => "script:concat",
                Op::Concat(_, _, _, true) => "script:plus",
                Op::Contains(..) => "script:contains",
                Op::Index(..) => "script:index",
                Op::Eq(..) => "script:eq",
                Op::CloneH(..) => "script:alias",
                Op::DropH(_) => "script:unbind",
                Op::ToVec(_) | Op::Iter(_) | Op::Debug(_) => "script:for",
                Op::Join(_) => "script:join",
            });
        }
    }

    fn op_inner(&mut self, op: Op) {
        let t = E::ROTO;
        match op {
            Op::New(h) => {
                let v = self.var();
                if self.rng.bool() {
                    self.lines.push(format!("let {v}: List[{t}] = [];"));
                } else {
                    self.lines.push(format!("let {v}: List[{t}] = List.new();"));
                }
                self.bind(h, v, None, None);
            }
            Op::From(h, n, how) => {
                let n = (n as usize).min(64);
                let keys: Vec<u64> = (0..n).map(|_| self.fresh()).collect();
                let v = self.var();
                if how == 3 && n <= 12 {
                    self.lines.push(format!("let {v}: List[{t}] = List.new();"));
                    for k in &keys {
                        self.lines.push(format!("{v}.push({});", E::lit(*k)));
                    }
                } else {
                    let lits: Vec<String> = keys.iter().map(|k| E::lit(*k)).collect();
                    self.lines.push(format!("let {v}: List[{t}] = [{}];", lits.join(", ")));
                }
                self.bind(h, v, Some(keys), None);
            }
            Op::Push(h, sel) => {
                let Some((v, o)) = self.h(h) else { return };
                if self.objs[o].len() >= SCRIPT_MAX_LEN {
                    return;
                }
                let k = self.keysel(o, sel);
                if self.rng.chance(1, 3) {
                    // through a function: lists are passed by reference
                    self.lines.push(format!("push_it({v}, {});", E::lit(k)));
                    self.tags.insert("script:push-through-function");
                } else {
                    self.lines.push(format!("{v}.push({});", E::lit(k)));
                }
                self.objs[o].push(k);
            }
            Op::Get(h, ix) => {
                let Some((v, o)) = self.h(h) else { return };
                let i = self.ix(o, ix);
                let x = self.var();
                self.lines.push(format!("match {v}.get({i}) {{ Some({x}) => {{ {} }} None => {{ out_bool(false); }} }}", E::emit(&x)));
                match self.objs[o].get(i as usize) {
                    Some(k) => self.exp.extend(E::shown(*k)),
                    None => self.exp.push("out_bool(false)".into()),
                }
                self.checks += 1;
                self.tags.insert(if (i as usize) < self.objs[o].len() { "script:get-in-range" } else { "script:get-out-of-range" });
            }
            Op::Len(h) => {
                let Some((v, o)) = self.h(h) else { return };
                self.lines.push(format!("out_u64({v}.len());"));
                self.exp.push(format!("out_u64({}u64)", self.objs[o].len()));
                self.checks += 1;
            }
            Op::IsEmpty(h) => {
                let Some((v, o)) = self.h(h) else { return };
                self.lines.push(format!("out_bool({v}.is_empty());"));
                self.exp.push(format!("out_bool({})", self.objs[o].is_empty()));
                self.checks += 1;
            }
            Op::Capacity(h) => {
                let Some((v, _)) = self.h(h) else { return };
                self.lines.push(format!("out_bool({v}.capacity() >= {v}.len());"));
                self.exp.push("out_bool(true)".into());
                self.checks += 1;
            }
            Op::Swap(h, i, j) => {
                let Some((v, o)) = self.h(h) else { return };
                let (i, j) = (self.ix(o, i), self.ix(o, j));
                self.lines.push(format!("{v}.swap({i}, {j});"));
                let n = self.objs[o].len() as u64;
                if i < n && j < n {
                    self.objs[o].swap(i as usize, j as usize);
                    self.tags.insert("script:swap-in-range");
                } else {
                    self.tags.insert("script:swap-out-of-range");
                }
            }
            Op::Concat(d, a, b, plus) => {
                let Some((va, oa)) = self.h(a) else { return };
                let Some((vb, ob)) = self.h(b) else { return };
                if self.objs[oa].len() + self.objs[ob].len() > SCRIPT_MAX_LEN {
                    return;
                }
                let v = self.var();
                if plus {
                    self.lines.push(format!("let {v} = {va} + {vb};"));
                } else {
                    self.lines.push(format!("let {v} = {va}.concat({vb});"));
                }
                self.lines.push(format!("out_u64({v}.len());"));
                let mut c = self.objs[oa].clone();
                c.extend_from_slice(&self.objs[ob]);
                self.exp.push(format!("out_u64({}u64)", c.len()));
                self.checks += 1;
                self.tags.insert(if a == b {
                    "alias:same-handle"
                } else if oa == ob {
                    "alias:same-object"
                } else {
                    "alias:distinct"
                });
                self.bind(d, v, Some(c), None);
            }
            Op::Contains(h, sel) => {
                let Some((v, o)) = self.h(h) else { return };
                let k = self.keysel(o, sel);
                self.lines.push(format!("out_bool({v}.contains({}));", E::lit(k)));
                self.exp.push(format!("out_bool({})", self.position(o, k).is_some()));
                self.checks += 1;
            }
            Op::Index(h, sel) => {
                let Some((v, o)) = self.h(h) else { return };
                let k = self.keysel(o, sel);
                let x = self.var();
                self.lines.push(format!("match {v}.index({}) {{ Some({x}) => {{ out_u64({x}); }} None => {{ out_bool(false); }} }}", E::lit(k)));
                match self.position(o, k) {
                    Some(i) => self.exp.push(format!("out_u64({i}u64)")),
                    None => self.exp.push("out_bool(false)".into()),
                }
                self.checks += 1;
            }
            Op::Eq(a, b) => {
                let Some((va, oa)) = self.h(a) else { return };
                let Some((vb, ob)) = self.h(b) else { return };
                self.lines.push(format!("out_bool({va} == {vb});"));
                let ca: Vec<u64> = self.objs[oa].iter().map(|k| E::canon(*k)).collect();
                let cb: Vec<u64> = self.objs[ob].iter().map(|k| E::canon(*k)).collect();
                self.exp.push(format!("out_bool({})", ca == cb));
                self.checks += 1;
                self.tags.insert(if oa == ob {
                    "eq:same-object"
                } else if ca == cb {
                    "eq:distinct-equal"
                } else {
                    "eq:distinct-unequal"
                });
            }
            Op::CloneH(d, s) => {
                let Some((vs, o)) = self.h(s) else { return };
                let v = self.var();
                self.lines.push(format!("let {v} = {vs};"));
                self.bind(d, v, None, Some(o));
            }
            Op::DropH(h) => {
                self.slots[h as usize] = None;
            }
            Op::ToVec(h) | Op::Iter(h) | Op::Debug(h) => {
                let Some((v, o)) = self.h(h) else { return };
                let x = self.var();
                // sometimes the loop body pushes every element onto another object
                let other = (0..self.slots.len() as u8)
                    .filter_map(|s| self.h(s))
                    .find(|(_, oo)| *oo != o && self.objs[*oo].len() + self.objs[o].len() <= SCRIPT_MAX_LEN);
                if let (Some((w, ow)), true) = (other, self.rng.chance(1, 3)) {
                    self.lines.push(format!("for {x} in {v} {{ {w}.push({x}); }}"));
                    let add = self.objs[o].clone();
                    self.objs[ow].extend(add);
                    self.tags.insert("script:for-push-other");
                } else if self.rng.chance(1, 3) {
                    // the loop is left from inside its body: `first_n` returns, `first_n_nested`
                    // returns out of two loops, `first_n_opt` leaves through `?` on None, after
                    // n elements were logged (n around 0, 1, len-1, len, len+1)
                    let len = self.objs[o].len();
                    let n = *self.rng.pick(&[0usize, 1, len.saturating_sub(1), len, len + 1]);
                    let f = *self.rng.pick(&["first_n", "first_n_nested", "first_n_opt"]);
                    if f == "first_n_opt" {
                        let y = self.var();
                        self.lines.push(format!("match first_n_opt({v}, {n}u64) {{ Some({y}) => {{ out_u64({y}); }} None => {{ out_bool(false); }} }}"));
                    } else {
                        self.lines.push(format!("{f}({v}, {n}u64);"));
                    }
                    let keys: Vec<u64> = self.objs[o].iter().take(n).copied().collect();
                    for k in keys {
                        self.exp.extend(E::shown(k));
                    }
                    if f == "first_n_opt" {
                        self.exp.push(if n < len { "out_bool(false)".to_string() } else { format!("out_u64({}u64)", len) });
                    }
                    self.checks += 1;
                    self.tags.insert(if n < len { "script:for-left-early" } else { "script:for-early-exit-not-taken" });
                } else {
                    self.lines.push(format!("for {x} in {v} {{ {} }}", E::emit(&x)));
                    self.expect_elems(o);
                }
            }
            Op::Join(h) => {
                if !E::HAS_JOIN {
                    return;
                }
                let Some((v, o)) = self.h(h) else { return };
                let sep = if self.objs[o].len() % 2 == 0 { "," } else { "" };
                self.lines.push(format!("out_str({v}.join(\"{sep}\"));"));
                let parts: Vec<String> = self.objs[o].iter().map(|k| E::plain(*k)).collect();
                self.exp.push(format!("out_str({:?})", parts.join(sep)));
                self.checks += 1;
            }
        }
    }

    fn finish(mut self) -> (String, Vec<String>, Self) {
        for h in 0..self.slots.len() as u8 {
            if let Some((v, o)) = self.h(h) {
                self.lines.push(format!("dump({v});"));
                self.exp.push(format!("out_u64({}u64)", self.objs[o].len()));
                self.expect_elems(o);
            }
        }
        let t = E::ROTO;
        let mut src = String::new();
        src.push_str(&format!("fn push_it(l: List[{t}], x: {t}) {{\n    l.push(x);\n}}\n\n"));
        src.push_str(&format!("fn dump(l: List[{t}]) {{\n    out_u64(l.len());\n    for x in l {{ {} }}\n}}\n\n", E::emit("x")));
        let e = E::emit("x");
        src.push_str(&format!("fn first_n(l: List[{t}], n: u64) {{\n    let c = 0u64;\n    for x in l {{\n        if c == n {{\n            return;\n        }}\n        {e}\n        c = c + 1;\n    }}\n}}\n\n"));
        src.push_str(&format!("fn first_n_nested(l: List[{t}], n: u64) {{\n    let c = 0u64;\n    for w in [1, 2] {{\n        for x in l {{\n            if c == n {{\n                return;\n            }}\n            if w == 1 {{\n                {e}\n                c = c + 1;\n            }}\n        }}\n        c = n;\n    }}\n}}\n\n"));
        src.push_str(&format!("fn none_if(b: bool) -> u64? {{\n    if b {{ None }} else {{ Some(1) }}\n}}\n\nfn first_n_opt(l: List[{t}], n: u64) -> u64? {{\n    let c = 0u64;\n    for x in l {{\n        let k = none_if(c == n)?;\n        {e}\n        c = c + k;\n    }}\n    Some(c)\n}}\n\n"));
        src.push_str("fn main() {\n");
        for l in &self.lines {
            src.push_str("    ");
            src.push_str(l);
            src.push('\n');
        }
        src.push_str("}\n");
        let exp = std::mem::take(&mut self.exp);
        (src, exp, self)
    }
}

fn gen_script<E: ScriptElem>(ops: &[Op], rng: &mut Rng) -> (String, Vec<String>, Gen<E>) {
    let mut g: Gen<E> = Gen {
        lines: Vec::new(),
        exp: Vec::new(),
        slots: vec![None, None, None],
        objs: Vec::new(),
        nvar: 0,
        next_key: 0,
        tags: BTreeSet::new(),
        ops: 0,
        checks: 0,
        skipped: 0,
        rng: rng.clone(),
        _e: std::marker::PhantomData,
    };
    for op in ops {
        g.op(*op);
    }
    g.finish()
}

struct ScriptRun {
    /// compile error / get_function error
    rejected: Option<String>,
    panic: Option<String>,
    log: Vec<String>,
    alarms: Vec<(String, String)>,
    live: usize,
    z_live: i64,
}

pub struct ListScript {
    worker: Worker<ScriptState>,
    hs: HangState,
    elems: Vec<usize>,
}

impl ListScript {
    pub fn new(args: &Args) -> ListScript {
        let elems = match args.opt("elem") {
            Some(s) => (0..SELEMS.len()).filter(|i| s.split(',').any(|x| x == SELEMS[*i])).collect(),
            None => (0..SELEMS.len()).collect(),
        };
        ListScript { worker: Worker::spawn(ScriptState::new), hs: HangState::default(), elems }
    }

    fn generated<E: ScriptElem>(&mut self, rng: &mut Rng, args: &Args, out: &mut CaseOut) {
        let maxlen = if rng.chance(1, 4) { 200 } else { 60 };
        let ops = lc::random_ops(rng, 3, maxlen, E::HAS_JOIN, 32);
        let (src, exp, g) = gen_script::<E>(&ops, rng);
        out.hash = hash_str(&src);
        out.sample = Some(J::obj().set("driver", "script/generated").set("elem", E::NAME).set("ops", lc::show_ops(&ops)).set("source", src.as_str()));
        out.tags.push("driver:script-generated".into());
        out.tags.push(format!("elem:{}", E::NAME));
        out.tags.extend(g.tags.iter().map(|s| s.to_string()));
        out.evals = g.ops;
        out.count("skipped_ops", g.skipped);
        let src2 = src.clone();
        let res = self.worker.run(timeout(args), move |st: &mut ScriptState, sh| {
            *sh.pending.lock().unwrap() = Some(format!("hang:script-main@{}", E::NAME));
            let mut r = ScriptRun { rejected: None, panic: None, log: Vec::new(), alarms: Vec::new(), live: 0, z_live: 0 };
            let rt = &st.rt;
            let run = lc::catch(|| -> Result<Vec<Ev>, String> {
                let mut pkg = crate::exec::compile(&src2, rt)?;
                let f = pkg.get_function::<fn() -> ()>("main").map_err(|e| format!("get_function: {e}"))?;
                host::ledger_reset();
                host::log_clear();
                f.call();
                Ok(host::log_take())
            });
            match run {
                Err(p) => r.panic = Some(p),
                Ok(Err(e)) => r.rejected = Some(e),
                Ok(Ok(log)) => {
                    // element constructors are not part of the comparison
                    r.log = log.iter().filter(|e| e.f != "mk").map(|e| e.show()).collect();
                    let led = host::ledger_report();
                    r.alarms = led.alarms.iter().map(|a| (a.kind.to_string(), format!("{}: instance {} {}", a.kind, a.id, a.info))).collect();
                    r.live = led.live.len();
                    r.z_live = led.z_live;
                }
            }
            *sh.pending.lock().unwrap() = None;
            r
        });
        match res {
            Err(h) => {
                out.viol(h.pending.clone(), "the generated script did not return; the worker thread was abandoned", J::obj().set("elem", E::NAME));
                self.hs.hung.insert(h.pending);
                self.worker = Worker::spawn(ScriptState::new);
            }
            Ok(r) => {
                if let Some(p) = r.panic {
                    out.viol(panic_sig(&p), p, J::obj().set("elem", E::NAME));
                } else if let Some(e) = r.rejected {
                    out.viol(format!("list:script-rejected@{}", E::NAME), format!("generated list script was rejected: {e}"), J::Null);
                } else {
                    out.events = r.log.len() as u64;
                    out.nontrivial = !exp.is_empty();
                    if let Some(i) = (0..exp.len().max(r.log.len())).find(|i| exp.get(*i) != r.log.get(*i)) {
                        // name the statement kind that produced the first differing event
                        let lo = i.saturating_sub(3);
                        let ctx_got: Vec<String> = r.log.iter().skip(lo).take(7).cloned().collect();
                        let ctx_exp: Vec<String> = exp.iter().skip(lo).take(7).cloned().collect();
                        let what = exp.get(i).or(r.log.get(i)).map(|s| s.split('(').next().unwrap_or("").to_string()).unwrap_or_default();
                        out.viol(
                            format!("list:script-log@{}/{}", E::NAME, what),
                            format!("host-call log differs from the model at event {i}: got {:?}, model {:?}", r.log.get(i), exp.get(i)),
                            J::obj().set("got", J::Arr(ctx_got.into_iter().map(J::Str).collect())).set("model", J::Arr(ctx_exp.into_iter().map(J::Str).collect())),
                        );
                    }
                    for (kind, msg) in r.alarms {
                        out.viol(format!("ledger:{kind}@list-script/{}", E::NAME), msg, J::Null);
                    }
                    if r.live != 0 {
                        out.viol(format!("ledger:leak@list-script/{}", E::NAME), format!("{} tracked instances live after the script returned", r.live), J::Null);
                    }
                }
            }
        }
    }

    fn mixed<E: ScriptElem>(&mut self, rng: &mut Rng, args: &Args, out: &mut CaseOut, seed: u64) {
        let p8 = *rng.pick(&[4u64, 4, 8, 2]);
        let ops = lc::random_ops(rng, 3, 200, E::HAS_JOIN, 256);
        let text = lc::show_ops(&ops);
        out.hash = hash_str(&format!("mix:{}:{p8}:{seed}:{text}", E::NAME));
        out.sample = Some(
            J::obj()
                .set("driver", "script/alternating")
                .set("elem", E::NAME)
                .set("script_share_8ths", p8)
                .set("route_seed", seed)
                .set("ops", text)
                .set("functions", fns_source::<E>()),
        );
        out.tags.push("driver:script-alternating".into());
        out.tags.push(format!("script-share:{p8}/8"));
        let src = Arc::new(OneSrc { nh: 3, ops });
        let cfg = ExecCfg { ledger_every_op: true, max_len: 1200 };
        let rep = lc::run_block::<E, ScriptState, MixApi<E>>(
            &mut self.worker,
            &|| Worker::spawn(ScriptState::new),
            &mut self.hs,
            timeout(args),
            src,
            cfg,
            Arc::new(move |st: &mut ScriptState, i| MixApi { f: st.fns::<E>(), rng: Rng::new(seed ^ i), p8, script: false, origin: 0, rust: RustApi::default() }),
        );
        fill_out(out, rep, E::NAME);
    }
}

impl Family for ListScript {
    fn n_cases(&self, args: &Args) -> u64 {
        if args.thorough() { 40_000 } else { 4_000 }
    }

    fn run(&mut self, k: u64, rng: &mut Rng, args: &Args) -> CaseOut {
        let mut out = CaseOut::default();
        if self.elems.is_empty() {
            out.skipped = Some("no element type selected".into());
            return out;
        }
        let mode = match args.opt("mode") {
            Some("generated") => 0,
            Some("alternating") => 1,
            _ => k % 2,
        };
        let elem = self.elems[((k / 2) % self.elems.len() as u64) as usize];
        let seed = rng.next();
        if mode == 0 {
            with_selem!(elem, E => self.generated::<E>(rng, args, &mut out));
        } else {
            with_selem!(elem, E => self.mixed::<E>(rng, args, &mut out, seed));
        }
        out
    }

    fn describe(&mut self, k: u64, rng: &mut Rng, _args: &Args) -> Option<J> {
        let elem = self.elems[((k / 2) % self.elems.len().max(1) as u64) as usize];
        let _ = rng.next();
        Some(J::obj().set("driver", if k % 2 == 0 { "script/generated" } else { "script/alternating" }).set("elem", SELEMS[elem]))
    }
}
