//! C14: constants are evaluated once, in dependency order, before any call.
//!
//! Every constant initialiser calls the logging host function `init(k)`. The log
//! recorded during `compile` must contain each constant exactly once and after
//! all of its (transitive) dependencies; nothing may be logged afterwards; every
//! function and constant must later observe the value implied by the graph.
//! Graphs with an injected cycle or a context read must be rejected before any
//! `init` event is logged.
//!
//! The graph is a DAG of constants and functions whose strongly connected
//! components are single constants, single functions or *recursive function
//! groups* (self-recursive functions, mutually recursive pairs and triples with a
//! decreasing depth parameter). Every node carries one i64; it travels through a
//! randomly chosen *value shape* (String, List, named / generic / anonymous records,
//! enums with payloads, Option, lists of those, nestings) with explicit copies,
//! comparisons and drops on the way. The shapes only route the i64 through
//! aggregate copies, so the value model is the plain integer model. Identifier
//! spellings, module names and module placement are random per case; the record and
//! enum types are declared in random modules at random places (also after their uses).
//!
//! Injected defects: a cycle (self, mutual, through new functions / recursive groups,
//! or through a function the constant already reaches) or a context read (direct or at
//! the end of such a route; a group is entered through any member and left from any
//! member or from a helper that only one member calls). A graph with a defect is first
//! only parsed and type checked (the stages of `compile` that can reject): if they accept
//! it the violation is reported without generating code, because that would evaluate the
//! constant without a context / before itself and kill the worker.
//! Valid graphs may contain context reads in functions that no constant reaches.
//!
//! `--probe FILE` compiles a hand-written program with the family's runtime (see `probe`).

use std::cell::RefCell;
use std::collections::{BTreeMap, BTreeSet};

use roto::{Context, FileSpec, FileTree, RotoString, Runtime, SourceFile, library};

use crate::jsonw::J;
use crate::rng::Rng;
use crate::work::{Args, CaseOut, Family, catch, hash_str, panic_sig};

thread_local! {
    static INITS: RefCell<Vec<u32>> = const { RefCell::new(Vec::new()) };
}

fn take_inits() -> Vec<u32> {
    INITS.with(|l| std::mem::take(&mut *l.borrow_mut()))
}

#[derive(Clone, Context)]
pub struct Cx {
    pub cv: i64,
}

fn lib() -> roto::Library {
    library! {
        /// log the evaluation of constant k and return its base value
        fn init(k: u32) -> i64 {
            INITS.with(|l| l.borrow_mut().push(k));
            (k as i64 + 1) * 1000
        }
        /// log the evaluation of the zero-sized constant k; there is no value to return
        fn zinit(k: u32) {
            INITS.with(|l| l.borrow_mut().push(k));
        }
    }
}

/// How a dependency is mentioned in an initialiser / function body.
#[derive(Clone, Copy, Debug, PartialEq)]
enum Via {
    Direct,
    Block,
    IfBranch,
    Method,
    Call,
}

/// The shape through which a node's i64 travels.
#[derive(Clone, Debug, PartialEq, Eq, PartialOrd, Ord)]
enum Sh {
    I64,
    /// the decimal text
    Str,
    /// `List[i64]`, the value is element 1
    ListI,
    /// named record `{ tag: String, n: i64 }` (type instance)
    Rec(usize),
    /// generic record `N[T] { label: String, item: T }`
    Gen(usize, Box<Sh>),
    /// anonymous record `{ s: String, v: T }`
    Anon(Box<Sh>),
    /// enum with payloads `Txt(String) | Lst(List[i64]) | Num(i64) | Nil`
    En(usize),
    /// generic enum `One(T) | Two(String, T) | Zero`
    GEn(usize, Box<Sh>),
    Opt(Box<Sh>),
    /// `List[T]`, the value is element 0
    ListOf(Box<Sh>),
    /// named record holding a named record of another declaration: `{ inner: Rec, rest: List[String] }`
    Outer(usize),
}

impl Sh {
    fn kind(&self) -> &'static str {
        match self {
            Sh::I64 => "i64",
            Sh::Str => "string",
            Sh::ListI => "list-i64",
            Sh::Rec(_) => "record",
            Sh::Gen(..) => "generic-record",
            Sh::Anon(_) => "anon-record",
            Sh::En(_) => "enum",
            Sh::GEn(..) => "generic-enum",
            Sh::Opt(_) => "option",
            Sh::ListOf(_) => "list-of",
            Sh::Outer(_) => "nested-record",
        }
    }
    fn inner(&self) -> Option<&Sh> {
        match self {
            Sh::Gen(_, i) | Sh::GEn(_, i) | Sh::Anon(i) | Sh::Opt(i) | Sh::ListOf(i) => Some(i),
            _ => None,
        }
    }
    /// has a field that can be read with `.` directly off the value
    fn has_field(&self) -> bool {
        matches!(self, Sh::Rec(_) | Sh::Gen(..) | Sh::Anon(_) | Sh::Outer(_))
    }
}

#[derive(Clone, Copy, Debug, PartialEq)]
enum TyKind {
    Rec,
    Gen,
    En,
    GEn,
    /// holds the record type instance with this index
    Outer(usize),
}

#[derive(Clone, Debug)]
struct TypeDecl {
    kind: TyKind,
    name: String,
    module: usize,
}

#[derive(Clone, Copy, Debug, PartialEq, Eq, PartialOrd, Ord)]
enum Item {
    Node(usize),
    Type(usize),
    Helper(usize),
    /// zero-sized constant
    Z(usize),
}

/// A constant of a zero-sized type: `()`, or a record whose fields are all `()`. It has no
/// value, only the effect of its initialiser (`zinit(id)`), which must happen exactly once, after
/// the constant it mentions (`dep`) and before the constant that mentions it (`user`).
#[derive(Clone, Debug)]
struct ZConst {
    /// the id its initialiser logs (continues the numbering of the nodes)
    id: usize,
    name: String,
    /// name of its record type (form 2 / 3)
    rec_name: String,
    module: usize,
    /// 0: `= zinit(id)`, 1: `= { let t = <dep>; zinit(id) }`, 2: record of units, mark in a field,
    /// 3: record of units, mark in a statement before the literal
    form: u8,
    dep: Option<usize>,
    user: Option<usize>,
}

#[derive(Clone, Debug)]
struct Dep {
    to: usize,
    via: Via,
    /// depth argument if `to` is a member of a recursive group
    depth: i64,
}

#[derive(Clone, Debug)]
struct Node {
    is_const: bool,
    deps: Vec<Dep>,
    /// members of the own recursive group that are called with `d - 1`
    calls: Vec<usize>,
    /// recursive group (functions only); members take a depth parameter
    group: Option<usize>,
    sh: Sh,
    name: String,
    module: usize,
    /// the injected context read sits here
    ctx_read: bool,
    /// depth with which the getter calls a group member
    getter_depth: i64,
}

#[derive(Clone, Debug)]
struct Graph {
    nodes: Vec<Node>,
    mod_names: Vec<String>,
    /// textual order of the nodes
    order: Vec<usize>,
    types: Vec<TypeDecl>,
    /// injected defect
    defect: Option<String>,
    /// import style per module: use `import` for foreign names instead of paths
    use_imports: bool,
    /// syntactic position of the injected context read (index into CTX_FORMS)
    ctx_form: usize,
    n_groups: usize,
    used_names: BTreeSet<String>,
    tags: BTreeSet<String>,
    /// zero-sized constants (added once the nodes are final)
    zconsts: Vec<ZConst>,
}

/// Ways a context variable can be read (all are reads of `cv`, an i64).
const CTX_FORMS: [(&str, &str); 7] = [
    ("plain", "cv"),
    ("method-receiver", "{ let s = cv.to_string(); let n: u64 = s.bytes().len(); n_to_i64(n) }"),
    ("block", "{ let t = cv; t }"),
    ("condition", "(if cv == 0 { 1 } else { 2 })"),
    ("argument", "n_to_i64(n_of(cv))"),
    ("operand-right", "(0 - cv)"),
    ("match-scrutinee", "(match Some(cv) { Some(x) => x, None => 0 })"),
];

/// What the forms evaluate to when `cv` is 5 (the value the harness passes).
const CTX_VALUES: [i64; 7] = [5, 1, 5, 2, 5, -5, 5];

const WORDS: [&str; 40] = [
    "parity", "limit", "base", "total", "seven_is_odd", "label", "count", "alpha", "beta", "gamma", "delta", "omega", "route", "peer",
    "origin", "weight", "score", "index", "head", "tail", "left", "right", "upper", "lower", "first", "last", "size", "depth", "width",
    "check", "even", "odd", "step", "next", "prev", "mark", "flag", "rank", "cost", "hop",
];

/// spellings that must not be produced (keywords, names of the runtime, names the generator uses itself)
const RESERVED: [&str; 60] = [
    "accept", "const", "dep", "else", "enum", "filter", "filtermap", "for", "fn", "if", "import", "in", "let", "match", "pkg", "record",
    "reject", "return", "std", "super", "test", "while", "true", "false", "not", "init", "cv", "n_to_i64", "n_of", "s_to_i64", "some",
    "none", "option", "string", "list", "result", "ok", "err", "verdict", "bool", "char", "unit", "txt", "lst", "num", "nil", "one", "two",
    "zero", "acc", "tag", "label", "item", "inner", "rest", "keep", "note", "asn", "prefix", "ipaddr",
];

#[derive(Clone, Copy, PartialEq)]
enum Style {
    Upper,
    Lower,
    Pascal,
}

fn fresh_name(rng: &mut Rng, used: &mut BTreeSet<String>, style: Style) -> String {
    const LETTERS: &[u8] = b"abcdefghijklmnopqrstuvwxyz";
    const ALNUM: &[u8] = b"abcdefghijklmnopqrstuvwxyz0123456789_";
    for attempt in 0..200 {
        let mut s = String::new();
        match rng.below(4) {
            0 => {
                s.push_str(*rng.pick(&WORDS[..]));
                if rng.bool() {
                    s.push_str(&rng.below(100).to_string());
                }
            }
            1 | 2 => {
                s.push_str(*rng.pick(&WORDS[..]));
                s.push('_');
                for _ in 0..1 + rng.usize(4) {
                    s.push(*rng.pick(ALNUM) as char);
                }
            }
            _ => {
                for _ in 0..3 + rng.usize(5) {
                    s.push(*rng.pick(LETTERS) as char);
                }
                // always with digits: no name of the runtime is spelled like that
                s.push_str(&rng.below(1000).to_string());
            }
        }
        if attempt > 100 {
            s.push_str(&format!("_{}", used.len()));
        }
        let key = s.to_ascii_lowercase();
        let local_like = key.starts_with('v') && key[1..].chars().all(|c| c.is_ascii_digit());
        if RESERVED.contains(&key.as_str()) || key.starts_with("get") || local_like || used.contains(&key) {
            continue;
        }
        used.insert(key);
        return match style {
            Style::Lower => s,
            Style::Upper => s.to_ascii_uppercase(),
            Style::Pascal => {
                let mut c = s.chars();
                let f = c.next().unwrap().to_ascii_uppercase();
                format!("{f}{}", c.as_str())
            }
        };
    }
    unreachable!("no fresh name")
}

/// A random non-trivial shape over the case's type pool.
fn gen_shape(rng: &mut Rng, types: &[TypeDecl], depth: usize) -> Sh {
    let of = |rng: &mut Rng, k: fn(&TyKind) -> bool| -> usize {
        let c: Vec<usize> = (0..types.len()).filter(|t| k(&types[*t].kind)).collect();
        c[rng.usize(c.len())]
    };
    let inner = |rng: &mut Rng| -> Box<Sh> {
        Box::new(if depth >= 2 || rng.chance(1, 3) {
            match rng.below(7) {
                0 => Sh::I64,
                1 => Sh::Str,
                2 => Sh::ListI,
                3 | 4 => Sh::Rec(of(rng, |k| matches!(k, TyKind::Rec))),
                5 => Sh::En(of(rng, |k| matches!(k, TyKind::En))),
                _ => Sh::Outer(of(rng, |k| matches!(k, TyKind::Outer(_)))),
            }
        } else {
            gen_shape(rng, types, depth + 1)
        })
    };
    match rng.weighted(&[2, 2, 5, 3, 3, 4, 3, 4, 3, 2]) {
        0 => Sh::Str,
        1 => Sh::ListI,
        2 => Sh::Rec(of(rng, |k| matches!(k, TyKind::Rec))),
        3 => Sh::Gen(of(rng, |k| matches!(k, TyKind::Gen)), inner(rng)),
        4 => Sh::Anon(inner(rng)),
        5 => Sh::En(of(rng, |k| matches!(k, TyKind::En))),
        6 => Sh::GEn(of(rng, |k| matches!(k, TyKind::GEn)), inner(rng)),
        7 => Sh::Opt(inner(rng)),
        8 => Sh::ListOf(inner(rng)),
        _ => Sh::Outer(of(rng, |k| matches!(k, TyKind::Outer(_)))),
    }
}

fn node_shape(rng: &mut Rng, types: &[TypeDecl]) -> Sh {
    if rng.chance(11, 20) { Sh::I64 } else { gen_shape(rng, types, 0) }
}

impl Graph {
    fn n_modules(&self) -> usize {
        self.mod_names.len()
    }

    fn is_func(&self, i: usize) -> bool {
        !self.nodes[i].is_const
    }

    /// value of node `i` (called with depth `d` if it is a group member)
    fn value(&self, i: usize, d: i64, memo: &mut BTreeMap<(usize, i64), i64>) -> i64 {
        let n = &self.nodes[i];
        let d = if n.group.is_some() { d.max(0) } else { 0 };
        if let Some(v) = memo.get(&(i, d)) {
            return *v;
        }
        let mut v = if n.is_const { (i as i64 + 1) * 1000 } else { 7 };
        for dep in &n.deps {
            let dv = self.value(dep.to, dep.depth, memo);
            v = v.wrapping_add(match dep.via {
                Via::Method => dv.to_string().len() as i64,
                _ => dv,
            });
        }
        if n.ctx_read {
            v = v.wrapping_add(CTX_VALUES[self.ctx_form]);
        }
        if n.group.is_some() && d > 0 {
            v = v.wrapping_add(3);
            for m in &n.calls {
                v = v.wrapping_add(self.value(*m, d - 1, memo));
            }
        }
        memo.insert((i, d), v);
        v
    }

    /// number of function invocations that evaluating a mention of node `i` costs
    fn cost(&self, i: usize, d: i64, memo: &mut BTreeMap<(usize, i64), u64>) -> u64 {
        let n = &self.nodes[i];
        if n.is_const {
            return 0;
        }
        let d = if n.group.is_some() { d.max(0) } else { 0 };
        if let Some(v) = memo.get(&(i, d)) {
            return *v;
        }
        let mut c = 1u64;
        for dep in &n.deps {
            c = c.saturating_add(self.cost(dep.to, dep.depth, memo));
        }
        if n.group.is_some() && d > 0 {
            for m in &n.calls {
                c = c.saturating_add(self.cost(*m, d - 1, memo));
            }
        }
        memo.insert((i, d), c);
        c
    }

    fn total_cost(&self) -> u64 {
        let mut memo = BTreeMap::new();
        let mut c = 0u64;
        for (i, n) in self.nodes.iter().enumerate() {
            if n.is_const {
                for dep in &n.deps {
                    c = c.saturating_add(self.cost(dep.to, dep.depth, &mut memo));
                }
            } else {
                c = c.saturating_add(self.cost(i, n.getter_depth, &mut memo).saturating_mul(2));
            }
        }
        c
    }

    /// all constants that must have been evaluated before constant `i`
    fn const_deps(&self, i: usize, seen: &mut BTreeSet<usize>, out: &mut BTreeSet<usize>) {
        let n = &self.nodes[i];
        let deps: Vec<usize> = n.deps.iter().map(|d| d.to).chain(n.calls.iter().copied()).collect();
        for d in deps {
            if self.nodes[d].is_const {
                out.insert(d);
            }
            if seen.insert(d) {
                self.const_deps(d, seen, out);
            }
        }
    }

    fn add_node(&mut self, rng: &mut Rng, is_const: bool, plain_shape: bool) -> usize {
        let name = fresh_name(rng, &mut self.used_names, if is_const { Style::Upper } else { Style::Lower });
        let sh = if plain_shape { Sh::I64 } else { node_shape(rng, &self.types) };
        let module = rng.usize(self.n_modules());
        self.nodes.push(Node { is_const, deps: vec![], calls: vec![], group: None, sh, name, module, ctx_read: false, getter_depth: rng.range(0, 3) });
        let i = self.nodes.len() - 1;
        let pos = rng.usize(self.order.len() + 1);
        self.order.insert(pos, i);
        i
    }

    /// Make a recursive group out of the function nodes `members`: a ring through all of them
    /// (a self call for a single one) plus some extra calls inside the group.
    fn connect_group(&mut self, rng: &mut Rng, members: &[usize]) -> usize {
        let gid = self.n_groups;
        self.n_groups += 1;
        let mut ring = members.to_vec();
        rng.shuffle(&mut ring);
        for (p, &m) in ring.iter().enumerate() {
            let next = ring[(p + 1) % ring.len()];
            let mut calls = vec![next];
            if rng.chance(1, 3) {
                let extra = *rng.pick(members);
                if !calls.contains(&extra) {
                    calls.push(extra);
                }
            }
            self.nodes[m].group = Some(gid);
            self.nodes[m].calls = calls;
        }
        gid
    }
}

fn gen_graph(rng: &mut Rng) -> Graph {
    let mut used_names: BTreeSet<String> = BTreeSet::new();
    let n_modules = 1 + rng.usize(4);
    let mut mod_names = vec!["pkg".to_string()];
    for _ in 1..n_modules {
        mod_names.push(fresh_name(rng, &mut used_names, Style::Lower));
    }
    // the pool of type declarations of this case (only the used ones are printed)
    let mut types = Vec::new();
    for kind in [TyKind::Rec, TyKind::Rec, TyKind::Gen, TyKind::Gen, TyKind::En, TyKind::En, TyKind::GEn, TyKind::Outer(0), TyKind::Outer(1)] {
        types.push(TypeDecl { kind, name: fresh_name(rng, &mut used_names, Style::Pascal), module: rng.usize(n_modules) });
    }

    let n_const = 2 + rng.usize(11);
    let n_func = rng.usize(9);
    let n = n_const + n_func;
    // a random topological numbering: node i may only depend on nodes < i
    let mut kinds: Vec<bool> = (0..n).map(|i| i < n_const).collect();
    rng.shuffle(&mut kinds);
    // with shapes: all nodes, about half of them, or none
    let shape_mode = [0, 0, 1, 2, 2, 2, 2, 2][rng.usize(8)];
    let mut nodes = Vec::new();
    for i in 0..n {
        let max_deps = if i == 0 { 0 } else { rng.usize(4) };
        let mut deps = BTreeSet::new();
        for _ in 0..max_deps {
            deps.insert(rng.usize(i));
        }
        let deps = deps
            .into_iter()
            .map(|d| {
                let via = if !kinds[d] || !kinds[i] {
                    Via::Call
                } else {
                    *rng.pick(&[Via::Direct, Via::Direct, Via::Block, Via::IfBranch, Via::Method])
                };
                Dep { to: d, via, depth: 0 }
            })
            .collect();
        let sh = match shape_mode {
            0 => Sh::I64,
            1 => gen_shape(rng, &types, 0),
            _ => node_shape(rng, &types),
        };
        let name = fresh_name(rng, &mut used_names, if kinds[i] { Style::Upper } else { Style::Lower });
        nodes.push(Node {
            is_const: kinds[i],
            deps,
            calls: vec![],
            group: None,
            sh,
            name,
            module: rng.usize(n_modules),
            ctx_read: false,
            getter_depth: rng.range(0, 3),
        });
    }
    let mut order: Vec<usize> = (0..n).collect();
    rng.shuffle(&mut order);
    let mut g = Graph {
        nodes,
        mod_names,
        order,
        types,
        defect: None,
        use_imports: rng.bool(),
        ctx_form: 0,
        n_groups: 0,
        used_names,
        tags: BTreeSet::new(),
        zconsts: Vec::new(),
    };

    // turn some functions into recursive groups: the further members get their own
    // dependencies among the nodes below the first member, so that the group stays one
    // strongly connected component made of functions only
    let funcs: Vec<usize> = (0..n).filter(|i| !kinds[*i]).collect();
    for &f in &funcs {
        if g.n_groups >= 2 || !rng.chance(1, 4) {
            continue;
        }
        let size = 1 + rng.usize(3);
        let mut members = vec![f];
        for _ in 1..size {
            let m = g.add_node(rng, false, shape_mode == 0);
            if shape_mode == 1 {
                g.nodes[m].sh = gen_shape(rng, &g.types, 0);
            }
            for _ in 0..rng.usize(3) {
                if f > 0 {
                    let d = rng.usize(f);
                    if !g.nodes[m].deps.iter().any(|x| x.to == d) {
                        g.nodes[m].deps.push(Dep { to: d, via: Via::Call, depth: 0 });
                    }
                }
            }
            members.push(m);
        }
        g.connect_group(rng, &members);
        g.tags.insert(format!("rec-group:size-{size}"));
        // whoever mentioned the first member now enters the group through any member
        for j in 0..g.nodes.len() {
            if members.contains(&j) {
                continue;
            }
            for dep in g.nodes[j].deps.iter_mut() {
                if dep.to == f {
                    dep.to = *rng.pick(&members);
                }
            }
        }
    }
    // depth arguments for mentions of group members
    for j in 0..g.nodes.len() {
        for k in 0..g.nodes[j].deps.len() {
            let to = g.nodes[j].deps[k].to;
            if g.nodes[to].group.is_some() {
                g.nodes[j].deps[k].depth = rng.range(0, 3);
            }
        }
    }
    // keep the number of function invocations bounded: if the product of the recursion
    // trees gets large, every group is only entered at depth 0 (still recursive statically)
    if g.total_cost() > 100_000 {
        for n in g.nodes.iter_mut() {
            n.getter_depth = 0;
            for d in n.deps.iter_mut() {
                d.depth = 0;
            }
        }
        g.tags.insert("rec-depth:clamped".into());
    }
    g
}

/// What the end of an injected route carries.
#[derive(Clone, Copy)]
enum Payload {
    Context,
    BackEdge(usize),
}

/// Inject a route from constant `a` through one or two hops - plain functions or recursive
/// groups (entered through any member; the way out is in any member or in a helper that
/// only one member calls) - to the payload. Returns (all hops are plain functions, number of hops).
fn inject_route(g: &mut Graph, rng: &mut Rng, a: usize, payload: Payload, force_plain: bool) -> (bool, usize) {
    let hops = 1 + rng.usize(2);
    let mut carrier = a;
    let mut all_plain = true;
    let mut desc = Vec::new();
    for _ in 0..hops {
        if force_plain || rng.chance(2, 5) {
            let f = { let plain = rng.bool(); g.add_node(rng, false, plain) };
            g.nodes[carrier].deps.push(Dep { to: f, via: Via::Call, depth: 0 });
            carrier = f;
            desc.push("f".to_string());
        } else {
            all_plain = false;
            let size = 1 + rng.weighted(&[2, 3, 3]);
            let members: Vec<usize> = (0..size).map(|_| { let plain = rng.bool(); g.add_node(rng, false, plain) }).collect();
            g.connect_group(rng, &members);
            let entry = *rng.pick(&members);
            g.nodes[carrier].deps.push(Dep { to: entry, via: Via::Call, depth: rng.range(0, 3) });
            // the way out: in any member (the entry or, more often, another one) ...
            let mut out = *rng.pick(&members);
            if out == entry && rng.bool() {
                out = *rng.pick(&members);
            }
            // ... or in a helper that only this member calls
            let helper = rng.chance(3, 5);
            carrier = if helper {
                let h = { let plain = rng.bool(); g.add_node(rng, false, plain) };
                g.nodes[out].deps.push(Dep { to: h, via: Via::Call, depth: 0 });
                h
            } else {
                out
            };
            desc.push(format!("g{size}{}", if helper { "h" } else { "" }));
            g.tags.insert(format!("inj-group:size-{size}"));
            g.tags.insert(format!("inj-group:exit-in-{}", if helper { "helper" } else { "member" }));
            g.tags.insert(format!("inj-group:entry-{}", if entry == out { "is-exit-member" } else { "other-member" }));
        }
    }
    match payload {
        Payload::Context => g.nodes[carrier].ctx_read = true,
        Payload::BackEdge(to) => g.nodes[carrier].deps.push(Dep { to, via: Via::Direct, depth: 0 }),
    }
    for d in &desc {
        g.tags.insert(format!("inj-hop:{d}"));
    }
    g.tags.insert(format!("inj-hops:{}", desc.len()));
    (all_plain, hops)
}

/// Put the payload into a function of the graph as generated that constant `a` already
/// reaches (directly, through other constants, functions or recursive groups). Returns
/// false if it reaches none.
fn inject_into_reached(g: &mut Graph, rng: &mut Rng, a: usize, payload: Payload) -> bool {
    let mut seen = BTreeSet::new();
    g.const_deps(a, &mut seen, &mut BTreeSet::new());
    let funcs: Vec<usize> = seen.into_iter().filter(|i| g.is_func(*i)).collect();
    if funcs.is_empty() {
        return false;
    }
    let f = *rng.pick(&funcs);
    match payload {
        Payload::Context => g.nodes[f].ctx_read = true,
        Payload::BackEdge(to) => g.nodes[f].deps.push(Dep { to, via: Via::Direct, depth: 0 }),
    }
    g.tags.insert(format!("inj-reached:{}", if g.nodes[f].group.is_some() { "group-member" } else { "function" }));
    true
}

/// Inject a cycle: returns a description, modifies the graph.
fn inject_cycle(g: &mut Graph, rng: &mut Rng) -> String {
    let consts: Vec<usize> = (0..g.nodes.len()).filter(|i| g.nodes[*i].is_const).collect();
    let a = consts[rng.usize(consts.len())];
    match rng.below(6) {
        5 if inject_into_reached(g, rng, a, Payload::BackEdge(a)) => "cycle:through-reached-function".into(),
        0 => {
            // self reference
            g.nodes[a].deps.push(Dep { to: a, via: Via::Direct, depth: 0 });
            "cycle:self".into()
        }
        1 if consts.len() >= 2 => {
            // mutual: the earlier one additionally depends on the later one
            let mut b = consts[rng.usize(consts.len())];
            if b == a {
                b = *consts.iter().find(|c| **c != a).unwrap();
            }
            let (lo, hi) = (a.min(b), a.max(b));
            if !g.nodes[hi].deps.iter().any(|d| d.to == lo) {
                g.nodes[hi].deps.push(Dep { to: lo, via: Via::Direct, depth: 0 });
            }
            g.nodes[lo].deps.push(Dep { to: hi, via: Via::Block, depth: 0 });
            "cycle:mutual".into()
        }
        k => {
            // back to the constant through functions and recursive groups
            let (plain, _) = inject_route(g, rng, a, Payload::BackEdge(a), k == 2);
            if plain { "cycle:through-function".into() } else { "cycle:through-group".into() }
        }
    }
}

#[derive(Clone, Copy, Debug, PartialEq, Eq, PartialOrd, Ord)]
enum HelperKind {
    /// `fn(T) -> i64`: takes the value by value and projects the integer out
    Unwrap,
    /// `fn(T) -> T`
    Identity,
    /// `fn(i64) -> T`
    Make,
}

#[derive(Clone, Debug)]
struct Helper {
    kind: HelperKind,
    sh: Sh,
    name: String,
    module: usize,
}

/// Prints the items of a graph; collects the helpers, the foreign mentions (for imports)
/// and the type declarations that the printed text needs.
struct Printer<'a> {
    g: &'a Graph,
    rng: &'a mut Rng,
    used_names: BTreeSet<String>,
    helpers: Vec<Helper>,
    helper_ix: BTreeMap<(HelperKind, Sh), usize>,
    /// (module, foreign item mentioned there)
    mentions: BTreeSet<(usize, Item)>,
    /// (item, type it mentions)
    type_uses: BTreeSet<(Item, usize)>,
    cur: Item,
    nv: usize,
    no_helpers: bool,
    /// only the simplest copy form (for the getters, which are not under test)
    plain_copies: bool,
    tags: BTreeSet<String>,
}

impl Printer<'_> {
    fn item_name(&self, it: Item) -> String {
        match it {
            Item::Node(i) => self.g.nodes[i].name.clone(),
            Item::Type(t) => self.g.types[t].name.clone(),
            Item::Helper(h) => self.helpers[h].name.clone(),
            Item::Z(z) => self.g.zconsts[z].name.clone(),
        }
    }

    fn item_module(&self, it: Item) -> usize {
        match it {
            Item::Node(i) => self.g.nodes[i].module,
            Item::Type(t) => self.g.types[t].module,
            Item::Helper(h) => self.helpers[h].module,
            Item::Z(z) => self.g.zconsts[z].module,
        }
    }

    /// how item `it` is referred to from module `from`
    fn refer(&mut self, it: Item, from: usize) -> String {
        if let Item::Type(t) = it {
            self.type_uses.insert((self.cur, t));
        }
        let m = self.item_module(it);
        let name = self.item_name(it);
        if m == from {
            return name;
        }
        if self.g.use_imports {
            self.mentions.insert((from, it));
            return name;
        }
        let mn = &self.g.mod_names[m];
        if m == 0 {
            format!("pkg.{name}")
        } else if from == 0 {
            if self.rng.chance(1, 4) { format!("pkg.{mn}.{name}") } else { format!("{mn}.{name}") }
        } else if self.rng.chance(1, 3) {
            format!("pkg.{mn}.{name}")
        } else {
            format!("super.{mn}.{name}")
        }
    }

    fn var(&mut self) -> String {
        self.nv += 1;
        format!("v{}", self.nv)
    }

    fn word(&mut self) -> &'static str {
        *self.rng.pick(&WORDS[..])
    }

    /// the decimal text of the i64 expression `e` (the type of a bare literal is pinned first)
    fn text_of(&mut self, e: &str) -> String {
        // a sum with a call of `init` or the `acc` local in it is known to be an i64
        let typed = e.contains("init(") || e.starts_with("acc");
        if !typed || self.rng.chance(1, 4) {
            let v = self.var();
            format!("{{ let {v}: i64 = {e}; {v}.to_string() }}")
        } else {
            format!("({e}).to_string()")
        }
    }

    fn ty(&mut self, sh: &Sh, from: usize) -> String {
        match sh {
            Sh::I64 => "i64".into(),
            Sh::Str => "String".into(),
            Sh::ListI => "List[i64]".into(),
            Sh::Rec(t) | Sh::En(t) | Sh::Outer(t) => self.refer(Item::Type(*t), from),
            Sh::Gen(t, i) | Sh::GEn(t, i) => {
                let n = self.refer(Item::Type(*t), from);
                format!("{n}[{}]", self.ty(i, from))
            }
            Sh::Anon(i) => format!("{{ s: String, v: {} }}", self.ty(i, from)),
            Sh::Opt(i) => {
                let it = self.ty(i, from);
                let simple = matches!(**i, Sh::I64 | Sh::Str | Sh::Rec(_) | Sh::En(_) | Sh::Outer(_));
                if simple && self.rng.bool() { format!("{it}?") } else { format!("Option[{it}]") }
            }
            Sh::ListOf(i) => format!("List[{}]", self.ty(i, from)),
        }
    }

    fn helper(&mut self, kind: HelperKind, sh: &Sh) -> usize {
        if let Some(h) = self.helper_ix.get(&(kind, sh.clone())) {
            return *h;
        }
        let name = fresh_name(self.rng, &mut self.used_names, Style::Lower);
        let module = self.rng.usize(self.g.n_modules());
        self.helpers.push(Helper { kind, sh: sh.clone(), name, module });
        self.helper_ix.insert((kind, sh.clone()), self.helpers.len() - 1);
        self.helpers.len() - 1
    }

    /// an expression of shape `sh` that carries the i64 expression `e` (evaluated once)
    fn wrap(&mut self, sh: &Sh, e: &str, from: usize) -> String {
        if *sh != Sh::I64 && !self.no_helpers && self.rng.chance(1, 8) {
            let h = self.helper(HelperKind::Make, sh);
            self.tags.insert("copy:made-by-function".into());
            return format!("{}({e})", self.refer(Item::Helper(h), from));
        }
        match sh {
            Sh::I64 => e.to_string(),
            Sh::Str => self.text_of(e),
            Sh::ListI => {
                if self.rng.bool() {
                    format!("[{}, {e}]", self.rng.below(9))
                } else {
                    format!("[{}, {e}, {}]", self.rng.below(9), self.rng.below(9))
                }
            }
            Sh::Rec(t) => {
                let n = self.refer(Item::Type(*t), from);
                let w = self.word();
                if self.rng.bool() { format!("{n} {{ tag: \"{w}\", n: {e} }}") } else { format!("{n} {{ n: {e}, tag: \"{w}\" }}") }
            }
            Sh::Gen(t, i) => {
                let n = self.refer(Item::Type(*t), from);
                let w = self.word();
                format!("{n} {{ label: \"{w}\", item: {} }}", self.wrap(i, e, from))
            }
            Sh::Anon(i) => {
                let w = self.word();
                format!("{{ s: \"{w}\", v: {} }}", self.wrap(i, e, from))
            }
            Sh::En(t) => {
                let n = self.refer(Item::Type(*t), from);
                match self.rng.below(3) {
                    0 => format!("{n}.Num({e})"),
                    1 => format!("{n}.Txt({})", self.text_of(e)),
                    _ => format!("{n}.Lst([{}, {e}])", self.rng.below(9)),
                }
            }
            Sh::GEn(t, i) => {
                let n = self.refer(Item::Type(*t), from);
                let w = self.wrap(i, e, from);
                if self.rng.bool() { format!("{n}.One({w})") } else { format!("{n}.Two(\"{}\", {w})", self.word()) }
            }
            Sh::Opt(i) => format!("Some({})", self.wrap(i, e, from)),
            Sh::ListOf(i) => {
                let w = self.wrap(i, e, from);
                if self.rng.chance(1, 3) {
                    let junk = self.wrap(i, "0", from);
                    format!("[{w}, {junk}]")
                } else {
                    format!("[{w}]")
                }
            }
            Sh::Outer(t) => {
                let n = self.refer(Item::Type(*t), from);
                let TyKind::Outer(r) = self.g.types[*t].kind else { unreachable!() };
                let rn = self.refer(Item::Type(r), from);
                format!("{n} {{ inner: {rn} {{ tag: \"{}\", n: {e} }}, rest: [\"{}\"] }}", self.word(), self.word())
            }
        }
    }

    /// the i64 inside the value at `place` (a local variable or a field path of one)
    fn proj(&mut self, sh: &Sh, place: &str, from: usize) -> String {
        match sh {
            Sh::I64 => place.to_string(),
            Sh::Str => format!("s_to_i64({place})"),
            Sh::ListI => {
                let v = self.var();
                format!("(match {place}.get(1) {{ Some({v}) => {v}, None => 0 - 903 }})")
            }
            Sh::Rec(_) => format!("{place}.n"),
            Sh::Outer(_) => format!("{place}.inner.n"),
            Sh::Gen(_, i) => self.sub(i, &format!("{place}.item"), from),
            Sh::Anon(i) => self.sub(i, &format!("{place}.v"), from),
            Sh::En(_) => {
                let (a, b, c, d) = (self.var(), self.var(), self.var(), self.var());
                format!(
                    "(match {place} {{ Txt({a}) => s_to_i64({a}), Lst({b}) => (match {b}.get(1) {{ Some({d}) => {d}, None => 0 - 908 }}), Num({c}) => {c}, Nil => 0 - 904 }})"
                )
            }
            Sh::GEn(_, i) => {
                let (a, b, c) = (self.var(), self.var(), self.var());
                let pa = self.sub(i, &a, from);
                let pc = self.sub(i, &c, from);
                format!("(match {place} {{ One({a}) => {pa}, Two({b}, {c}) => {pc}, Zero => 0 - 905 }})")
            }
            Sh::Opt(i) => {
                let a = self.var();
                let pa = self.sub(i, &a, from);
                format!("(match {place} {{ Some({a}) => {pa}, None => 0 - 906 }})")
            }
            Sh::ListOf(i) => {
                let a = self.var();
                let pa = self.sub(i, &a, from);
                format!("(match {place}.get(0) {{ Some({a}) => {pa}, None => 0 - 907 }})")
            }
        }
    }

    fn sub(&mut self, sh: &Sh, place: &str, from: usize) -> String {
        if *sh != Sh::I64 && self.rng.chance(1, 3) { self.unwrap(sh, place, from, false) } else { self.proj(sh, place, from) }
    }

    /// the i64 inside the expression `x` of shape `sh`, with a randomly chosen way of
    /// copying the aggregate on the way (`x` is evaluated exactly once)
    fn unwrap(&mut self, sh: &Sh, x: &str, from: usize, x_is_const: bool) -> String {
        if *sh == Sh::I64 {
            return x.to_string();
        }
        let mut w = [5u32, 4, 4, 3, 2, 3, 3, 2, 0, 2];
        if self.no_helpers {
            w[3] = 0;
            w[4] = 0;
        }
        if x_is_const && sh.has_field() {
            w[8] = 6;
        }
        if self.plain_copies {
            w = [1, 0, 0, 0, 0, 0, 0, 0, 0, 0];
        }
        let v1 = self.var();
        match self.rng.weighted(&w) {
            0 => {
                self.tags.insert("copy:let".into());
                format!("{{ let {v1} = {x}; {} }}", self.proj(sh, &v1, from))
            }
            1 => {
                self.tags.insert("copy:let-let".into());
                let v2 = self.var();
                format!("{{ let {v1} = {x}; let {v2} = {v1}; {} }}", self.proj(sh, &v2, from))
            }
            2 => {
                self.tags.insert(format!("compare:{}", sh.kind()));
                let v2 = self.var();
                let p = self.proj(sh, &v2, from);
                if self.rng.bool() {
                    format!("{{ let {v1} = {x}; let {v2} = {v1}; if {v1} == {v2} {{ {p} }} else {{ 0 - 900 }} }}")
                } else {
                    format!("{{ let {v1} = {x}; let {v2} = {v1}; if {v2} != {v1} {{ 0 - 900 }} else {{ {p} }} }}")
                }
            }
            3 => {
                self.tags.insert("copy:by-value-argument".into());
                let h = self.helper(HelperKind::Unwrap, sh);
                format!("{}({x})", self.refer(Item::Helper(h), from))
            }
            4 => {
                self.tags.insert("copy:through-identity-function".into());
                let h = self.helper(HelperKind::Identity, sh);
                let f = self.refer(Item::Helper(h), from);
                format!("{{ let {v1} = {f}({x}); {} }}", self.proj(sh, &v1, from))
            }
            5 => {
                self.tags.insert("copy:stored-in-record".into());
                let w = self.word();
                let p = self.proj(sh, &format!("{v1}.keep"), from);
                format!("{{ let {v1} = {{ keep: {x}, note: \"{w}\" }}; {p} }}")
            }
            6 => {
                self.tags.insert("copy:list-element-get".into());
                let v2 = self.var();
                let p = self.proj(sh, &v2, from);
                format!("{{ let {v1} = [{x}]; (match {v1}.get(0) {{ Some({v2}) => {p}, None => 0 - 901 }}) }}")
            }
            7 => {
                self.tags.insert("copy:match-binding".into());
                let p = self.proj(sh, &v1, from);
                format!("(match Some({x}) {{ Some({v1}) => {p}, None => 0 - 902 }})")
            }
            8 => {
                // a field read directly off the constant: once, or twice in one item at places
                // none of which is executed before the other on every path (the two blocks of
                // an if, or one block of an if and the code after it); the condition is a call
                // of registered functions, true or false at run time
                let c = if self.rng.bool() { "n_to_i64(n_of(3)) == 3" } else { "n_to_i64(n_of(3)) == 4" };
                match self.rng.below(4) {
                    0 | 1 => {
                        self.tags.insert("copy:const-field".into());
                        self.proj(sh, x, from)
                    }
                    2 => {
                        self.tags.insert("copy:const-field-in-both-branches".into());
                        let a = self.proj(sh, x, from);
                        let b = self.proj(sh, x, from);
                        format!("(if {c} {{ {a} }} else {{ {b} }})")
                    }
                    _ => {
                        self.tags.insert("copy:const-field-in-branch-and-after".into());
                        let a = self.proj(sh, x, from);
                        let b = self.proj(sh, x, from);
                        let v2 = self.var();
                        format!("{{ let {v1} = if {c} {{ {a} }} else {{ 0 - 909 }}; let {v2} = {b}; if {c} {{ {v1} }} else {{ {v2} }} }}")
                    }
                }
            }
            _ => {
                self.tags.insert("copy:assign-over".into());
                let v2 = self.var();
                let old = {
                    let save = self.no_helpers;
                    self.no_helpers = true;
                    let o = self.wrap(sh, "0", from);
                    self.no_helpers = save;
                    o
                };
                let p = self.proj(sh, &v2, from);
                format!("{{ let {v1} = {x}; let {v2} = {old}; {v2} = {v1}; {p} }}")
            }
        }
    }

    /// a mention of node `to` (with the call if it is a function), as an i64
    fn mention(&mut self, to: usize, depth: &str, from: usize) -> String {
        let r = self.refer(Item::Node(to), from);
        let n = &self.g.nodes[to];
        let sh = n.sh.clone();
        let x = if n.is_const {
            r
        } else if n.group.is_some() {
            format!("{r}({depth})")
        } else {
            format!("{r}()")
        };
        let is_const = n.is_const;
        self.unwrap(&sh, &x, from, is_const)
    }

    fn terms(&mut self, i: usize) -> Vec<String> {
        let n = &self.g.nodes[i];
        let from = n.module;
        let mut terms = vec![if n.is_const { format!("init({i})") } else { "7".to_string() }];
        for dep in n.deps.clone() {
            let r = self.mention(dep.to, &dep.depth.to_string(), from);
            terms.push(match dep.via {
                Via::Direct | Via::Call => r,
                Via::Block => format!("{{ let t = {r}; t }}"),
                Via::IfBranch => format!("(if true {{ {r} }} else {{ 0 }})"),
                Via::Method => format!("{{ let s = {r}.to_string(); let n: u64 = s.bytes().len(); n_to_i64(n) }}"),
            });
        }
        if n.ctx_read {
            terms.push(CTX_FORMS[self.g.ctx_form].1.to_string());
        }
        for z in 0..self.g.zconsts.len() {
            if self.g.zconsts[z].user == Some(i) {
                let r = self.refer(Item::Z(z), from);
                terms.push(match self.rng.below(3) {
                    0 => format!("{{ let z = {r}; 0 }}"),
                    1 => format!("{{ {r}; 0 }}"),
                    _ => format!("(if {r} == {r} {{ 0 }} else {{ 1 }})"),
                });
            }
        }
        // some terms make a round trip through a local value of a random shape
        for (k, t) in terms.iter_mut().enumerate() {
            if k > 0 && self.rng.chance(1, 10) {
                let sh = gen_shape(self.rng, &self.g.types, 1);
                self.tags.insert(format!("local-shape:{}", sh.kind()));
                let w = self.wrap(&sh, t, from);
                *t = self.unwrap(&sh, &w, from, false);
            }
        }
        terms
    }

    fn node_source(&mut self, i: usize) -> String {
        self.cur = Item::Node(i);
        let n = &self.g.nodes[i];
        let (from, sh, name) = (n.module, n.sh.clone(), n.name.clone());
        let terms = self.terms(i).join(" + ");
        let ty = self.ty(&sh, from);
        if n.is_const {
            format!("const {name}: {ty} = {};\n", self.wrap(&sh, &terms, from))
        } else if n.group.is_none() {
            format!("fn {name}() -> {ty} {{\n    {}\n}}\n", self.wrap(&sh, &terms, from))
        } else {
            let mut step = vec!["acc".to_string(), "3".to_string()];
            for m in n.calls.clone() {
                step.push(self.mention(m, "d - 1", from));
            }
            let base = self.wrap(&sh, "acc", from);
            let stepped = self.wrap(&sh, &step.join(" + "), from);
            format!("fn {name}(d: i64) -> {ty} {{\n    let acc: i64 = {terms};\n    if d <= 0 {{\n        {base}\n    }} else {{\n        {stepped}\n    }}\n}}\n")
        }
    }

    fn z_source(&mut self, z: usize) -> String {
        self.cur = Item::Z(z);
        let zc = self.g.zconsts[z].clone();
        let (name, id, from) = (zc.name.clone(), zc.id, zc.module);
        let dep = zc.dep.map(|d| {
            let depth = self.g.nodes[d].getter_depth.to_string();
            self.mention(d, &depth, from)
        });
        let rec = zc.rec_name.clone();
        match zc.form {
            0 => format!("const {name}: () = zinit({id});\n"),
            1 => format!("const {name}: () = {{ let t = {}; zinit({id}) }};\n", dep.unwrap_or("0".into())),
            2 => {
                let pre = dep.map(|d| format!("let t = {d}; ")).unwrap_or_default();
                format!("record {rec} {{ u: (), w: () }}\nconst {name}: {rec} = {{ {pre}{rec} {{ u: zinit({id}), w: () }} }};\n")
            }
            _ => {
                let pre = dep.map(|d| format!("let t = {d}; ")).unwrap_or_default();
                format!("const {name}: {rec} = {{ {pre}zinit({id}); {rec} {{ u: () }} }};\nrecord {rec} {{ u: () }}\n")
            }
        }
    }

    fn helper_source(&mut self, h: usize) -> String {
        self.cur = Item::Helper(h);
        self.no_helpers = true;
        let Helper { kind, sh, name, module } = self.helpers[h].clone();
        let ty = self.ty(&sh, module);
        match kind {
            HelperKind::Unwrap => format!("fn {name}(p: {ty}) -> i64 {{\n    {}\n}}\n", self.proj(&sh, "p", module)),
            HelperKind::Identity => {
                if self.rng.bool() {
                    format!("fn {name}(p: {ty}) -> {ty} {{\n    p\n}}\n")
                } else {
                    format!("fn {name}(p: {ty}) -> {ty} {{\n    let q = p;\n    q\n}}\n")
                }
            }
            HelperKind::Make => format!("fn {name}(n: i64) -> {ty} {{\n    {}\n}}\n", self.wrap(&sh, "n", module)),
        }
    }

    fn type_source(&mut self, t: usize) -> String {
        self.cur = Item::Type(t);
        let TypeDecl { kind, name, module } = self.g.types[t].clone();
        match kind {
            TyKind::Rec => {
                if self.rng.bool() {
                    format!("record {name} {{ tag: String, n: i64 }}\n")
                } else {
                    format!("record {name} {{\n    n: i64,\n    tag: String,\n}}\n")
                }
            }
            TyKind::Gen => format!("record {name}[T] {{ label: String, item: T }}\n"),
            TyKind::En => format!("enum {name} {{ Txt(String), Lst(List[i64]), Num(i64), Nil }}\n"),
            TyKind::GEn => format!("enum {name}[T] {{\n    One(T),\n    Two(String, T),\n    Zero,\n}}\n"),
            TyKind::Outer(r) => {
                let rn = self.refer(Item::Type(r), module);
                format!("record {name} {{ inner: {rn}, rest: List[String] }}\n")
            }
        }
    }
}

struct Case {
    g: Graph,
    /// (module name, source), pkg first
    files: Vec<(String, String)>,
    tags: Vec<String>,
    use_ctx_rt: bool,
}

fn sources(g: &Graph, rng: &mut Rng, tags: &mut BTreeSet<String>) -> Vec<(String, String)> {
    let mut p = Printer {
        g,
        rng,
        used_names: g.used_names.clone(),
        helpers: vec![],
        helper_ix: BTreeMap::new(),
        mentions: BTreeSet::new(),
        type_uses: BTreeSet::new(),
        cur: Item::Node(0),
        nv: 0,
        no_helpers: false,
        plain_copies: false,
        tags: BTreeSet::new(),
    };
    let mut text: BTreeMap<Item, String> = BTreeMap::new();
    for i in 0..g.nodes.len() {
        let s = p.node_source(i);
        text.insert(Item::Node(i), s);
    }
    // getters for every constant and function, in pkg
    let mut getters = String::new();
    p.cur = Item::Node(usize::MAX);
    for i in 0..g.nodes.len() {
        let depth = g.nodes[i].getter_depth.to_string();
        p.plain_copies = p.rng.chance(2, 3);
        let e = p.mention(i, &depth, 0);
        p.plain_copies = false;
        getters.push_str(&format!("fn get{i}() -> i64 {{\n    {e}\n}}\n"));
    }
    for z in 0..g.zconsts.len() {
        let s = p.z_source(z);
        text.insert(Item::Z(z), s);
    }
    for h in 0..p.helpers.len() {
        let s = p.helper_source(h);
        text.insert(Item::Helper(h), s);
    }
    // declarations of the types that were mentioned (a nested record needs its inner record)
    let mut used: BTreeSet<usize> = p.type_uses.iter().map(|u| u.1).collect();
    for t in used.clone() {
        if let TyKind::Outer(r) = g.types[t].kind {
            used.insert(r);
        }
    }
    for &t in &used {
        let s = p.type_source(t);
        text.insert(Item::Type(t), s);
    }
    // textual order: the nodes as drawn, helpers and types at random places in between
    let mut order: Vec<Item> = g.order.iter().map(|i| Item::Node(*i)).collect();
    for h in 0..p.helpers.len() {
        let pos = p.rng.usize(order.len() + 1);
        order.insert(pos, Item::Helper(h));
    }
    for z in 0..g.zconsts.len() {
        let pos = p.rng.usize(order.len() + 1);
        order.insert(pos, Item::Z(z));
    }
    let types_first = p.rng.chance(1, 4);
    for (k, &t) in used.iter().enumerate() {
        let pos = if types_first { k } else { p.rng.usize(order.len() + 1) };
        order.insert(pos, Item::Type(t));
    }
    // is a type declared after an item of the same module that mentions it?
    for &t in &used {
        let tpos = order.iter().position(|x| *x == Item::Type(t)).unwrap();
        let tm = g.types[t].module;
        let mut after = false;
        let mut foreign = false;
        for (it, ut) in &p.type_uses {
            if *ut != t || *it == Item::Node(usize::MAX) {
                continue;
            }
            if p.item_module(*it) != tm {
                foreign = true;
            } else if order.iter().position(|x| x == it).is_some_and(|ip| ip < tpos) {
                after = true;
            }
        }
        p.tags.insert(format!("type-decl:{}", if after { "after-a-use" } else { "before-uses" }));
        if foreign {
            p.tags.insert("type-decl:used-from-other-module".into());
        }
    }
    let mut files: Vec<(String, String)> = g.mod_names.iter().map(|m| (m.clone(), String::new())).collect();
    if g.use_imports {
        for (from, it) in p.mentions.clone() {
            let m = p.item_module(it);
            let name = p.item_name(it);
            let path = if m == 0 { format!("pkg.{name}") } else { format!("pkg.{}.{name}", g.mod_names[m]) };
            files[from].1.push_str(&format!("import {path};\n"));
        }
    }
    for it in &order {
        let m = p.item_module(*it);
        files[m].1.push_str(&text[it]);
    }
    files[0].1.push_str(&getters);
    tags.extend(p.tags.iter().cloned());
    tags.insert(format!("helpers:{}", p.helpers.len().min(6)));
    files
}

fn gen_case(rng: &mut Rng) -> Case {
    let mut g = gen_graph(rng);
    let mode = rng.below(10);
    let with_ctx_runtime = rng.bool();
    if mode < 2 {
        g.defect = Some(inject_cycle(&mut g, rng));
    } else if mode < 4 {
        // a context read: directly in a constant, or at the end of a route through
        // functions and recursive groups that a constant reaches
        let consts: Vec<usize> = (0..g.nodes.len()).filter(|i| g.nodes[*i].is_const).collect();
        let a = consts[rng.usize(consts.len())];
        g.ctx_form = rng.usize(CTX_FORMS.len());
        let form = CTX_FORMS[g.ctx_form].0;
        match rng.below(6) {
            0 => {
                g.nodes[a].ctx_read = true;
                g.defect = Some(format!("context:direct:{form}"));
            }
            5 if inject_into_reached(&mut g, rng, a, Payload::Context) => {
                g.defect = Some(format!("context:through-reached-function:{form}"));
            }
            k => {
                let (plain, hops) = inject_route(&mut g, rng, a, Payload::Context, k == 1);
                g.defect = Some(if plain { format!("context:through-{hops}-function(s):{form}") } else { format!("context:through-group:{form}") });
            }
        }
    }
    if g.defect.is_none() && with_ctx_runtime && rng.bool() {
        // a valid graph in which functions read the context variable: functions that no
        // constant reaches (also members of recursive groups) may do that
        let mut reached = BTreeSet::new();
        for i in 0..g.nodes.len() {
            if g.nodes[i].is_const {
                let mut dummy = BTreeSet::new();
                g.const_deps(i, &mut reached, &mut dummy);
            }
        }
        let free: Vec<usize> = (0..g.nodes.len()).filter(|i| !g.nodes[*i].is_const && !reached.contains(i)).collect();
        g.ctx_form = rng.usize(CTX_FORMS.len());
        let mut any = false;
        for f in free {
            if rng.chance(1, 3) {
                g.nodes[f].ctx_read = true;
                any = true;
                if g.nodes[f].group.is_some() {
                    g.tags.insert("valid:context-read-in-unreached-group-member".into());
                }
            }
        }
        if any {
            g.tags.insert("valid:context-read-in-unreached-function".into());
        }
    }
    // zero-sized constants: no storage is needed for them, their initialisers still have to run
    if rng.chance(1, 2) {
        let consts: Vec<usize> = (0..g.nodes.len()).filter(|i| g.nodes[*i].is_const).collect();
        for _ in 0..(1 + rng.usize(2)) {
            let user = if rng.chance(2, 3) { Some(consts[rng.usize(consts.len())]) } else { None };
            // what it mentions: something its user already reaches (no new cycle), else any constant
            let below: Vec<usize> = match user {
                Some(u) => {
                    let mut seen = BTreeSet::new();
                    let mut out = BTreeSet::new();
                    g.const_deps(u, &mut seen, &mut out);
                    seen.into_iter().filter(|d| g.nodes[*d].group.is_none() || g.nodes[*d].is_const).collect()
                }
                None => consts.clone(),
            };
            let form = rng.below(4) as u8;
            let dep = if form != 0 && !below.is_empty() && rng.chance(2, 3) { Some(below[rng.usize(below.len())]) } else { None };
            let form = if form == 1 && dep.is_none() { 0 } else { form };
            let name = fresh_name(rng, &mut g.used_names, Style::Upper);
            let rec_name = fresh_name(rng, &mut g.used_names, Style::Upper);
            let module = rng.usize(g.n_modules());
            let id = g.nodes.len() + g.zconsts.len();
            g.tags.insert(format!("zero-sized-const:{}", ["unit", "unit-block", "unit-record-field", "unit-record-stmt"][form as usize]));
            g.tags.insert(format!("zero-sized-const:dep-{}:user-{}", dep.is_some(), user.is_some()));
            g.zconsts.push(ZConst { id, name, rec_name, module, form, dep, user });
        }
    }
    let mut tags: BTreeSet<String> = g.tags.clone();
    let files = sources(&g, rng, &mut tags);
    let mut tags: Vec<String> = tags.into_iter().collect();
    tags.push(format!("modules:{}", g.n_modules()));
    tags.push(format!("consts:{}", g.nodes.iter().filter(|n| n.is_const).count().min(12)));
    tags.push(format!("imports:{}", g.use_imports));
    for n in &g.nodes {
        if n.is_const {
            for d in &n.deps {
                tags.push(format!("edge:{:?}", d.via));
            }
        }
        tags.push(format!("shape:{}:{}", if n.is_const { "const" } else { "fn" }, n.sh.kind()));
        if let Some(i) = n.sh.inner() {
            tags.push(format!("shape-nest:{}({})", n.sh.kind(), i.kind()));
        }
        if n.group.is_some() && n.deps.iter().any(|d| g.nodes[d.to].is_const) {
            tags.push("rec-group:member-reads-constant".into());
        }
        for d in &n.deps {
            if g.nodes[d.to].group.is_some() {
                tags.push(format!("rec-group:entered-from-{}@depth-{}", if n.is_const { "const" } else { "fn" }, d.depth));
            }
        }
    }
    if let Some(d) = &g.defect {
        tags.push(format!("defect:{d}"));
    }
    let is_ctx_defect = g.defect.as_deref().is_some_and(|d| d.starts_with("context"));
    // a context read needs a runtime that has the context variable, otherwise it
    // is simply an unknown name (also an error, checked the same way)
    let use_ctx_rt = is_ctx_defect || with_ctx_runtime;
    tags.push(format!("runtime:{}", if use_ctx_rt { "with-context" } else { "plain" }));
    Case { g, files, tags, use_ctx_rt }
}

pub struct ConstOrder {
    rt: Runtime<roto::NoCtx>,
    rt_ctx: Runtime<roto::Ctx<Cx>>,
}

impl ConstOrder {
    pub fn new(_args: &Args) -> ConstOrder {
        let extra = || {
            library! {
                fn n_to_i64(n: u64) -> i64 { n as i64 }
                fn n_of(v: i64) -> u64 { v as u64 }
                /// the decimal text of an i64, parsed back (0 if it is not one)
                fn s_to_i64(s: RotoString) -> i64 { (*s).parse::<i64>().unwrap_or(0) }
            }
        };
        let mut rt = Runtime::from_lib(lib()).unwrap();
        rt.add(extra()).unwrap();
        let mut base = Runtime::from_lib(lib()).unwrap();
        base.add(extra()).unwrap();
        let rt_ctx = base.with_context_type::<Cx>().unwrap();
        ConstOrder { rt, rt_ctx }
    }

    /// Compile a hand-written program (`--probe FILE [--plain 1]`; modules are separated by
    /// lines `//@ <module>`, the first module is `pkg`) with the family's runtime, print
    /// the evaluation log and the values of all `fn getN() -> i64` on stderr.
    fn probe(&self, path: &str, plain: bool) -> CaseOut {
        let mut out = CaseOut::default();
        let text = std::fs::read_to_string(path).unwrap_or_default();
        let mut files: Vec<(String, String)> = vec![("pkg".to_string(), String::new())];
        for l in text.lines() {
            if let Some(m) = l.strip_prefix("//@ ") {
                if !(files.len() == 1 && files[0].1.trim().is_empty() && m.trim() == "pkg") {
                    files.push((m.trim().to_string(), String::new()));
                }
            } else {
                let f = files.last_mut().unwrap();
                f.1.push_str(l);
                f.1.push('\n');
            }
        }
        take_inits();
        macro_rules! go {
            ($rt:expr, $call:expr) => {{
                match catch(|| tree(&files).compile($rt)) {
                    Err(p) => eprintln!("PANIC {p}\ninits {:?}", take_inits()),
                    Ok(Err(rep)) => {
                        let mut s = String::new();
                        let _ = rep.write(&mut s, false);
                        eprintln!("REJECTED\n{s}\ninits {:?}", take_inits());
                    }
                    Ok(Ok(mut pkg)) => {
                        eprintln!("COMPILED inits {:?}", take_inits());
                        for i in 0..64 {
                            if let Ok(f) = pkg.get_function::<fn() -> i64>(&format!("get{i}")) {
                                #[allow(clippy::redundant_closure_call)]
                                let v: i64 = $call(&f);
                                eprintln!("get{i}() = {v}   inits {:?}", take_inits());
                            }
                        }
                    }
                }
            }};
        }
        if plain {
            go!(&self.rt, |f: &roto::TypedFunc<roto::NoCtx, fn() -> i64>| f.call());
        } else {
            go!(&self.rt_ctx, |f: &roto::TypedFunc<roto::Ctx<Cx>, fn() -> i64>| {
                let mut c = Cx { cv: 5 };
                f.call(&mut c)
            });
        }
        out.skipped = Some("probe".into());
        out
    }
}

fn tree(files: &[(String, String)]) -> FileTree {
    let mk = |name: &str, src: &str| SourceFile {
        name: format!("{name}.roto"),
        module_name: name.to_string(),
        contents: src.to_string(),
        location_offset: 0,
        children: Vec::new(),
    };
    if files.len() == 1 {
        return FileTree::test_file("pkg.roto", &files[0].1, 0);
    }
    let root = mk(&files[0].0, &files[0].1);
    let children = files[1..].iter().map(|f| FileSpec::File(mk(&f.0, &f.1))).collect();
    FileTree::file_spec(FileSpec::Directory(root, children))
}

fn sample_of(c: &Case) -> J {
    J::obj()
        .set("defect", c.g.defect.clone())
        .set("sig_hint", format!("constorder/{}", c.g.defect.clone().unwrap_or("valid-graph".into())))
        .set("files", J::Arr(c.files.iter().map(|(n, s)| J::obj().set("module", n.as_str()).set("source", s.as_str())).collect()))
}

impl Family for ConstOrder {
    fn n_cases(&self, args: &Args) -> u64 {
        if args.thorough() { 120_000 } else { 8_000 }
    }

    fn describe(&mut self, _k: u64, rng: &mut Rng, _args: &Args) -> Option<J> {
        Some(sample_of(&gen_case(rng)))
    }

    fn run(&mut self, _k: u64, rng: &mut Rng, args: &Args) -> CaseOut {
        if let Some(p) = args.opt("probe") {
            return self.probe(p, args.flag("plain"));
        }
        let mut out = CaseOut::default();
        let case = gen_case(rng);
        let g = &case.g;
        let files = &case.files;
        let all: String = files.iter().map(|(n, s)| format!("// {n}\n{s}")).collect();
        out.hash = hash_str(&all);
        out.sample = Some(sample_of(&case));
        out.tags = case.tags.clone();

        take_inits();
        let n_nodes = g.nodes.len();
        // expected values
        let mut memo = BTreeMap::new();
        let expected: Vec<i64> = if g.defect.is_none() { (0..n_nodes).map(|i| g.value(i, g.nodes[i].getter_depth, &mut memo)).collect() } else { vec![] };

        macro_rules! run_with {
            ($rt:expr, $call:expr) => {{
                let rt = $rt;
                // `compile` is parse + type check + lowering + code generation, and only the
                // first two can reject. A graph with an injected defect is therefore first only
                // type checked: if that accepts it, code generation would evaluate the constant
                // (a context read without a context, or an initialiser that needs itself), which
                // is not attempted.
                let mut attempt = true;
                if let Some(d) = &g.defect {
                    match catch(|| tree(files).parse().and_then(|p| p.typecheck(rt)).map(|_| ())) {
                        Ok(Ok(())) => {
                            attempt = false;
                            out.evals += 1;
                            out.viol(
                                format!("const:accepted@{d}"),
                                format!("a constant graph with an injected defect ({d}) passed parsing and type checking, the only stages of compile that can reject; code generation would now evaluate the constants"),
                                J::Null,
                            );
                        }
                        Ok(Err(rep)) => {
                            let mut s = String::new();
                            let _ = rep.write(&mut s, false);
                            let why = if s.contains("depends on a context variable") {
                                "context"
                            } else if s.contains("is recursively defined") {
                                "recursion"
                            } else {
                                out.skipped = Some(format!("a graph with an injected defect was rejected for another reason:\n{s}"));
                                "other"
                            };
                            out.tags.push(format!("rejected-for:{why}"));
                        }
                        Err(_) => {}
                    }
                }
                if attempt {
                    let compiled = catch(|| tree(files).compile(rt));
                    let during = take_inits();
                    out.evals += 1;
                    out.events += during.len() as u64;
                    match compiled {
                        Err(p) => {
                            out.viol(format!("{}@{}", panic_sig(&p), g.defect.clone().unwrap_or("valid-graph".into())), p, J::Null);
                        }
                        Ok(Err(rep)) => {
                            if g.defect.is_none() {
                                let mut s = String::new();
                                let _ = rep.write(&mut s, false);
                                out.viol("const:valid-graph-rejected", format!("a valid constant graph was rejected:\n{s}"), J::Null);
                            } else {
                                out.nontrivial = true;
                                if !during.is_empty() {
                                    out.viol(
                                        format!("const:evaluated-before-rejection@{}", g.defect.clone().unwrap()),
                                        format!("the graph was rejected, but constants {during:?} had already been evaluated"),
                                        J::Null,
                                    );
                                }
                            }
                        }
                        Ok(Ok(mut pkg)) => {
                            if let Some(d) = &g.defect {
                                out.viol(
                                    format!("const:accepted@{d}"),
                                    format!("a constant graph with an injected defect ({d}) compiled; evaluated during compile: {during:?}"),
                                    J::Null,
                                );
                            } else {
                                out.nontrivial = true;
                                // exactly once each
                                let consts: Vec<usize> = (0..n_nodes).filter(|i| g.nodes[*i].is_const).collect();
                                for &c in &consts {
                                    let cnt = during.iter().filter(|x| **x as usize == c).count();
                                    if cnt != 1 {
                                        out.viol(
                                            format!("const:evaluated-{}-times", if cnt == 0 { "zero".to_string() } else { "many".to_string() }),
                                            format!("constant {} (init({c})) was evaluated {cnt} times during compilation (log {during:?})", g.nodes[c].name),
                                            J::Null,
                                        );
                                    }
                                }
                                for z in &g.zconsts {
                                    let cnt = during.iter().filter(|x| **x as usize == z.id).count();
                                    if cnt != 1 {
                                        out.viol(
                                            format!("const:zero-sized-evaluated-{}-times", if cnt == 0 { "zero" } else { "many" }),
                                            format!("zero-sized constant {} (zinit({})) was evaluated {cnt} times during compilation (log {during:?})", z.name, z.id),
                                            J::Null,
                                        );
                                    }
                                }
                                // dependency order
                                let pos: BTreeMap<usize, usize> = during.iter().enumerate().map(|(p, k)| (*k as usize, p)).collect();
                                for z in &g.zconsts {
                                    let mut before = BTreeSet::new();
                                    if let Some(d) = z.dep {
                                        if g.nodes[d].is_const {
                                            before.insert(d);
                                        }
                                        g.const_deps(d, &mut BTreeSet::new(), &mut before);
                                    }
                                    for d in before {
                                        out.events += 1;
                                        if let (Some(pz), Some(pd)) = (pos.get(&z.id), pos.get(&d))
                                            && pd > pz
                                        {
                                            out.viol(
                                                "const:zero-sized-evaluated-before-dependency",
                                                format!("zero-sized {} (zinit({})) was evaluated before {} (init({d})), which it depends on (log {during:?})", z.name, z.id, g.nodes[d].name),
                                                J::Null,
                                            );
                                        }
                                    }
                                    if let Some(u) = z.user {
                                        out.events += 1;
                                        if let (Some(pz), Some(pu)) = (pos.get(&z.id), pos.get(&u))
                                            && pz > pu
                                        {
                                            out.viol(
                                                "const:evaluated-before-zero-sized-dependency",
                                                format!("{} (init({u})) was evaluated before the zero-sized {} (zinit({})), which it mentions (log {during:?})", g.nodes[u].name, z.name, z.id),
                                                J::Null,
                                            );
                                        }
                                    }
                                }
                                for &c in &consts {
                                    let mut deps = BTreeSet::new();
                                    g.const_deps(c, &mut BTreeSet::new(), &mut deps);
                                    for d in deps {
                                        out.events += 1;
                                        if let (Some(pc), Some(pd)) = (pos.get(&c), pos.get(&d))
                                            && pd > pc
                                        {
                                            out.viol(
                                                "const:evaluated-before-dependency",
                                                format!(
                                                    "{} (init({c})) was evaluated before {} (init({d})), which it depends on (log {during:?})",
                                                    g.nodes[c].name, g.nodes[d].name
                                                ),
                                                J::Null,
                                            );
                                        }
                                    }
                                }
                                // values, twice; nothing may be evaluated after compile
                                // the second round runs after the package is gone (in half of
                                // the cases): the handles alone keep the constants they read
                                let mut handles = Vec::new();
                                for i in 0..n_nodes {
                                    let name = format!("get{i}");
                                    match pkg.get_function::<fn() -> i64>(&name) {
                                        Err(e) => {
                                            out.viol("const:getter-missing", format!("{name}: {e}"), J::Null);
                                        }
                                        Ok(f) => handles.push((i, name, f)),
                                    }
                                }
                                let mut pkg = Some(pkg);
                                let drop_pkg = out.hash % 2 == 0;
                                out.tags.push(format!("second-round:package-{}", if drop_pkg { "dropped" } else { "alive" }));
                                for round in 0..2 {
                                    if round == 1 && drop_pkg {
                                        pkg = None;
                                    }
                                    for (i, name, f) in &handles {
                                        let i = *i;
                                        #[allow(clippy::redundant_closure_call)]
                                        let v: i64 = $call(f);
                                        out.events += 1;
                                        if v != expected[i] {
                                            out.viol(
                                                format!("const:wrong-value@{}{}", if g.nodes[i].is_const { "constant" } else { "function" }, if round == 1 && drop_pkg { "/package-dropped" } else { "" }),
                                                format!("{} ({name}) evaluates to {v}, expected {} (round {round})", g.nodes[i].name, expected[i]),
                                                J::Null,
                                            );
                                        }
                                    }
                                }
                                drop(pkg);
                                let after = take_inits();
                                if !after.is_empty() {
                                    out.viol(
                                        "const:evaluated-after-compile",
                                        format!("constants {after:?} were evaluated after compilation had returned"),
                                        J::Null,
                                    );
                                }
                            }
                        }
                    }
                }
            }};
        }
        if case.use_ctx_rt {
            run_with!(&self.rt_ctx, |f: &roto::TypedFunc<roto::Ctx<Cx>, fn() -> i64>| {
                let mut c = Cx { cv: 5 };
                f.call(&mut c)
            });
        } else {
            run_with!(&self.rt, |f: &roto::TypedFunc<roto::NoCtx, fn() -> i64>| f.call());
        }
        // keep only the first violation of each signature
        let mut seen = BTreeSet::new();
        out.viols.retain(|v| seen.insert(v.sig.clone()));
        out
    }
}
