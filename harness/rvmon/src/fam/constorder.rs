//! C14: constants are evaluated once, in dependency order, before any call.
//!
//! Every constant initialiser calls the logging host function `init(k)`. The log
//! recorded during `compile` must contain each constant exactly once and after
//! all of its (transitive) dependencies; nothing may be logged afterwards; every
//! function and constant must later observe the value implied by the graph.
//! Graphs with an injected cycle or a context read must be rejected before any
//! `init` event is logged.

use std::cell::RefCell;
use std::collections::{BTreeMap, BTreeSet};

use roto::{Context, FileSpec, FileTree, Runtime, SourceFile, library};

use crate::jsonw::J;
use crate::rng::Rng;
use crate::work::{Args, CaseOut, Family, catch, hash_str, panic_sig};

thread_local! {
    static INITS: RefCell<Vec<u32>> = const { RefCell::new(Vec::new()) };
}

fn take_inits() -> Vec<u32> {
    INITS.with(|l| std::mem::take(&mut *l.borrow_mut()))
}

#[derive(Clone, Context)]
pub struct Cx {
    pub cv: i64,
}

fn lib() -> roto::Library {
    library! {
        /// log the evaluation of constant k and return its base value
        fn init(k: u32) -> i64 {
            INITS.with(|l| l.borrow_mut().push(k));
            (k as i64 + 1) * 1000
        }
    }
}

/// How a dependency is mentioned in an initialiser / function body.
#[derive(Clone, Copy, Debug, PartialEq)]
enum Via {
    Direct,
    Block,
    IfBranch,
    Method,
    Call,
}

#[derive(Clone, Debug)]
enum Node {
    Const { deps: Vec<(usize, Via)> },
    Func { deps: Vec<usize> },
}

#[derive(Clone, Debug)]
struct Graph {
    nodes: Vec<Node>,
    /// module index of each node (0 = pkg)
    module: Vec<usize>,
    n_modules: usize,
    /// textual order of items inside each module
    order: Vec<usize>,
    /// injected defect
    defect: Option<String>,
    /// import style per module: use `import` for foreign names instead of paths
    use_imports: bool,
    /// syntactic position of the injected context read (index into CTX_FORMS)
    ctx_form: usize,
}

/// Ways a context variable can be read (all are reads of `cv`, an i64).
const CTX_FORMS: [(&str, &str); 7] = [
    ("plain", "cv"),
    ("method-receiver", "{ let s = cv.to_string(); let n: u64 = s.bytes().len(); n_to_i64(n) }"),
    ("block", "{ let t = cv; t }"),
    ("condition", "(if cv == 0 { 1 } else { 2 })"),
    ("argument", "n_to_i64(n_of(cv))"),
    ("operand-right", "(0 - cv)"),
    ("match-scrutinee", "(match Some(cv) { Some(x) => x, None => 0 })"),
];

const MODS: [&str; 4] = ["pkg", "ma", "mb", "mc"];

impl Graph {
    fn name(&self, i: usize) -> String {
        match self.nodes[i] {
            Node::Const { .. } => format!("K{i}"),
            Node::Func { .. } => format!("f{i}"),
        }
    }

    /// how node `i` is referred to from module `from`
    fn reference(&self, i: usize, from: usize) -> String {
        let m = self.module[i];
        if m == from || self.use_imports {
            self.name(i)
        } else if m == 0 {
            format!("pkg.{}", self.name(i))
        } else if from == 0 {
            format!("{}.{}", MODS[m], self.name(i))
        } else {
            format!("super.{}.{}", MODS[m], self.name(i))
        }
    }

    fn value(&self, i: usize, memo: &mut BTreeMap<usize, i64>) -> i64 {
        if let Some(v) = memo.get(&i) {
            return *v;
        }
        let v = match &self.nodes[i] {
            Node::Const { deps } => {
                let mut v = (i as i64 + 1) * 1000;
                for (d, via) in deps {
                    let dv = self.value(*d, memo);
                    v = v.wrapping_add(match via {
                        Via::Method => dv.to_string().len() as i64,
                        _ => dv,
                    });
                }
                v
            }
            Node::Func { deps } => {
                let mut v = 7i64;
                for d in deps {
                    v = v.wrapping_add(self.value(*d, memo));
                }
                v
            }
        };
        memo.insert(i, v);
        v
    }

    /// all constants that must have been evaluated before constant `i`
    fn const_deps(&self, i: usize, seen: &mut BTreeSet<usize>, out: &mut BTreeSet<usize>) {
        let deps: Vec<usize> = match &self.nodes[i] {
            Node::Const { deps } => deps.iter().map(|d| d.0).collect(),
            Node::Func { deps } => deps.clone(),
        };
        for d in deps {
            if matches!(self.nodes[d], Node::Const { .. }) {
                out.insert(d);
            }
            if seen.insert(d) {
                self.const_deps(d, seen, out);
            }
        }
    }

    fn item_source(&self, i: usize, ctx_read: Option<usize>) -> String {
        let from = self.module[i];
        match &self.nodes[i] {
            Node::Const { deps } => {
                let mut terms = vec![format!("init({i})")];
                for (d, via) in deps {
                    let r = self.reference(*d, from);
                    let r = if matches!(self.nodes[*d], Node::Func { .. }) { format!("{r}()") } else { r };
                    terms.push(match via {
                        Via::Direct | Via::Call => r,
                        Via::Block => format!("{{ let t = {r}; t }}"),
                        Via::IfBranch => format!("(if true {{ {r} }} else {{ 0 }})"),
                        Via::Method => format!("{{ let s = {r}.to_string(); let n: u64 = s.bytes().len(); n_to_i64(n) }}"),
                    });
                }
                if ctx_read == Some(i) {
                    terms.push(CTX_FORMS[self.ctx_form].1.to_string());
                }
                format!("const K{i}: i64 = {};\n", terms.join(" + "))
            }
            Node::Func { deps } => {
                let mut terms = vec!["7".to_string()];
                for d in deps {
                    let r = self.reference(*d, from);
                    terms.push(if matches!(self.nodes[*d], Node::Func { .. }) { format!("{r}()") } else { r });
                }
                if ctx_read == Some(i) {
                    terms.push(CTX_FORMS[self.ctx_form].1.to_string());
                }
                format!("fn f{i}() -> i64 {{\n    {}\n}}\n", terms.join(" + "))
            }
        }
    }

    fn sources(&self, ctx_read: Option<usize>) -> Vec<(String, String)> {
        let mut files: Vec<(String, String)> = (0..self.n_modules).map(|m| (MODS[m].to_string(), String::new())).collect();
        for m in 0..self.n_modules {
            let mut s = String::new();
            if self.use_imports {
                // import every foreign name that items of this module mention
                let mut needed = BTreeSet::new();
                for i in 0..self.nodes.len() {
                    if self.module[i] != m {
                        continue;
                    }
                    let deps: Vec<usize> = match &self.nodes[i] {
                        Node::Const { deps } => deps.iter().map(|d| d.0).collect(),
                        Node::Func { deps } => deps.clone(),
                    };
                    for d in deps {
                        if self.module[d] != m {
                            needed.insert(d);
                        }
                    }
                }
                for d in needed {
                    let dm = self.module[d];
                    let path = if dm == 0 { format!("pkg.{}", self.name(d)) } else { format!("pkg.{}.{}", MODS[dm], self.name(d)) };
                    s.push_str(&format!("import {path};\n"));
                }
            }
            files[m].1 = s;
        }
        for &i in &self.order {
            let m = self.module[i];
            files[m].1.push_str(&self.item_source(i, ctx_read));
        }
        // getters for every constant and function, in pkg
        let mut getters = String::new();
        for i in 0..self.nodes.len() {
            let r = self.reference_from_pkg(i);
            let call = if matches!(self.nodes[i], Node::Func { .. }) { format!("{r}()") } else { r };
            getters.push_str(&format!("fn get{i}() -> i64 {{\n    {call}\n}}\n"));
        }
        files[0].1.push_str(&getters);
        files
    }

    fn reference_from_pkg(&self, i: usize) -> String {
        let m = self.module[i];
        if m == 0 { self.name(i) } else { format!("{}.{}", MODS[m], self.name(i)) }
    }
}

fn gen_graph(rng: &mut Rng) -> Graph {
    let n_const = 2 + rng.usize(11);
    let n_func = rng.usize(9);
    let n = n_const + n_func;
    // a random topological numbering: node i may only depend on nodes < i in `topo`
    let mut kinds: Vec<bool> = (0..n).map(|i| i < n_const).collect();
    rng.shuffle(&mut kinds);
    let mut nodes = Vec::new();
    for i in 0..n {
        let max_deps = if i == 0 { 0 } else { rng.usize(4) };
        let mut deps = BTreeSet::new();
        for _ in 0..max_deps {
            deps.insert(rng.usize(i));
        }
        if kinds[i] {
            let deps = deps
                .into_iter()
                .map(|d| {
                    let via = if !kinds[d] {
                        Via::Call
                    } else {
                        *rng.pick(&[Via::Direct, Via::Direct, Via::Block, Via::IfBranch, Via::Method])
                    };
                    (d, via)
                })
                .collect();
            nodes.push(Node::Const { deps });
        } else {
            nodes.push(Node::Func { deps: deps.into_iter().collect() });
        }
    }
    let n_modules = 1 + rng.usize(4);
    let module = (0..n).map(|_| rng.usize(n_modules)).collect();
    let mut order: Vec<usize> = (0..n).collect();
    rng.shuffle(&mut order);
    Graph { nodes, module, n_modules, order, defect: None, use_imports: rng.bool(), ctx_form: 0 }
}

/// Inject a cycle: returns a description, modifies the graph.
fn inject_cycle(g: &mut Graph, rng: &mut Rng) -> String {
    let consts: Vec<usize> = (0..g.nodes.len()).filter(|i| matches!(g.nodes[*i], Node::Const { .. })).collect();
    let a = consts[rng.usize(consts.len())];
    match rng.below(3) {
        0 => {
            // self reference
            if let Node::Const { deps } = &mut g.nodes[a] {
                deps.push((a, Via::Direct));
            }
            "cycle:self".into()
        }
        1 if consts.len() >= 2 => {
            // mutual: the earlier one additionally depends on the later one
            let mut b = consts[rng.usize(consts.len())];
            if b == a {
                b = *consts.iter().find(|c| **c != a).unwrap();
            }
            let (lo, hi) = (a.min(b), a.max(b));
            if let Node::Const { deps } = &mut g.nodes[hi]
                && !deps.iter().any(|d| d.0 == lo)
            {
                deps.push((lo, Via::Direct));
            }
            if let Node::Const { deps } = &mut g.nodes[lo] {
                deps.push((hi, Via::Block));
            }
            "cycle:mutual".into()
        }
        _ => {
            // through a chain of one or two new functions
            let f1 = g.nodes.len();
            let two = rng.bool();
            if two {
                g.nodes.push(Node::Func { deps: vec![f1 + 1] });
                g.nodes.push(Node::Func { deps: vec![a] });
            } else {
                g.nodes.push(Node::Func { deps: vec![a] });
            }
            let added = if two { 2 } else { 1 };
            for j in 0..added {
                g.module.push(rng.usize(g.n_modules));
                let pos = rng.usize(g.order.len() + 1);
                g.order.insert(pos, f1 + j);
            }
            if let Node::Const { deps } = &mut g.nodes[a] {
                deps.push((f1, Via::Call));
            }
            "cycle:through-function".into()
        }
    }
}

pub struct ConstOrder {
    rt: Runtime<roto::NoCtx>,
    rt_ctx: Runtime<roto::Ctx<Cx>>,
}

impl ConstOrder {
    pub fn new(_args: &Args) -> ConstOrder {
        let extra = || {
            library! {
                fn n_to_i64(n: u64) -> i64 { n as i64 }
                fn n_of(v: i64) -> u64 { v as u64 }
            }
        };
        let mut rt = Runtime::from_lib(lib()).unwrap();
        rt.add(extra()).unwrap();
        let mut base = Runtime::from_lib(lib()).unwrap();
        base.add(extra()).unwrap();
        let rt_ctx = base.with_context_type::<Cx>().unwrap();
        ConstOrder { rt, rt_ctx }
    }
}

fn tree(files: &[(String, String)]) -> FileTree {
    let mk = |name: &str, src: &str| SourceFile {
        name: format!("{name}.roto"),
        module_name: name.to_string(),
        contents: src.to_string(),
        location_offset: 0,
        children: Vec::new(),
    };
    if files.len() == 1 {
        return FileTree::test_file("pkg.roto", &files[0].1, 0);
    }
    let root = mk(&files[0].0, &files[0].1);
    let children = files[1..].iter().map(|f| FileSpec::File(mk(&f.0, &f.1))).collect();
    FileTree::file_spec(FileSpec::Directory(root, children))
}

impl Family for ConstOrder {
    fn n_cases(&self, args: &Args) -> u64 {
        if args.thorough() { 120_000 } else { 8_000 }
    }

    fn run(&mut self, _k: u64, rng: &mut Rng, _args: &Args) -> CaseOut {
        let mut out = CaseOut::default();
        let mut g = gen_graph(rng);
        let mode = rng.below(10);
        let mut ctx_read = None;
        let with_ctx_runtime = rng.bool();
        if mode < 2 {
            g.defect = Some(inject_cycle(&mut g, rng));
        } else if mode < 4 {
            // a context read: directly in a constant, or in a function that a constant
            // reaches (possibly through further functions)
            let consts: Vec<usize> = (0..g.nodes.len()).filter(|i| matches!(g.nodes[*i], Node::Const { .. })).collect();
            let a = consts[rng.usize(consts.len())];
            g.ctx_form = rng.usize(CTX_FORMS.len());
            if rng.bool() {
                ctx_read = Some(a);
                g.defect = Some(format!("context:direct:{}", CTX_FORMS[g.ctx_form].0));
            } else {
                let f1 = g.nodes.len();
                let hops = 1 + rng.usize(2);
                for h in 0..hops {
                    let deps = if h + 1 < hops { vec![f1 + h + 1] } else { vec![] };
                    g.nodes.push(Node::Func { deps });
                    g.module.push(rng.usize(g.n_modules));
                    let pos = rng.usize(g.order.len() + 1);
                    g.order.insert(pos, f1 + h);
                }
                ctx_read = Some(f1 + hops - 1);
                if let Node::Const { deps } = &mut g.nodes[a] {
                    deps.push((f1, Via::Call));
                }
                g.defect = Some(format!("context:through-{hops}-function(s):{}", CTX_FORMS[g.ctx_form].0));
            }
        }
        let files = g.sources(ctx_read);
        let all: String = files.iter().map(|(n, s)| format!("// {n}\n{s}")).collect();
        out.hash = hash_str(&all);
        out.sample = Some(J::obj().set("defect", g.defect.clone()).set("files", J::Arr(files.iter().map(|(n, s)| J::obj().set("module", n.as_str()).set("source", s.as_str())).collect())));
        out.tags.push(format!("modules:{}", g.n_modules));
        out.tags.push(format!("consts:{}", g.nodes.iter().filter(|n| matches!(n, Node::Const { .. })).count().min(12)));
        out.tags.push(format!("imports:{}", g.use_imports));
        for n in &g.nodes {
            if let Node::Const { deps } = n {
                for (_, v) in deps {
                    out.tags.push(format!("edge:{v:?}"));
                }
            }
        }
        if let Some(d) = &g.defect {
            out.tags.push(format!("defect:{d}"));
        }

        let is_ctx_defect = g.defect.as_deref().is_some_and(|d| d.starts_with("context"));
        // a context read needs a runtime that has the context variable, otherwise it
        // is simply an unknown name (also an error, checked the same way)
        let use_ctx_rt = is_ctx_defect || with_ctx_runtime;
        out.tags.push(format!("runtime:{}", if use_ctx_rt { "with-context" } else { "plain" }));
        take_inits();
        let n_nodes = g.nodes.len();
        // expected values
        let mut memo = BTreeMap::new();
        let expected: Vec<i64> = if g.defect.is_none() { (0..n_nodes).map(|i| g.value(i, &mut memo)).collect() } else { vec![] };

        macro_rules! run_with {
            ($rt:expr, $call:expr) => {{
                let rt = $rt;
                let compiled = catch(|| tree(&files).compile(rt));
                let during = take_inits();
                out.evals += 1;
                out.events += during.len() as u64;
                match compiled {
                    Err(p) => {
                        out.viol(format!("{}@{}", panic_sig(&p), g.defect.clone().unwrap_or("valid-graph".into())), p, J::Null);
                    }
                    Ok(Err(rep)) => {
                        if g.defect.is_none() {
                            let mut s = String::new();
                            let _ = rep.write(&mut s, false);
                            out.viol("const:valid-graph-rejected", format!("a valid constant graph was rejected:\n{s}"), J::Null);
                        } else {
                            out.nontrivial = true;
                            if !during.is_empty() {
                                out.viol(
                                    format!("const:evaluated-before-rejection@{}", g.defect.clone().unwrap()),
                                    format!("the graph was rejected, but constants {during:?} had already been evaluated"),
                                    J::Null,
                                );
                            }
                        }
                    }
                    Ok(Ok(mut pkg)) => {
                        if let Some(d) = &g.defect {
                            out.viol(
                                format!("const:accepted@{d}"),
                                format!("a constant graph with an injected defect ({d}) compiled; evaluated during compile: {during:?}"),
                                J::Null,
                            );
                        } else {
                            out.nontrivial = true;
                            // exactly once each
                            let consts: Vec<usize> = (0..n_nodes).filter(|i| matches!(g.nodes[*i], Node::Const { .. })).collect();
                            for &c in &consts {
                                let cnt = during.iter().filter(|x| **x as usize == c).count();
                                if cnt != 1 {
                                    out.viol(
                                        format!("const:evaluated-{}-times", if cnt == 0 { "zero".to_string() } else { "many".to_string() }),
                                        format!("constant K{c} was evaluated {cnt} times during compilation (log {during:?})"),
                                        J::Null,
                                    );
                                }
                            }
                            // dependency order
                            let pos: BTreeMap<usize, usize> = during.iter().enumerate().map(|(p, k)| (*k as usize, p)).collect();
                            for &c in &consts {
                                let mut deps = BTreeSet::new();
                                g.const_deps(c, &mut BTreeSet::new(), &mut deps);
                                for d in deps {
                                    out.events += 1;
                                    if let (Some(pc), Some(pd)) = (pos.get(&c), pos.get(&d))
                                        && pd > pc
                                    {
                                        out.viol(
                                            "const:evaluated-before-dependency",
                                            format!("K{c} was evaluated before K{d}, which it depends on (log {during:?})"),
                                            J::Null,
                                        );
                                    }
                                }
                            }
                            // values, twice; nothing may be evaluated after compile
                            for round in 0..2 {
                                for i in 0..n_nodes {
                                    let name = format!("get{i}");
                                    match pkg.get_function::<fn() -> i64>(&name) {
                                        Err(e) => {
                                            out.viol("const:getter-missing", format!("{name}: {e}"), J::Null);
                                        }
                                        Ok(f) => {
                                            #[allow(clippy::redundant_closure_call)]
                                            let v: i64 = $call(&f);
                                            out.events += 1;
                                            if v != expected[i] {
                                                out.viol(
                                                    format!("const:wrong-value@{}", if matches!(g.nodes[i], Node::Const { .. }) { "constant" } else { "function" }),
                                                    format!("{} evaluates to {v}, expected {} (round {round})", g.name(i), expected[i]),
                                                    J::Null,
                                                );
                                            }
                                        }
                                    }
                                }
                            }
                            let after = take_inits();
                            if !after.is_empty() {
                                out.viol(
                                    "const:evaluated-after-compile",
                                    format!("constants {after:?} were evaluated after compilation had returned"),
                                    J::Null,
                                );
                            }
                        }
                    }
                }
            }};
        }
        if use_ctx_rt {
            run_with!(&self.rt_ctx, |f: &roto::TypedFunc<roto::Ctx<Cx>, fn() -> i64>| {
                let mut c = Cx { cv: 5 };
                f.call(&mut c)
            });
        } else {
            run_with!(&self.rt, |f: &roto::TypedFunc<roto::NoCtx, fn() -> i64>| f.call());
        }
        // keep only the first violation of each signature
        let mut seen = BTreeSet::new();
        out.viols.retain(|v| seen.insert(v.sig.clone()));
        out
    }
}
