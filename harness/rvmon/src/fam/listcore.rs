//! C15 core: shared-vector model of `roto::List`, operation alphabet, sequence
//! enumeration / sampling and the lock-step executor.
//!
//! This file is included by two crates (`rvmon` and `listmiri`, the latter runs it
//! under Miri) and therefore depends only on `roto::{List, RotoString, Value}`,
//! `crate::rng::Rng` (self-contained PRNG) and std. Nothing in here touches the JIT.
//!
//! Oracle: one `Vec<u64>` of element keys per list OBJECT plus a handle -> object
//! map. `Elem::canon` defines element equality on keys, independently of roto.

use std::collections::BTreeSet;
use std::fmt::Debug;
use std::sync::atomic::{AtomicU64, Ordering};
use std::sync::{Arc, Mutex, mpsc};
use std::time::Duration;

use roto::{List, RotoString, Value};

use crate::rng::Rng;

// ---------------------------------------------------------------------------
// Element types
// ---------------------------------------------------------------------------

/// An element type of the lists under test. Elements are made from `u64` keys; the
/// model only stores keys.
pub trait Elem: Value<Transformed: PartialEq> + PartialEq + Clone + Debug + Send + 'static {
    const NAME: &'static str;
    /// element equality calls `List::eq` (nested lists): contains/index may block
    const EQ_MAY_BLOCK: bool = false;
    fn make(key: u64) -> Self;
    /// `make(a) == make(b)` iff `canon(a) == canon(b)`
    fn canon(key: u64) -> u64;
    /// canonical key of a live element (tracked types also check liveness)
    fn key_of(&self) -> u64;
    /// expected `{:?}` of `make(key)`; the element's own Debug is not under test
    fn debug(key: u64) -> String {
        format!("{:?}", Self::make(key))
    }
    /// plain text of `make(key)` (strings: the string itself)
    fn plain(key: u64) -> String {
        Self::debug(key)
    }
    /// normalise parts of a Debug string that differ between clones (instance ids)
    fn debug_norm(s: &str) -> String {
        s.to_string()
    }
    /// input class of a key for signatures ("" = none)
    fn kind(_key: u64) -> &'static str {
        ""
    }
    fn ledger_reset() {}
    /// `Some((live instances, alarms as (kind, message)))` for drop-tracked types
    fn ledger_probe() -> Option<(i64, Vec<(String, String)>)> {
        None
    }
}

impl Elem for u8 {
    const NAME: &'static str = "u8";
    fn make(key: u64) -> u8 {
        key as u8
    }
    fn canon(key: u64) -> u64 {
        key & 0xff
    }
    fn key_of(&self) -> u64 {
        *self as u64
    }
}

impl Elem for u64 {
    const NAME: &'static str = "u64";
    fn make(key: u64) -> u64 {
        // spread over the whole width so that every byte of the slot matters
        // (below 2^63: Roto integer literals cannot express larger values)
        (key.wrapping_mul(0x0101_0101_0101_0101) ^ (key << 40)) & 0x7fff_ffff_ffff_ffff
    }
    fn canon(key: u64) -> u64 {
        Self::make(key)
    }
    fn key_of(&self) -> u64 {
        *self
    }
}

impl Elem for i32 {
    const NAME: &'static str = "i32";
    fn make(key: u64) -> i32 {
        let k = key as i32;
        if key & 1 == 1 { k.wrapping_neg() } else { k }
    }
    fn canon(key: u64) -> u64 {
        Self::make(key) as u32 as u64
    }
    fn key_of(&self) -> u64 {
        *self as u32 as u64
    }
}

impl Elem for RotoString {
    const NAME: &'static str = "string";
    fn make(key: u64) -> RotoString {
        // every 11th key is the EMPTY string (all of them equal: canon 5), so that lists start
        // with, end in and consist of empty strings (join, ==, contains on zero-length payloads)
        if key % 11 == 5 {
            return RotoString::from("");
        }
        // a few long ones so that the payload is not only short strings
        if key % 7 == 3 { RotoString::from(format!("s{key}-{}", "x".repeat((key % 40) as usize))) } else { RotoString::from(format!("s{key}")) }
    }
    fn canon(key: u64) -> u64 {
        if key % 11 == 5 { 5 } else { key }
    }
    fn plain(key: u64) -> String {
        Self::make(key).to_string()
    }
    fn key_of(&self) -> u64 {
        let s: &str = self;
        if s.is_empty() {
            return 5;
        }
        if !s.starts_with('s') {
            return u64::MAX - 2;
        }
        let digits: String = s[1..].chars().take_while(|c| c.is_ascii_digit()).collect();
        let k = digits.parse::<u64>().unwrap_or(u64::MAX);
        // the whole payload must be intact, not only the number
        if Self::make(k) == *self { k } else { u64::MAX - 1 }
    }
}

fn nested_bytes(key: u64) -> Vec<u8> {
    let n = (key % 3) as usize;
    let c = key / 3;
    [c as u8, (c >> 8) as u8][..n].to_vec()
}

fn nested_canon_of(bytes: &[u8]) -> u64 {
    let mut c = 0u64;
    for (i, b) in bytes.iter().enumerate() {
        c |= (*b as u64) << (8 * i);
    }
    bytes.len() as u64 + 3 * c
}

impl Elem for List<u8> {
    const NAME: &'static str = "list<u8>";
    const EQ_MAY_BLOCK: bool = true;
    fn make(key: u64) -> List<u8> {
        List::from(nested_bytes(key))
    }
    fn canon(key: u64) -> u64 {
        nested_canon_of(&nested_bytes(key))
    }
    fn key_of(&self) -> u64 {
        let v = self.to_vec();
        if v.len() > 2 { u64::MAX } else { nested_canon_of(&v) }
    }
    fn debug(key: u64) -> String {
        format!("List({:?})", nested_bytes(key))
    }
}

impl Elem for Option<u32> {
    const NAME: &'static str = "option<u32>";
    fn make(key: u64) -> Option<u32> {
        if key % 4 == 0 { None } else { Some((key as u32).wrapping_mul(0x0101_0101)) }
    }
    fn canon(key: u64) -> u64 {
        match Self::make(key) {
            None => 0,
            Some(v) => (1 << 32) | v as u64,
        }
    }
    fn key_of(&self) -> u64 {
        match self {
            None => 0,
            Some(v) => (1 << 32) | *v as u64,
        }
    }
    fn kind(key: u64) -> &'static str {
        if key % 4 == 0 { ":none" } else { ":some" }
    }
}

// ---------------------------------------------------------------------------
// Operations
// ---------------------------------------------------------------------------

#[derive(Clone, Copy, Debug, PartialEq, Eq)]
pub enum Ix {
    First,
    Last,
    Len,
    LenP1,
    Max,
    Mid(u16),
}

#[derive(Clone, Copy, Debug, PartialEq, Eq)]
pub enum KeySel {
    Fresh,
    First,
    Last,
    Mid(u16),
    Absent,
}

#[derive(Clone, Copy, Debug, PartialEq, Eq)]
pub enum Op {
    /// slot := new empty list
    New(u8),
    /// slot := list made from a Vec of n fresh elements; how: 0 From<Vec>, 1 From<&[T]>, 2 From<[T; 3]> (n == 3), 3 FromIterator
    From(u8, u16, u8),
    Push(u8, KeySel),
    Get(u8, Ix),
    Len(u8),
    IsEmpty(u8),
    Capacity(u8),
    Swap(u8, Ix, Ix),
    /// dst := a.concat(b) (the flag selects `+` where the backend has an operator)
    Concat(u8, u8, u8, bool),
    Contains(u8, KeySel),
    Index(u8, KeySel),
    Eq(u8, u8),
    /// dst := clone of the handle src (aliases the same object)
    CloneH(u8, u8),
    DropH(u8),
    ToVec(u8),
    Iter(u8),
    Debug(u8),
    /// `join` (only offered by backends that have it: scripts on List[String])
    Join(u8),
}

impl Op {
    pub fn name(&self) -> &'static str {
        match self {
            Op::New(..) => "new",
            Op::From(..) => "from",
            Op::Push(..) => "push",
            Op::Get(..) => "get",
            Op::Len(..) => "len",
            Op::IsEmpty(..) => "is_empty",
            Op::Capacity(..) => "capacity",
            Op::Swap(..) => "swap",
            Op::Concat(..) => "concat",
            Op::Contains(..) => "contains",
            Op::Index(..) => "index",
            Op::Eq(..) => "eq",
            Op::CloneH(..) => "clone",
            Op::DropH(..) => "drop",
            Op::ToVec(..) => "to_vec",
            Op::Iter(..) => "iter",
            Op::Debug(..) => "debug",
            Op::Join(..) => "join",
        }
    }
    fn tag(&self) -> &'static str {
        match self {
            Op::New(..) => "op:new",
            Op::From(_, _, 0) => "op:from-vec",
            Op::From(_, _, 1) => "op:from-slice",
            Op::From(_, _, 2) => "op:from-array",
            Op::From(..) => "op:from-iter",
            Op::Push(..) => "op:push",
            Op::Get(..) => "op:get",
            Op::Len(..) => "op:len",
            Op::IsEmpty(..) => "op:is_empty",
            Op::Capacity(..) => "op:capacity",
            Op::Swap(..) => "op:swap",
            Op::Concat(_, _, _, false) => "op:concat",
            Op::Concat(_, _, _, true) => "op:plus",
            Op::Contains(..) => "op:contains",
            Op::Index(..) => "op:index",
            Op::Eq(..) => "op:eq",
            Op::CloneH(..) => "op:clone",
            Op::DropH(..) => "op:drop",
            Op::ToVec(..) => "op:to_vec",
            Op::Iter(..) => "op:iter",
            Op::Debug(..) => "op:debug",
            Op::Join(..) => "op:join",
        }
    }
}

pub fn show_ops(ops: &[Op]) -> String {
    let v: Vec<String> = ops.iter().map(|o| format!("{o:?}")).collect();
    v.join("; ")
}

const SWAPS: [(Ix, Ix); 8] = [
    (Ix::First, Ix::Last),
    (Ix::Last, Ix::First),
    (Ix::First, Ix::First),
    (Ix::First, Ix::Len),
    (Ix::Len, Ix::First),
    (Ix::LenP1, Ix::Last),
    (Ix::Max, Ix::First),
    (Ix::First, Ix::Max),
];

/// The alphabet of the exhaustive driver over `nh` handle slots.
pub fn alphabet(nh: u8) -> Vec<Op> {
    let mut v = Vec::new();
    for h in 0..nh {
        v.push(Op::New(h));
        v.push(Op::From(h, 3, h % 4));
        v.push(Op::Push(h, KeySel::Fresh));
        v.push(Op::Push(h, KeySel::First));
        for ix in [Ix::First, Ix::Last, Ix::Len, Ix::LenP1, Ix::Max] {
            v.push(Op::Get(h, ix));
        }
        v.push(Op::Len(h));
        v.push(Op::IsEmpty(h));
        v.push(Op::Capacity(h));
        for (i, j) in SWAPS {
            v.push(Op::Swap(h, i, j));
        }
        for k in [KeySel::First, KeySel::Last, KeySel::Absent] {
            v.push(Op::Contains(h, k));
            v.push(Op::Index(h, k));
        }
        for o in 0..nh {
            if o != h {
                v.push(Op::CloneH(h, o));
            }
        }
        v.push(Op::DropH(h));
        v.push(Op::ToVec(h));
        v.push(Op::Iter(h));
        v.push(Op::Debug(h));
    }
    for d in 0..nh {
        for a in 0..nh {
            for b in 0..nh {
                v.push(Op::Concat(d, a, b, false));
            }
        }
    }
    for a in 0..nh {
        for b in 0..nh {
            v.push(Op::Eq(a, b));
        }
    }
    v
}

/// Initial states of the exhaustive driver (as op prefixes over 2 slots).
pub const N_INITS: u64 = 3;
pub fn init_ops(init: u64) -> Vec<Op> {
    match init {
        // two distinct empty lists
        0 => vec![Op::New(0), Op::New(1)],
        // one object at the first capacity boundary, seen through two handles
        1 => vec![Op::From(0, 4, 0), Op::CloneH(1, 0)],
        // two distinct objects with equal contents
        _ => vec![Op::From(0, 3, 3), Op::New(1), Op::Concat(1, 0, 1, false)],
    }
}

/// Number of sequences of length 1..=maxlen over an alphabet of `a` symbols.
pub fn n_seqs(a: u64, maxlen: u32) -> u64 {
    (1..=maxlen).map(|l| a.pow(l)).sum()
}

/// Decode sequence number `idx` (0-based, shortest sequences first) into ops.
pub fn decode_seq(alpha: &[Op], mut idx: u64, out: &mut Vec<Op>) {
    out.clear();
    let a = alpha.len() as u64;
    let mut len = 1u32;
    loop {
        let n = a.pow(len);
        if idx < n {
            break;
        }
        idx -= n;
        len += 1;
    }
    for _ in 0..len {
        out.push(alpha[(idx % a) as usize]);
        idx /= a;
    }
}

pub const BOUNDARIES: [u16; 8] = [0, 4, 8, 16, 32, 64, 128, 256];

/// A random sequence of at most `maxlen` operations over `nh` slots. The first
/// operation builds a list just below / at a growth boundary so that pushes cross it.
pub fn random_ops(rng: &mut Rng, nh: u8, maxlen: usize, with_join: bool, max_boundary: u16) -> Vec<Op> {
    let mut ops = Vec::new();
    let bs: Vec<u16> = BOUNDARIES.iter().copied().filter(|b| *b <= max_boundary).collect();
    let b = *rng.pick(&bs);
    let start = if b == 0 { 0 } else { b - rng.below(3) as u16 };
    if start > 0 {
        ops.push(Op::From(0, start, rng.below(4) as u8));
    } else {
        ops.push(Op::New(0));
    }
    // the other slots: an alias of an earlier slot, an empty list or a short list
    for h in 1..nh {
        ops.push(match rng.below(4) {
            0 => Op::CloneH(h, rng.below(h as u64) as u8),
            1 => Op::From(h, 1 + rng.below(5) as u16, rng.below(4) as u8),
            _ => Op::New(h),
        });
    }
    let n = rng.range(10.min(maxlen as i64), maxlen as i64) as usize;
    let h = |rng: &mut Rng| rng.below(nh as u64) as u8;
    let ix = |rng: &mut Rng| match rng.below(8) {
        0 => Ix::First,
        1 => Ix::Last,
        2 => Ix::Len,
        3 => Ix::LenP1,
        4 => Ix::Max,
        _ => Ix::Mid(rng.below(1 << 16) as u16),
    };
    let ks = |rng: &mut Rng| match rng.below(6) {
        0 => KeySel::First,
        1 => KeySel::Last,
        2 | 3 => KeySel::Mid(rng.below(1 << 16) as u16),
        _ => KeySel::Absent,
    };
    // push-heavy profile while the boundary has not been crossed yet
    while ops.len() < n {
        let w: [u32; 19] = [2, 2, 34, 10, 3, 2, 3, 8, 4, 5, 5, 4, 5, 2, 3, 2, 2, if with_join { 2 } else { 0 }, 4];
        let op = match rng.weighted(&w) {
            0 => Op::New(h(rng)),
            1 => {
                let n = if rng.chance(1, 4) { rng.below(40) } else { rng.below(6) } as u16;
                let how = rng.below(4) as u8;
                Op::From(h(rng), if how == 2 { 3 } else { n }, how)
            }
            2 => Op::Push(h(rng), if rng.chance(3, 4) { KeySel::Fresh } else { ks(rng) }),
            3 => Op::Get(h(rng), ix(rng)),
            4 => Op::Len(h(rng)),
            5 => Op::IsEmpty(h(rng)),
            6 => Op::Capacity(h(rng)),
            7 => Op::Swap(h(rng), ix(rng), ix(rng)),
            8 => Op::Concat(h(rng), h(rng), h(rng), rng.bool()),
            9 => Op::Contains(h(rng), ks(rng)),
            10 => Op::Index(h(rng), ks(rng)),
            11 => Op::Eq(h(rng), h(rng)),
            12 => {
                let d = h(rng);
                let s = h(rng);
                if d == s { Op::Len(d) } else { Op::CloneH(d, s) }
            }
            13 => Op::DropH(h(rng)),
            14 => Op::ToVec(h(rng)),
            15 => Op::Iter(h(rng)),
            16 => Op::Debug(h(rng)),
            17 => Op::Join(h(rng)),
            // burst of pushes on slot 0: crosses the boundary chosen above
            _ => {
                for _ in 0..rng.below(6) {
                    ops.push(Op::Push(0, KeySel::Fresh));
                }
                Op::Push(0, KeySel::Fresh)
            }
        };
        ops.push(op);
    }
    ops.truncate(maxlen);
    ops
}

// ---------------------------------------------------------------------------
// Backends
// ---------------------------------------------------------------------------

/// The operations as offered by one way of reaching the implementation (Rust API,
/// script functions, or a mix). Indices are u64 (the script type); usize == u64 here.
pub trait Api<E: Elem> {
    /// prefix of the operation name in signatures ("" for the Rust API)
    fn prefix(&self) -> &'static str {
        ""
    }
    /// coverage tag of the route taken by the last call
    fn route(&self) -> &'static str {
        "via:rust"
    }
    /// who created the object: 0 = Rust (`List::new` vtable), 1 = script
    fn origin(&self) -> u8 {
        0
    }
    /// called before every operation (a mixed backend picks its route here)
    fn begin_op(&mut self) {}
    fn new_list(&mut self) -> List<E>;
    fn from_vec(&mut self, v: Vec<E>, how: u8) -> List<E>;
    fn push(&mut self, l: &List<E>, e: E);
    fn get(&mut self, l: &List<E>, i: u64) -> Option<E>;
    fn len(&mut self, l: &List<E>) -> u64;
    fn is_empty(&mut self, l: &List<E>) -> bool;
    fn capacity(&mut self, l: &List<E>) -> u64;
    fn swap(&mut self, l: &List<E>, i: u64, j: u64);
    fn concat(&mut self, a: &List<E>, b: &List<E>, plus: bool) -> List<E>;
    fn contains(&mut self, l: &List<E>, e: E) -> bool;
    fn index(&mut self, l: &List<E>, e: E) -> Option<u64>;
    fn eq(&mut self, a: &List<E>, b: &List<E>) -> bool;
    fn clone_h(&mut self, l: &List<E>) -> List<E>;
    fn to_vec(&mut self, l: &List<E>) -> Vec<E>;
    /// keys of the elements in iteration order
    fn iter_keys(&mut self, l: &List<E>) -> Vec<u64>;
    fn debug(&mut self, l: &List<E>) -> Option<String>;
    fn join(&mut self, _l: &List<E>, _sep: &str) -> Option<String> {
        None
    }
}

#[derive(Default)]
pub struct RustApi {
    n: u64,
}

impl<E: Elem> Api<E> for RustApi {
    fn new_list(&mut self) -> List<E> {
        self.n += 1;
        if self.n % 2 == 0 { List::new() } else { List::default() }
    }
    fn from_vec(&mut self, v: Vec<E>, how: u8) -> List<E> {
        match how {
            0 => List::from(v),
            1 => List::from(&v[..]),
            2 if v.len() == 3 => {
                let mut it = v.into_iter();
                let arr = [it.next().unwrap(), it.next().unwrap(), it.next().unwrap()];
                List::from(arr)
            }
            _ => v.into_iter().collect(),
        }
    }
    fn push(&mut self, l: &List<E>, e: E) {
        l.push(e)
    }
    fn get(&mut self, l: &List<E>, i: u64) -> Option<E> {
        l.get(i as usize)
    }
    fn len(&mut self, l: &List<E>) -> u64 {
        l.len() as u64
    }
    fn is_empty(&mut self, l: &List<E>) -> bool {
        l.is_empty()
    }
    fn capacity(&mut self, l: &List<E>) -> u64 {
        l.capacity() as u64
    }
    fn swap(&mut self, l: &List<E>, i: u64, j: u64) {
        l.swap(i as usize, j as usize)
    }
    fn concat(&mut self, a: &List<E>, b: &List<E>, _plus: bool) -> List<E> {
        a.concat(b)
    }
    fn contains(&mut self, l: &List<E>, e: E) -> bool {
        l.contains(&e)
    }
    fn index(&mut self, l: &List<E>, e: E) -> Option<u64> {
        l.index(&e).map(|i| i as u64)
    }
    fn eq(&mut self, a: &List<E>, b: &List<E>) -> bool {
        a == b
    }
    fn clone_h(&mut self, l: &List<E>) -> List<E> {
        l.clone()
    }
    fn to_vec(&mut self, l: &List<E>) -> Vec<E> {
        l.to_vec()
    }
    fn iter_keys(&mut self, l: &List<E>) -> Vec<u64> {
        l.clone().into_iter().map(|e| e.key_of()).collect()
    }
    fn debug(&mut self, l: &List<E>) -> Option<String> {
        Some(format!("{l:?}"))
    }
}

// ---------------------------------------------------------------------------
// Report
// ---------------------------------------------------------------------------

#[derive(Clone, Debug)]
pub struct CoreViol {
    pub sig: String,
    pub msg: String,
    /// the operation sequence that showed it (filled in by the runner)
    pub seq: String,
    pub count: u64,
}

#[derive(Clone, Debug, Default)]
pub struct Report {
    pub viols: Vec<CoreViol>,
    pub tags: BTreeSet<&'static str>,
    pub seqs: u64,
    pub ops: u64,
    pub checks: u64,
    /// operations not executed (unbound handle, size cap, shape known to hang)
    pub skipped_ops: u64,
    pub hang_skips: u64,
    pub panics: Vec<(String, String)>,
}

impl Report {
    pub fn viol(&mut self, sig: String, msg: String) {
        if let Some(v) = self.viols.iter_mut().find(|v| v.sig == sig) {
            v.count += 1;
        } else {
            self.viols.push(CoreViol { sig, msg, seq: String::new(), count: 1 });
        }
    }
    pub fn merge(&mut self, o: Report) {
        for v in o.viols {
            if let Some(w) = self.viols.iter_mut().find(|w| w.sig == v.sig) {
                w.count += v.count;
            } else {
                self.viols.push(v);
            }
        }
        self.tags.extend(o.tags);
        self.seqs += o.seqs;
        self.ops += o.ops;
        self.checks += o.checks;
        self.skipped_ops += o.skipped_ops;
        self.hang_skips += o.hang_skips;
        self.panics.extend(o.panics);
    }
}

// ---------------------------------------------------------------------------
// Guarded worker thread (keeps the process alive when an operation never returns)
// ---------------------------------------------------------------------------

/// State shared between a worker thread and its supervisor.
#[derive(Default)]
pub struct Shared {
    /// bumped after every operation
    pub progress: AtomicU64,
    /// number of the sequence being executed
    pub cur_seq: AtomicU64,
    /// descriptor of the potentially blocking operation in flight
    pub pending: Mutex<Option<String>>,
}

impl Shared {
    fn set_pending(&self, d: Option<String>) {
        *self.pending.lock().unwrap_or_else(|e| e.into_inner()) = d;
    }
}

#[derive(Clone, Debug)]
pub struct Hang {
    /// descriptor of the operation that did not return ("?" if unknown)
    pub pending: String,
    pub seq: u64,
}

type Job<S> = Box<dyn FnOnce(&mut S, &Shared) + Send>;

/// A thread owning a state `S` (e.g. compiled script functions) that executes jobs.
/// If a job does not make progress for a whole `timeout` interval the worker is
/// declared stuck; the caller must then forget it (its thread is leaked together
/// with everything it owns).
pub struct Worker<S> {
    tx: mpsc::Sender<Job<S>>,
    pub shared: Arc<Shared>,
}

impl<S: 'static> Worker<S> {
    pub fn spawn(init: impl FnOnce() -> S + Send + 'static) -> Worker<S> {
        let (tx, rx) = mpsc::channel::<Job<S>>();
        let shared = Arc::new(Shared::default());
        let sh = shared.clone();
        std::thread::Builder::new()
            .name("list-worker".into())
            .stack_size(16 << 20)
            .spawn(move || {
                let mut state = init();
                for job in rx {
                    job(&mut state, &sh);
                }
            })
            .expect("spawn worker");
        Worker { tx, shared }
    }

    pub fn run<R: Send + 'static>(
        &self,
        timeout: Duration,
        job: impl FnOnce(&mut S, &Shared) -> R + Send + 'static,
    ) -> Result<R, Hang> {
        let (rtx, rrx) = mpsc::channel::<R>();
        let boxed: Job<S> = Box::new(move |s, sh| {
            let r = job(s, sh);
            let _ = rtx.send(r);
        });
        if self.tx.send(boxed).is_err() {
            return Err(Hang { pending: "worker-died".into(), seq: 0 });
        }
        // poll in fifths of the budget; stuck = no progress during a whole budget
        let mut last = self.shared.progress.load(Ordering::SeqCst);
        let mut idle = 0;
        loop {
            match rrx.recv_timeout(timeout / 5) {
                Ok(r) => return Ok(r),
                Err(mpsc::RecvTimeoutError::Timeout) => {
                    let now = self.shared.progress.load(Ordering::SeqCst);
                    if now != last {
                        last = now;
                        idle = 0;
                        continue;
                    }
                    idle += 1;
                    if idle < 5 {
                        continue;
                    }
                    let pending = self.shared.pending.lock().unwrap_or_else(|e| e.into_inner()).clone();
                    return Err(Hang { pending: pending.unwrap_or_else(|| "?".into()), seq: self.shared.cur_seq.load(Ordering::SeqCst) });
                }
                Err(mpsc::RecvTimeoutError::Disconnected) => {
                    return Err(Hang { pending: "worker-died".into(), seq: self.shared.cur_seq.load(Ordering::SeqCst) });
                }
            }
        }
    }
}

// ---------------------------------------------------------------------------
// Lock-step executor
// ---------------------------------------------------------------------------

#[derive(Clone, Copy, Debug)]
pub struct ExecCfg {
    /// compare the tracked-instance count with the model after every operation
    pub ledger_every_op: bool,
    /// do not build objects longer than this
    pub max_len: usize,
}

impl Default for ExecCfg {
    fn default() -> Self {
        ExecCfg { ledger_every_op: true, max_len: 1200 }
    }
}

struct Slot<E: Elem> {
    list: List<E>,
    obj: usize,
}

pub struct Exec<'a, E: Elem, A: Api<E>> {
    pub api: &'a mut A,
    slots: Vec<Option<Slot<E>>>,
    objs: Vec<Vec<u64>>,
    refs: Vec<u32>,
    origin: Vec<u8>,
    next_key: u64,
    pub rep: &'a mut Report,
    sh: &'a Shared,
    hung: &'a BTreeSet<String>,
    cfg: ExecCfg,
}

fn growth_tag(n: usize) -> &'static str {
    match n {
        0..=4 => "growth:4",
        5..=8 => "growth:8",
        9..=16 => "growth:16",
        17..=32 => "growth:32",
        33..=64 => "growth:64",
        65..=128 => "growth:128",
        129..=256 => "growth:256",
        257..=512 => "growth:512",
        _ => "growth:1024+",
    }
}

fn bulk_tag(n: usize) -> &'static str {
    match n {
        0 => "bulk:0",
        1..=4 => "bulk:4",
        5..=8 => "bulk:8",
        9..=16 => "bulk:16",
        17..=32 => "bulk:32",
        33..=64 => "bulk:64",
        65..=128 => "bulk:128",
        129..=256 => "bulk:256",
        257..=512 => "bulk:512",
        _ => "bulk:1024+",
    }
}

impl<'a, E: Elem, A: Api<E>> Exec<'a, E, A> {
    pub fn new(api: &'a mut A, nh: usize, rep: &'a mut Report, sh: &'a Shared, hung: &'a BTreeSet<String>, cfg: ExecCfg) -> Self {
        E::ledger_reset();
        Exec {
            api,
            slots: (0..nh).map(|_| None).collect(),
            objs: Vec::new(),
            refs: Vec::new(),
            origin: Vec::new(),
            next_key: 1,
            rep,
            sh,
            hung,
            cfg,
        }
    }

    fn bad(&mut self, op: &str, shape: &str, msg: String) {
        let sig = format!("list:{}{}@{}/{}", self.api.prefix(), op, E::NAME, shape);
        self.rep.viol(sig, msg);
    }

    fn new_obj(&mut self, content: Vec<u64>) -> usize {
        self.objs.push(content);
        self.refs.push(0);
        self.origin.push(self.api.origin());
        self.objs.len() - 1
    }

    fn bind(&mut self, slot: u8, list: List<E>, obj: usize) {
        self.refs[obj] += 1;
        let old = self.slots[slot as usize].replace(Slot { list, obj });
        if let Some(o) = old {
            self.refs[o.obj] -= 1;
            drop(o.list);
        }
    }

    fn unbind(&mut self, slot: u8) {
        if let Some(o) = self.slots[slot as usize].take() {
            self.refs[o.obj] -= 1;
            drop(o.list);
        }
    }

    fn handle(&self, slot: u8) -> Option<(List<E>, usize)> {
        // a temporary extra handle: cheap (Arc clone) and keeps borrowck simple
        self.slots.get(slot as usize)?.as_ref().map(|s| (s.list.clone(), s.obj))
    }

    fn ix(&self, obj: usize, ix: Ix) -> (u64, &'static str) {
        let len = self.objs[obj].len() as u64;
        match ix {
            Ix::First => (0, if len > 0 { "first" } else { "len" }),
            Ix::Last => {
                if len > 0 {
                    (len - 1, "last")
                } else {
                    (u64::MAX, "max")
                }
            }
            Ix::Len => (len, "len"),
            Ix::LenP1 => (len + 1, "len+1"),
            Ix::Max => (u64::MAX, "max"),
            Ix::Mid(s) => {
                if len > 0 {
                    (s as u64 % len, "mid")
                } else {
                    (0, "len")
                }
            }
        }
    }

    fn fresh(&mut self) -> u64 {
        let k = self.next_key;
        self.next_key += 1;
        k
    }

    fn keysel(&mut self, obj: usize, sel: KeySel) -> u64 {
        let v = &self.objs[obj];
        match sel {
            KeySel::First if !v.is_empty() => v[0],
            KeySel::Last if !v.is_empty() => v[v.len() - 1],
            KeySel::Mid(s) if !v.is_empty() => v[s as usize % v.len()],
            KeySel::Absent => {
                // a key whose canonical form is not in the list (if there is one)
                let present: BTreeSet<u64> = v.iter().map(|k| E::canon(*k)).collect();
                let mut k = self.next_key + 1000;
                for _ in 0..300 {
                    if !present.contains(&E::canon(k)) {
                        break;
                    }
                    k += 1;
                }
                k
            }
            _ => self.fresh(),
        }
    }

    fn position(&self, obj: usize, key: u64) -> Option<u64> {
        let c = E::canon(key);
        self.objs[obj].iter().position(|k| E::canon(*k) == c).map(|i| i as u64)
    }

    fn alias_tag(&self, a: usize, b: usize, same_slot: bool) -> (&'static str, &'static str) {
        if same_slot {
            ("alias:same-handle", "same-handle")
        } else if a == b {
            ("alias:same-object", "same-object")
        } else {
            ("alias:distinct", "distinct")
        }
    }

    /// Returns false (and counts a skip) if an operation of this kind is known to
    /// hang in this process; otherwise announces it as pending.
    fn enter_blocking(&mut self, desc: String) -> bool {
        if self.hung.contains(&desc) {
            self.rep.skipped_ops += 1;
            self.rep.hang_skips += 1;
            self.rep.tags.insert("skip:known-hang");
            return false;
        }
        self.sh.set_pending(Some(desc));
        true
    }

    fn leave_blocking(&mut self) {
        self.sh.set_pending(None);
    }

    fn check_elems(&mut self, op: &'static str, shape: &str, obj: usize, got: &[u64]) {
        self.rep.checks += 1;
        let want: Vec<u64> = self.objs[obj].iter().map(|k| E::canon(*k)).collect();
        if got != want.as_slice() {
            let msg = format!("{op}: elements differ from the model: got {} keys {:?}, model {} keys {:?}", got.len(), trunc(got), want.len(), trunc(&want));
            self.bad(op, shape, msg);
        }
    }

    fn state_shape(&self, obj: usize) -> &'static str {
        let aliased = self.refs[obj] > 1;
        match (self.objs[obj].is_empty(), aliased) {
            (true, false) => "empty",
            (true, true) => "empty-aliased",
            (false, false) => "nonempty",
            (false, true) => "nonempty-aliased",
        }
    }

    pub fn step(&mut self, op: Op) {
        self.rep.ops += 1;
        self.rep.tags.insert(op.tag());
        self.api.begin_op();
        let done = self.step_inner(op);
        if !done {
            self.rep.skipped_ops += 1;
        } else {
            self.rep.tags.insert(self.api.route());
        }
        self.sh.progress.fetch_add(1, Ordering::Relaxed);
        if self.cfg.ledger_every_op {
            self.ledger_mid();
        }
    }

    fn step_inner(&mut self, op: Op) -> bool {
        match op {
            Op::New(h) => {
                let l = self.api.new_list();
                let o = self.new_obj(Vec::new());
                self.bind(h, l, o);
            }
            Op::From(h, n, how) => {
                let keys: Vec<u64> = (0..n).map(|_| self.fresh()).collect();
                let mut elems: Vec<E> = Vec::with_capacity(n as usize);
                for k in &keys {
                    elems.push(E::make(*k));
                    self.sh.progress.fetch_add(1, Ordering::Relaxed);
                }
                let l = self.api.from_vec(elems, how);
                self.rep.tags.insert(bulk_tag(n as usize));
                let o = self.new_obj(keys);
                self.bind(h, l, o);
            }
            Op::Push(h, sel) => {
                let Some((l, o)) = self.handle(h) else { return false };
                if self.objs[o].len() >= self.cfg.max_len {
                    return false;
                }
                let k = self.keysel(o, sel);
                self.api.push(&l, E::make(k));
                self.objs[o].push(k);
                let n = self.objs[o].len();
                // the push that needed a bigger buffer than before
                if n == 1 || (n > 4 && (n - 1).is_power_of_two()) {
                    self.rep.tags.insert(growth_tag(n));
                }
                if self.refs[o] > 1 {
                    self.rep.tags.insert("alias:push-aliased");
                }
            }
            Op::Get(h, ix) => {
                let Some((l, o)) = self.handle(h) else { return false };
                let (i, shape) = self.ix(o, ix);
                let got = self.api.get(&l, i).map(|e| e.key_of());
                let want = self.objs[o].get(i as usize).map(|k| E::canon(*k));
                self.rep.checks += 1;
                if got != want {
                    self.bad("get", shape, format!("get({i}) on a list of {} elements returned {got:?}, model {want:?}", self.objs[o].len()));
                }
            }
            Op::Len(h) => {
                let Some((l, o)) = self.handle(h) else { return false };
                let got = self.api.len(&l);
                self.rep.checks += 1;
                if got != self.objs[o].len() as u64 {
                    let shape = self.state_shape(o);
                    self.bad("len", shape, format!("len() = {got}, model {}", self.objs[o].len()));
                }
            }
            Op::IsEmpty(h) => {
                let Some((l, o)) = self.handle(h) else { return false };
                let got = self.api.is_empty(&l);
                self.rep.checks += 1;
                if got != self.objs[o].is_empty() {
                    let shape = self.state_shape(o);
                    self.bad("is_empty", shape, format!("is_empty() = {got}, model has {} elements", self.objs[o].len()));
                }
            }
            Op::Capacity(h) => {
                let Some((l, o)) = self.handle(h) else { return false };
                let got = self.api.capacity(&l);
                self.rep.checks += 1;
                if got < self.objs[o].len() as u64 {
                    let shape = self.state_shape(o);
                    self.bad("capacity", shape, format!("capacity() = {got} < len {}", self.objs[o].len()));
                }
            }
            Op::Swap(h, i, j) => {
                let Some((l, o)) = self.handle(h) else { return false };
                let (i, _) = self.ix(o, i);
                let (j, _) = self.ix(o, j);
                self.api.swap(&l, i, j);
                let n = self.objs[o].len() as u64;
                let shape = if i < n && j < n {
                    self.objs[o].swap(i as usize, j as usize);
                    if i == j { "same-index" } else { "in-range" }
                } else {
                    "out-of-range"
                };
                self.rep.tags.insert(match shape {
                    "same-index" => "swap:same-index",
                    "in-range" => "swap:in-range",
                    _ => "swap:out-of-range",
                });
                // the effect is compared right away so that the signature names swap
                let got: Vec<u64> = self.api.iter_keys(&l);
                self.check_elems("swap", shape, o, &got);
            }
            Op::Concat(d, a, b, plus) => {
                let Some((la, oa)) = self.handle(a) else { return false };
                let Some((lb, ob)) = self.handle(b) else { return false };
                if self.objs[oa].len() + self.objs[ob].len() > self.cfg.max_len {
                    return false;
                }
                let (tag, shape) = self.alias_tag(oa, ob, a == b);
                self.rep.tags.insert(tag);
                let desc = format!("hang:{}List::concat@{}", self.api.prefix(), shape);
                if !self.enter_blocking(desc) {
                    return false;
                }
                let r = self.api.concat(&la, &lb, plus);
                self.leave_blocking();
                let mut content = self.objs[oa].clone();
                content.extend_from_slice(&self.objs[ob]);
                self.rep.tags.insert(bulk_tag(content.len()));
                let o = self.new_obj(content);
                // concat copies the vtable of its left operand
                self.origin[o] = self.origin[oa];
                // operands unchanged, result correct: compared before the result is bound
                let ga = self.api.iter_keys(&la);
                self.check_elems("concat", &format!("{shape}:left-operand"), oa, &ga);
                let gb = self.api.iter_keys(&lb);
                self.check_elems("concat", &format!("{shape}:right-operand"), ob, &gb);
                let gr = self.api.iter_keys(&r);
                self.check_elems("concat", &format!("{shape}:result"), o, &gr);
                drop((la, lb));
                self.bind(d, r, o);
            }
            Op::Contains(h, sel) => {
                let Some((l, o)) = self.handle(h) else { return false };
                let k = self.keysel(o, sel);
                let want = self.position(o, k).is_some();
                let shape = format!("{}{}", if want { "present" } else { "absent" }, E::kind(k));
                if E::EQ_MAY_BLOCK && !self.objs[o].is_empty() {
                    let desc = format!("hang:{}List::contains@{}/nested-eq:{}", self.api.prefix(), E::NAME, self.vt(o));
                    if !self.enter_blocking(desc) {
                        return false;
                    }
                }
                let got = self.api.contains(&l, E::make(k));
                self.leave_blocking();
                self.rep.checks += 1;
                self.rep.tags.insert(if want { "contains:present" } else { "contains:absent" });
                if got != want {
                    self.bad("contains", &shape, format!("contains({}) = {got} on {:?}, model {want}", E::debug(k), trunc(&self.objs[o].iter().map(|k| E::canon(*k)).collect::<Vec<_>>())));
                }
            }
            Op::Index(h, sel) => {
                let Some((l, o)) = self.handle(h) else { return false };
                let k = self.keysel(o, sel);
                let want = self.position(o, k);
                let shape = format!("{}{}", if want.is_some() { "present" } else { "absent" }, E::kind(k));
                if E::EQ_MAY_BLOCK && !self.objs[o].is_empty() {
                    let desc = format!("hang:{}List::index@{}/nested-eq:{}", self.api.prefix(), E::NAME, self.vt(o));
                    if !self.enter_blocking(desc) {
                        return false;
                    }
                }
                let got = self.api.index(&l, E::make(k));
                self.leave_blocking();
                self.rep.checks += 1;
                self.rep.tags.insert(if want.is_some() { "index:present" } else { "index:absent" });
                if got != want {
                    self.bad("index", &shape, format!("index({}) = {got:?} on {:?}, model {want:?}", E::debug(k), trunc(&self.objs[o].iter().map(|k| E::canon(*k)).collect::<Vec<_>>())));
                }
            }
            Op::Eq(a, b) => {
                let Some((la, oa)) = self.handle(a) else { return false };
                let Some((lb, ob)) = self.handle(b) else { return false };
                let (tag, _) = self.alias_tag(oa, ob, a == b);
                self.rep.tags.insert(tag);
                let ca: Vec<u64> = self.objs[oa].iter().map(|k| E::canon(*k)).collect();
                let cb: Vec<u64> = self.objs[ob].iter().map(|k| E::canon(*k)).collect();
                let want = ca == cb;
                let shape = if oa == ob {
                    "same-object"
                } else if want {
                    "distinct-equal"
                } else {
                    "distinct-unequal"
                };
                let hshape = if oa == ob { "same-object" } else { "distinct-objects" };
                let mut desc = format!("hang:{}List::eq@{}", self.api.prefix(), hshape);
                if E::EQ_MAY_BLOCK && !self.api.prefix().is_empty() && oa != ob && !ca.is_empty() && ca.len() == cb.len() {
                    // (script route: `ErasedList::eq`) element equality is reached, which is
                    // `List::eq` when the left object carries a vtable made by `List::new`
                    desc = format!("{desc}/nested-eq:{}", self.vt(oa));
                }
                if !self.enter_blocking(desc) {
                    return false;
                }
                let got = self.api.eq(&la, &lb);
                self.leave_blocking();
                self.rep.tags.insert(match shape {
                    "same-object" => "eq:same-object",
                    "distinct-equal" => "eq:distinct-equal",
                    _ => "eq:distinct-unequal",
                });
                self.rep.checks += 1;
                if got != want {
                    self.bad("eq", shape, format!("{:?} == {:?} gave {got}, model {want}", trunc(&ca), trunc(&cb)));
                }
            }
            Op::CloneH(d, s) => {
                let Some((l, o)) = self.handle(s) else { return false };
                let c = self.api.clone_h(&l);
                drop(l);
                self.bind(d, c, o);
                self.rep.tags.insert("alias:clone");
            }
            Op::DropH(h) => {
                if self.slots[h as usize].is_none() {
                    return false;
                }
                let o = self.slots[h as usize].as_ref().unwrap().obj;
                self.rep.tags.insert(if self.refs[o] > 1 { "drop:aliased" } else { "drop:last-handle" });
                self.unbind(h);
            }
            Op::ToVec(h) => {
                let Some((l, o)) = self.handle(h) else { return false };
                let got: Vec<u64> = self.api.to_vec(&l).iter().map(|e| e.key_of()).collect();
                let shape = self.state_shape(o);
                self.check_elems("to_vec", shape, o, &got);
            }
            Op::Iter(h) => {
                let Some((l, o)) = self.handle(h) else { return false };
                let got = self.api.iter_keys(&l);
                let shape = self.state_shape(o);
                self.check_elems("iter", shape, o, &got);
            }
            Op::Debug(h) => {
                let Some((l, o)) = self.handle(h) else { return false };
                let Some(got) = self.api.debug(&l) else { return false };
                let parts: Vec<String> = self.objs[o].iter().map(|k| E::debug(*k)).collect();
                let want = E::debug_norm(&format!("List([{}])", parts.join(", ")));
                let got = E::debug_norm(&got);
                self.rep.checks += 1;
                if got != want {
                    let shape = self.state_shape(o);
                    self.bad("debug", shape, format!("Debug gave {:?}, expected {:?}", clip(&got), clip(&want)));
                }
            }
            Op::Join(h) => {
                let Some((l, o)) = self.handle(h) else { return false };
                let sep = if self.objs[o].len() % 2 == 0 { "," } else { "" };
                let Some(got) = self.api.join(&l, sep) else { return false };
                let parts: Vec<String> = self.objs[o].iter().map(|k| E::plain(*k)).collect();
                let want = parts.join(sep);
                self.rep.checks += 1;
                if got != want {
                    let shape = self.state_shape(o);
                    self.bad("join", shape, format!("join({sep:?}) gave {:?}, expected {:?}", clip(&got), clip(&want)));
                }
            }
        }
        true
    }

    fn vt(&self, obj: usize) -> &'static str {
        if self.origin[obj] == 0 { "rust-made" } else { "script-made" }
    }

    fn expected_live(&self) -> i64 {
        (0..self.objs.len()).filter(|o| self.refs[*o] > 0).map(|o| self.objs[o].len() as i64).sum()
    }

    fn ledger_alarms(&mut self, alarms: Vec<(String, String)>) {
        for (kind, msg) in alarms {
            self.rep.viol(format!("ledger:{kind}@list/{}", E::NAME), msg);
        }
    }

    fn ledger_mid(&mut self) {
        let Some((live, alarms)) = E::ledger_probe() else { return };
        self.rep.checks += 1;
        let want = self.expected_live();
        if live != want {
            self.rep.viol(format!("ledger:live-count@list/{}", E::NAME), format!("{live} tracked instances live, the lists hold {want}"));
        }
        self.ledger_alarms(alarms);
    }

    /// Compare every bound handle with the model, drop all handles, check the ledger.
    pub fn finish(mut self) {
        for h in 0..self.slots.len() {
            if let Some((l, o)) = self.handle(h as u8) {
                let n = self.api.len(&l);
                self.rep.checks += 1;
                if n != self.objs[o].len() as u64 {
                    self.bad("len", "final-state", format!("final len() = {n}, model {}", self.objs[o].len()));
                }
                let got: Vec<u64> = self.api.to_vec(&l).iter().map(|e| e.key_of()).collect();
                self.check_elems("to_vec", "final-state", o, &got);
            }
        }
        for h in 0..self.slots.len() {
            self.unbind(h as u8);
        }
        if let Some((live, alarms)) = E::ledger_probe() {
            self.rep.checks += 1;
            if live != 0 {
                let kind = if live > 0 { "leak" } else { "over-drop" };
                self.rep.viol(format!("ledger:{kind}@list/{}", E::NAME), format!("{live} tracked instances live after every handle was dropped"));
            }
            self.ledger_alarms(alarms);
        }
    }
}

fn trunc(v: &[u64]) -> Vec<u64> {
    v.iter().take(12).copied().collect()
}

fn clip(s: &str) -> String {
    if s.len() > 200 { format!("{}...", &s[..s.char_indices().take_while(|(i, _)| *i < 200).last().map(|(i, c)| i + c.len_utf8()).unwrap_or(0)]) } else { s.to_string() }
}

/// Run one sequence (init prefix + ops) against backend `api` and finish it.
pub fn run_seq<E: Elem, A: Api<E>>(api: &mut A, nh: usize, prefix: &[Op], ops: &[Op], rep: &mut Report, sh: &Shared, hung: &BTreeSet<String>, cfg: ExecCfg) {
    let mut ex: Exec<E, A> = Exec::new(api, nh, rep, sh, hung, cfg);
    for op in prefix {
        ex.api.begin_op();
        ex.step_inner(*op);
    }
    for op in ops {
        ex.step(*op);
    }
    ex.finish();
    rep.seqs += 1;
}

// ---------------------------------------------------------------------------
// Panic capture (the lists' own code panics on capacity overflow etc.)
// ---------------------------------------------------------------------------

static LAST_PANIC: Mutex<Option<String>> = Mutex::new(None);

pub fn install_panic_hook() {
    static HOOK: std::sync::Once = std::sync::Once::new();
    HOOK.call_once(|| {
        std::panic::set_hook(Box::new(|info| {
            let loc = info.location().map(|l| format!("{}:{}", l.file(), l.line())).unwrap_or_default();
            let msg = if let Some(s) = info.payload().downcast_ref::<&str>() {
                s.to_string()
            } else if let Some(s) = info.payload().downcast_ref::<String>() {
                s.clone()
            } else {
                "<non-string panic>".to_string()
            };
            *LAST_PANIC.lock().unwrap_or_else(|e| e.into_inner()) = Some(format!("{loc}: {msg}"));
        }));
    });
}

pub fn catch<R>(f: impl FnOnce() -> R) -> Result<R, String> {
    install_panic_hook();
    match std::panic::catch_unwind(std::panic::AssertUnwindSafe(f)) {
        Ok(r) => Ok(r),
        Err(_) => Err(LAST_PANIC.lock().unwrap_or_else(|e| e.into_inner()).take().unwrap_or_else(|| "panic".into())),
    }
}

// ---------------------------------------------------------------------------
// Block runner: many sequences on a guarded worker, resumed after a hang
// ---------------------------------------------------------------------------

/// Produces sequence number `i` of a block: (slots, init prefix, ops).
pub trait SeqSource: Send + Sync + 'static {
    fn len(&self) -> u64;
    fn get(&self, i: u64, prefix: &mut Vec<Op>, ops: &mut Vec<Op>) -> usize;
}

pub struct Progress {
    pub rep: Report,
    pub next: u64,
}

/// The set of blocking-operation descriptors that did not return earlier in this
/// process. Operations with such a descriptor are not executed again (they would
/// cost one timeout each and leak a thread); the first occurrence is reported.
#[derive(Default)]
pub struct HangState {
    pub hung: BTreeSet<String>,
}

/// Run all sequences of `src` for element type `E` on backend made by `mk_api` inside
/// a worker with state `S`. Returns the merged report; hangs are reported as
/// violations `hang:...` (first occurrence per process) and the block is resumed
/// after the sequence that hung, on a fresh worker obtained from `respawn`.
pub fn run_block<E: Elem, S: 'static, A: Api<E> + 'static>(
    worker: &mut Worker<S>,
    respawn: &dyn Fn() -> Worker<S>,
    hs: &mut HangState,
    timeout: Duration,
    src: Arc<dyn SeqSource>,
    cfg: ExecCfg,
    mk_api: Arc<dyn Fn(&mut S, u64) -> A + Send + Sync>,
) -> Report {
    let total = src.len();
    let prog = Arc::new(Mutex::new(Progress { rep: Report::default(), next: 0 }));
    loop {
        let start = prog.lock().unwrap().next;
        if start >= total {
            break;
        }
        let p2 = prog.clone();
        let src2 = src.clone();
        let hung = hs.hung.clone();
        let mk_api = mk_api.clone();
        let res = worker.run(timeout, move |state, sh| {
            let mut prefix = Vec::new();
            let mut ops = Vec::new();
            // one local report per chunk of sequences: merging after every sequence
            // costs more than running it
            let n = src2.len();
            let mut rep = Report::default();
            for i in start..n {
                sh.cur_seq.store(i, Ordering::Relaxed);
                let nh = src2.get(i, &mut prefix, &mut ops);
                let (nv, np) = (rep.viols.len(), rep.panics.len());
                let r = catch(|| {
                    let mut api = mk_api(state, i);
                    run_seq::<E, A>(&mut api, nh, &prefix, &ops, &mut rep, sh, &hung, cfg)
                });
                if let Err(p) = r {
                    rep.seqs += 1;
                    rep.panics.push((p, String::new()));
                }
                if rep.viols.len() != nv || rep.panics.len() != np {
                    let text = format!("elem {} init [{}] ops [{}]", E::NAME, show_ops(&prefix), show_ops(&ops));
                    for v in rep.viols[nv..].iter_mut() {
                        v.seq = text.clone();
                    }
                    for p in rep.panics[np..].iter_mut() {
                        p.1 = text.clone();
                    }
                }
                if (i + 1 - start) % 256 == 0 || i + 1 == n {
                    let mut g = p2.lock().unwrap_or_else(|e| e.into_inner());
                    g.rep.merge(std::mem::take(&mut rep));
                    g.next = i + 1;
                }
            }
        });
        match res {
            Ok(()) => break,
            Err(h) => {
                // the worker is stuck inside list code: abandon it together with every
                // list it owns, remember the shape, resume after that sequence
                let mut prefix = Vec::new();
                let mut ops = Vec::new();
                src.get(h.seq, &mut prefix, &mut ops);
                let text = format!("elem {} init [{}] ops [{}]", E::NAME, show_ops(&prefix), show_ops(&ops));
                {
                    let mut g = prog.lock().unwrap_or_else(|e| e.into_inner());
                    let sig = if h.pending.starts_with("hang:") { h.pending.clone() } else { format!("hang:unknown-operation@{}", h.pending) };
                    g.rep.viols.push(CoreViol {
                        sig,
                        msg: format!("operation did not return within {:?} (no progress); the worker thread was abandoned", timeout),
                        seq: text,
                        count: 1,
                    });
                    g.rep.seqs += 1;
                    g.rep.tags.insert("hang:observed");
                    // sequences since the last merge are run again; the one that hung is
                    // harmless then because its shape is skipped from now on
                    if !h.pending.starts_with("hang:") || hs.hung.contains(&h.pending) {
                        g.next = g.next.max(h.seq + 1);
                    }
                }
                hs.hung.insert(h.pending.clone());
                *worker = respawn();
            }
        }
    }
    let g = std::mem::replace(&mut *prog.lock().unwrap_or_else(|e| e.into_inner()), Progress { rep: Report::default(), next: 0 });
    g.rep
}

/// Like `run_block` but on the calling thread, without any guard: an operation that
/// never returns blocks the caller (under Miri its deadlock detector reports it).
pub fn run_inline<E: Elem, A: Api<E>>(api: &mut A, hs: &HangState, src: &dyn SeqSource, cfg: ExecCfg) -> Report {
    let sh = Shared::default();
    let mut total = Report::default();
    let mut prefix = Vec::new();
    let mut ops = Vec::new();
    for i in 0..src.len() {
        let nh = src.get(i, &mut prefix, &mut ops);
        let mut rep = Report::default();
        let r = catch(|| run_seq::<E, A>(api, nh, &prefix, &ops, &mut rep, &sh, &hs.hung, cfg));
        if let Err(p) = r {
            rep.seqs += 1;
            rep.panics.push((p, String::new()));
        }
        if !rep.viols.is_empty() || !rep.panics.is_empty() {
            let text = format!("elem {} init [{}] ops [{}]", E::NAME, show_ops(&prefix), show_ops(&ops));
            for v in rep.viols.iter_mut() {
                v.seq = text.clone();
            }
            for p in rep.panics.iter_mut() {
                p.1 = text.clone();
            }
        }
        total.merge(rep);
    }
    total
}

/// Sequences `[lo, hi)` of the exhaustive enumeration: index = init * n_seqs + seq.
pub struct ExhaustiveSrc {
    pub alpha: Vec<Op>,
    pub per_init: u64,
    pub lo: u64,
    pub hi: u64,
}

impl SeqSource for ExhaustiveSrc {
    fn len(&self) -> u64 {
        self.hi - self.lo
    }
    fn get(&self, i: u64, prefix: &mut Vec<Op>, ops: &mut Vec<Op>) -> usize {
        let g = self.lo + i;
        // interleave the initial states so that every block sees all of them
        let init = g % N_INITS;
        *prefix = init_ops(init);
        decode_seq(&self.alpha, (g / N_INITS) % self.per_init.max(1), ops);
        2
    }
}

/// One explicit sequence.
pub struct OneSrc {
    pub nh: usize,
    pub ops: Vec<Op>,
}

impl SeqSource for OneSrc {
    fn len(&self) -> u64 {
        1
    }
    fn get(&self, _i: u64, prefix: &mut Vec<Op>, ops: &mut Vec<Op>) -> usize {
        prefix.clear();
        *ops = self.ops.clone();
        self.nh
    }
}
