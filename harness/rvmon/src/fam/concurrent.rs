//! C12: compiled functions are safe and deterministic under concurrent use.
//!
//! One handle is cloned into N threads that call it M times each on a set of input
//! vectors, while (optionally) two other threads compile fresh scripts and a third
//! calls and drops the resulting packages. Every concurrent result and host-call
//! log must equal the single-threaded one; afterwards the drop ledger must be
//! balanced and alarm-free. The TSan flavour of the same workload reports data
//! races in the (instrumented) host side.
//!
//! The threads call through every kind of callable the API makes from a handle: the
//! shared `TypedFunc` (`call`), a clone each thread owns, or the `impl Fn` of
//! `into_func()` each thread makes from its clone; in the last two kinds the main thread
//! drops the package and the original handle while the calls are running.
//!
//! Scenario `shared-runtime` (every 8th case): N threads compile against ONE `Runtime`
//! (and clones of it), call, clone, convert and drop what they made, at the same time;
//! the state captured by the runtime's registered closures must be released exactly once,
//! after the runtime and everything compiled from it is gone.

use std::sync::Arc;
use std::sync::atomic::{AtomicBool, AtomicU64, Ordering};
use std::sync::mpsc;

use roto::{NoCtx, Runtime};

use crate::jsonw::J;
use crate::rg::ast::Program;
use crate::rg::generate::{Cfg, Gen};
use crate::rg::print;
use crate::rng::Rng;
use crate::exec::MainFn;
use crate::host::Trk;
use crate::val::{IntTy, V};
use crate::work::{Args, CaseOut, Family, catch, hash_str, panic_sig};
use crate::{conv, exec, host};

pub struct Concurrent {
    rt: Runtime<NoCtx>,
}

impl Concurrent {
    pub fn new(_args: &Args) -> Concurrent {
        Concurrent { rt: host::runtime() }
    }
}

fn gen_program(rng: &mut Rng) -> (Program, Vec<String>, String, &'static str) {
    let (mut cfg, name) = match rng.below(4) {
        0 => (Cfg::scalar(), "scalar"),
        1 => (Cfg::aggregate(), "aggregate"),
        2 => (Cfg::ownership(), "ownership"),
        _ => (Cfg::effects(), "effects"),
    };
    cfg.raw_div = false;
    cfg.trkz = false;
    cfg.avoid.diverge_in_partial = true;
    cfg.max_stmts = 5;
    let g = Gen::new(Rng::new(rng.next()), cfg);
    let (p, tags) = g.program();
    let src = print::print_program(&p, None);
    (p, tags.into_iter().collect(), src, name)
}

/// One execution, rendered as text (values may hold `Rc`s and cannot cross threads).
fn run_once(f: &dyn Fn() -> V, input: &[u64]) -> (String, Vec<String>) {
    host::set_input(input);
    host::log_clear();
    let v = f();
    let log: Vec<String> = host::log_take().iter().map(|e| e.show()).collect();
    (v.show(), log)
}

macro_rules! each_variant {
    ($f:expr, $x:ident => $e:expr) => {
        match $f {
            MainFn::Unit($x) => MainFn::Unit($e),
            MainFn::Bool($x) => MainFn::Bool($e),
            MainFn::Char($x) => MainFn::Char($e),
            MainFn::U8($x) => MainFn::U8($e),
            MainFn::U16($x) => MainFn::U16($e),
            MainFn::U32($x) => MainFn::U32($e),
            MainFn::U64($x) => MainFn::U64($e),
            MainFn::I8($x) => MainFn::I8($e),
            MainFn::I16($x) => MainFn::I16($e),
            MainFn::I32($x) => MainFn::I32($e),
            MainFn::I64($x) => MainFn::I64($e),
            MainFn::F32($x) => MainFn::F32($e),
            MainFn::F64($x) => MainFn::F64($e),
            MainFn::Str($x) => MainFn::Str($e),
            MainFn::OptI64($x) => MainFn::OptI64($e),
            MainFn::OptTrk($x) => MainFn::OptTrk($e),
            MainFn::TrkV($x) => MainFn::TrkV($e),
            MainFn::VerdI64($x) => MainFn::VerdI64($e),
            MainFn::VerdUU($x) => MainFn::VerdUU($e),
            MainFn::VerdIU($x) => MainFn::VerdIU($e),
            MainFn::VerdUI($x) => MainFn::VerdUI($e),
        }
    };
}

/// `TypedFunc::clone` of whatever signature the handle has.
fn clone_main(f: &MainFn) -> MainFn {
    each_variant!(f, x => x.clone())
}

/// Consumes the handle with `TypedFunc::into_func()`; the result is called through the
/// returned `impl Fn` only. The conversion of the result is the one of `MainFn::call`.
fn into_caller(f: MainFn) -> Box<dyn Fn() -> V> {
    use crate::alloc::exempt;
    macro_rules! int {
        ($f:ident, $t:expr) => {{
            let g = $f.into_func();
            Box::new(move || V::Int($t, g() as i128))
        }};
    }
    match f {
        MainFn::Unit(f) => {
            let g = f.into_func();
            Box::new(move || {
                g();
                V::Unit
            })
        }
        MainFn::Bool(f) => {
            let g = f.into_func();
            Box::new(move || V::Bool(g()))
        }
        MainFn::Char(f) => {
            let g = f.into_func();
            Box::new(move || V::Char(g()))
        }
        MainFn::U8(f) => int!(f, IntTy::U8),
        MainFn::U16(f) => int!(f, IntTy::U16),
        MainFn::U32(f) => int!(f, IntTy::U32),
        MainFn::U64(f) => int!(f, IntTy::U64),
        MainFn::I8(f) => int!(f, IntTy::I8),
        MainFn::I16(f) => int!(f, IntTy::I16),
        MainFn::I32(f) => int!(f, IntTy::I32),
        MainFn::I64(f) => int!(f, IntTy::I64),
        MainFn::F32(f) => {
            let g = f.into_func();
            Box::new(move || V::F32(g()))
        }
        MainFn::F64(f) => {
            let g = f.into_func();
            Box::new(move || V::F64(g()))
        }
        MainFn::Str(f) => {
            let g = f.into_func();
            Box::new(move || {
                let r = g();
                exempt(move || V::Str(r.to_string()))
            })
        }
        MainFn::OptI64(f) => {
            let g = f.into_func();
            Box::new(move || {
                let r = g();
                exempt(move || V::Opt(r.map(|x| Box::new(V::Int(IntTy::I64, x as i128)))))
            })
        }
        MainFn::OptTrk(f) => {
            let g = f.into_func();
            Box::new(move || {
                let r = g();
                exempt(move || {
                    V::Opt(r.map(|x| {
                        x.check("returned-to-rust");
                        Box::new(V::Trk(x.tag))
                    }))
                })
            })
        }
        MainFn::TrkV(f) => {
            let g = f.into_func();
            Box::new(move || {
                let x = g();
                x.check("returned-to-rust");
                V::Trk(x.tag)
            })
        }
        MainFn::VerdI64(f) => {
            let g = f.into_func();
            Box::new(move || {
                let r = g();
                exempt(move || match r {
                    roto::Verdict::Accept(x) => V::Enum(0, "Accept".into(), vec![V::Int(IntTy::I64, x as i128)]),
                    roto::Verdict::Reject(x) => V::Enum(1, "Reject".into(), vec![V::Int(IntTy::I64, x as i128)]),
                })
            })
        }
        MainFn::VerdUU(f) => {
            let g = f.into_func();
            Box::new(move || {
                let r = g();
                exempt(move || match r {
                    roto::Verdict::Accept(()) => V::Enum(0, "Accept".into(), vec![V::Unit]),
                    roto::Verdict::Reject(()) => V::Enum(1, "Reject".into(), vec![V::Unit]),
                })
            })
        }
        MainFn::VerdIU(f) => {
            let g = f.into_func();
            Box::new(move || {
                let r = g();
                exempt(move || match r {
                    roto::Verdict::Accept(x) => V::Enum(0, "Accept".into(), vec![V::Int(IntTy::I64, x as i128)]),
                    roto::Verdict::Reject(()) => V::Enum(1, "Reject".into(), vec![V::Unit]),
                })
            })
        }
        MainFn::VerdUI(f) => {
            let g = f.into_func();
            Box::new(move || {
                let r = g();
                exempt(move || match r {
                    roto::Verdict::Accept(()) => V::Enum(0, "Accept".into(), vec![V::Unit]),
                    roto::Verdict::Reject(x) => V::Enum(1, "Reject".into(), vec![V::Int(IntTy::I64, x as i128)]),
                })
            })
        }
    }
}

/// How the worker threads of a case reach the compiled function.
#[derive(Clone, Copy, PartialEq, Debug)]
enum Via {
    /// all threads call one `TypedFunc` by reference
    SharedHandle,
    /// every thread owns a clone of the handle
    OwnClone,
    /// every thread turns its clone into an `into_func()` closure and calls that
    IntoFunc,
}

// ---------------------------------------------------------------------------
// shared lists that are MUTATED by the concurrent calls: pushes, swaps, comparisons and
// reads on two shared lists. There is no single-threaded result to compare a call with;
// the oracles are conservation and order:
//   * nobody dies, no call waits forever (progress-based, as above);
//   * every value a call returns (`get`) is a value that was put into that list;
//   * when all threads are done, the first n0 elements are a permutation of the initial
//     ones (swaps stay below n0, values are unique), the rest is exactly the multiset of
//     pushed values, each once, and the pushes of one thread appear in its program order;
//     the length is n0 + number of pushes.
// ---------------------------------------------------------------------------

const SHARED_MUT_SRC: &str = "fn pu(a: List[u64], x: u64) {\n    a.push(x);\n}\n\nfn sw(a: List[u64], i: u64, j: u64) {\n    a.swap(i, j);\n}\n\nfn eq(a: List[u64], b: List[u64]) -> bool {\n    a == b\n}\n\nfn gt(a: List[u64], i: u64) -> u64 {\n    match a.get(i) {\n        Some(x) => x,\n        None => 0,\n    }\n}\n\nfn has(a: List[u64], x: u64) -> bool {\n    a.contains(x)\n}\n\nfn cc(a: List[u64], b: List[u64]) -> u64 {\n    a.concat(b).len()\n}\n\nfn sn(a: List[u64], n: u64) -> u64 {\n    perm_defect(a, n)\n}\n";

impl Concurrent {
    fn shared_lists_mutating(&mut self, rng: &mut Rng, args: &Args) -> CaseOut {
        let mut out = CaseOut::default();
        out.hash = hash_str(SHARED_MUT_SRC) ^ rng.next();
        out.sample = Some(J::obj().set("profile", "shared-lists-mutating").set("source", SHARED_MUT_SRC));
        out.tags.push("profile:shared-lists-mutating".into());
        let mut pkg = match catch(|| exec::compile(SHARED_MUT_SRC, &self.rt)) {
            Ok(Ok(p)) => p,
            Ok(Err(e)) => {
                out.viol("concurrent:shared-lists-mutating-script-rejected", e.lines().next().unwrap_or("").to_string(), J::Null);
                return out;
            }
            Err(p) => {
                out.viol(format!("concurrent:compile-{}", panic_sig(&p)), p, J::Null);
                return out;
            }
        };
        type L = roto::List<u64>;
        let pu = pkg.get_function::<fn(L, u64)>("pu").ok();
        let sw = pkg.get_function::<fn(L, u64, u64)>("sw").ok();
        let eq = pkg.get_function::<fn(L, L) -> bool>("eq").ok();
        let gt = pkg.get_function::<fn(L, u64) -> u64>("gt").ok();
        let has = pkg.get_function::<fn(L, u64) -> bool>("has").ok();
        let cc = pkg.get_function::<fn(L, L) -> u64>("cc").ok();
        let sn = pkg.get_function::<fn(L, u64) -> u64>("sn").ok();
        let (Some(pu), Some(sw), Some(eq), Some(gt), Some(has), Some(cc), Some(sn)) = (pu, sw, eq, gt, has, cc, sn) else {
            out.skipped = Some("shared-lists-mutating:no-function".into());
            return out;
        };
        // initial contents: unique values 1..=n0 in both lists (equal lists, so that == walks
        // the elements); n0 next to a growth boundary now and then
        let n0 = *rng.pick(&[2usize, 3, 4, 7, 8, 64]);
        let a: L = (1..=n0 as u64).collect();
        let b: L = (1..=n0 as u64).collect();
        out.tags.push(format!("shared-lists-mutating:len:{n0}"));
        let with_delays = rng.bool();
        out.tags.push(format!("shared-lists-mutating:injected-delays:{with_delays}"));
        let n_threads = *rng.pick(&[2usize, 3, 4, 8]);
        out.tags.push(format!("threads:{n_threads}"));
        let rounds: usize = if args.thorough() { 6000 } else { 2000 };
        // what each thread mostly does
        // (swap-vs-snapshot: nobody pushes, so every snapshot the host takes with to_vec must be a
        // permutation of the initial values)
        let mix = *rng.pick(&["mixed", "push-vs-eq", "swap-vs-swap", "push-vs-get", "swap-vs-snapshot"]);
        out.tags.push(format!("shared-lists-mutating:mix:{mix}"));
        if with_delays {
            roto::verif::set_list_hook(Some(delay_hook));
        }
        // per thread: (pushed to a, pushed to b) in program order; or an error
        let (tx, rx) = mpsc::channel::<Result<(Vec<u64>, Vec<u64>, u64), String>>();
        let start = Arc::new(std::sync::Barrier::new(n_threads));
        let progress = Arc::new(AtomicU64::new(0));
        // set once some push has returned: from then on the two lists differ for good (pushed
        // values are unique), so a comparison that STARTS afterwards must say "not equal"
        let any_push = Arc::new(std::sync::atomic::AtomicBool::new(false));
        for t in 0..n_threads {
            let progress = progress.clone();
            let any_push = any_push.clone();
            let (pu, sw, eq, gt, has, cc, sn) = (pu.clone(), sw.clone(), eq.clone(), gt.clone(), has.clone(), cc.clone(), sn.clone());
            let (a, b) = (a.clone(), b.clone());
            let tx = tx.clone();
            let start = start.clone();
            let seed = rng.next();
            std::thread::spawn(move || {
                let mut r = Rng::new(seed);
                start.wait();
                let (mut pa, mut pb) = (Vec::new(), Vec::new());
                let mut calls = 0u64;
                let n0 = n0 as u64;
                for round in 0..rounds {
                    let op = match mix {
                        // one pusher keeps the two lists equal (the same value goes to a, then to
                        // b), everybody else compares them: the comparison walks all elements
                        "push-vs-eq" => if t == 0 { 0 } else { 2 },
                        "swap-vs-swap" => 1,
                        "push-vs-get" => if t % 2 == 0 { 0 } else { 3 },
                        "swap-vs-snapshot" => if t % 2 == 0 { 1 } else { 6 },
                        _ => r.usize(6),
                    };
                    let first = if mix == "push-vs-eq" && op == 0 { round % 2 == 0 } else { r.bool() };
                    let (x, y) = if first { (&a, &b) } else { (&b, &a) };
                    match op {
                        0 => {
                            // a value no other push uses: thread in the high bits
                            let v = if mix == "push-vs-eq" { ((t as u64 + 1) << 32) | (round / 2) as u64 } else { ((t as u64 + 1) << 32) | round as u64 };
                            pu.call(x.clone(), v);
                            any_push.store(true, Ordering::SeqCst);
                            if first { pa.push(v) } else { pb.push(v) }
                        }
                        1 => sw.call(x.clone(), r.below(n0), r.below(n0)),
                        2 => {
                            let differ_already = mix != "push-vs-eq" && any_push.load(Ordering::SeqCst);
                            let same = eq.call(x.clone(), y.clone());
                            if same && differ_already {
                                let _ = tx.send(Err(format!("thread {t} round {round}: a == b returned true although a push of a unique value had completed before the comparison began")));
                                return;
                            }
                        }
                        3 => {
                            let i = r.below(n0 + 40);
                            let v = gt.call(x.clone(), i);
                            // 0 = out of range; else an initial value or a pushed one
                            let ok = v == 0 || v <= n0 || ((v >> 32) >= 1 && (v >> 32) <= 64 && (v & 0xffff_ffff) < rounds as u64);
                            if !ok {
                                let _ = tx.send(Err(format!("thread {t} round {round}: get({i}) returned {v:#x}, a value nobody put into the list")));
                                return;
                            }
                            if i < n0 && v == 0 {
                                let _ = tx.send(Err(format!("thread {t} round {round}: get({i}) found nothing below the initial length {n0}")));
                                return;
                            }
                        }
                        6 => {
                            let d = sn.call(x.clone(), n0);
                            if d != 0 {
                                let _ = tx.send(Err(format!("thread {t} round {round}: a snapshot taken with to_vec while other threads only swap is not a permutation of the initial values (defect {d})")));
                                return;
                            }
                        }
                        4 => {
                            // an initial value is always somewhere in the list
                            // (whether a scan may miss an element that a concurrent swap moves is
                            // judged under the controlled scheduler of C16, not here)
                            let v = 1 + r.below(n0);
                            let _ = has.call(x.clone(), v);
                        }
                        _ => {
                            let n = cc.call(x.clone(), y.clone());
                            if n < 2 * n0 {
                                let _ = tx.send(Err(format!("thread {t} round {round}: concat has {n} elements, fewer than the two initial lengths {n0}+{n0}")));
                                return;
                            }
                        }
                    }
                    calls += 1;
                    progress.fetch_add(1, Ordering::Relaxed);
                }
                let _ = tx.send(Ok((pa, pb, calls)));
            });
        }
        drop(tx);
        let t0 = std::time::Instant::now();
        let mut last_progress = (progress.load(Ordering::Relaxed), std::time::Instant::now());
        let mut done = 0;
        let mut total = 0u64;
        let mut pushed: [Vec<Vec<u64>>; 2] = [Vec::new(), Vec::new()];
        let mut complete = true;
        while done < n_threads {
            match rx.recv_timeout(std::time::Duration::from_millis(500)) {
                Ok(Ok((pa, pb, c))) => {
                    done += 1;
                    total += c;
                    pushed[0].push(pa);
                    pushed[1].push(pb);
                }
                Ok(Err(m)) => {
                    done += 1;
                    complete = false;
                    out.viol("concurrent:shared-lists-mutating-impossible-value", m, J::obj().set("threads", n_threads as u64).set("len", n0 as u64).set("mix", mix));
                }
                Err(mpsc::RecvTimeoutError::Timeout) => {
                    let p = progress.load(Ordering::Relaxed);
                    if p != last_progress.0 {
                        last_progress = (p, std::time::Instant::now());
                    } else if last_progress.1.elapsed().as_secs() >= 15 {
                        complete = false;
                        out.viol(
                            "concurrent:shared-lists-mutating-calls-never-return",
                            format!("{} of {n_threads} threads pushing / swapping / comparing two shared lists are stuck: no call returned on any thread for 15 s after {p} completed calls", n_threads - done),
                            J::obj().set("threads", n_threads as u64).set("mix", mix).set("calls_completed", p),
                        );
                        break;
                    }
                    if t0.elapsed().as_secs() >= 180 {
                        complete = false;
                        out.skipped = Some("shared-lists-mutating:slow".into());
                        break;
                    }
                }
                Err(mpsc::RecvTimeoutError::Disconnected) => {
                    complete = false;
                    out.viol("concurrent:thread-panicked", "a worker thread of the shared-lists-mutating scenario ended without a result", J::Null);
                    break;
                }
            }
        }
        roto::verif::set_list_hook(None);
        if complete {
            for (which, (list, pushes)) in [(&a, &pushed[0]), (&b, &pushed[1])].into_iter().enumerate() {
                let name = if which == 0 { "a" } else { "b" };
                let got: Vec<u64> = list.to_vec();
                let n_pushed: usize = pushes.iter().map(|p| p.len()).sum();
                let mut bad: Option<String> = None;
                if got.len() != n0 + n_pushed {
                    bad = Some(format!("list {name} has {} elements after {n_pushed} pushes onto {n0}", got.len()));
                } else {
                    let mut head: Vec<u64> = got[..n0].to_vec();
                    head.sort_unstable();
                    if head != (1..=n0 as u64).collect::<Vec<_>>() {
                        bad = Some(format!("the first {n0} elements of list {name} are no longer a permutation of the initial values: {:?}", &got[..n0]));
                    } else {
                        // per thread: its pushes in program order
                        let mut next: std::collections::HashMap<u64, usize> = std::collections::HashMap::new();
                        let by_thread: std::collections::HashMap<u64, &Vec<u64>> = pushes.iter().filter(|p| !p.is_empty()).map(|p| (p[0] >> 32, p)).collect();
                        for v in &got[n0..] {
                            let th = v >> 32;
                            let i = next.entry(th).or_insert(0);
                            match by_thread.get(&th).and_then(|p| p.get(*i)) {
                                Some(w) if w == v => *i += 1,
                                other => {
                                    bad = Some(format!("list {name}: found {v:#x} where the next push of thread {} was {:?} (lost, duplicated or reordered push)", th.wrapping_sub(1), other));
                                    break;
                                }
                            }
                        }
                    }
                }
                if let Some(m) = bad {
                    out.viol("concurrent:shared-lists-mutating-not-conserved", m, J::obj().set("threads", n_threads as u64).set("len", n0 as u64).set("mix", mix).set("injected_delays", with_delays));
                }
            }
        }
        out.evals = total;
        out.events = total;
        out.count("concurrent_calls", total);
        out.count("shared_list_mutating_calls", total);
        out.nontrivial = total > 0;
        out
    }
}

// ---------------------------------------------------------------------------
// shared StringBufs: StringBuf is the other built-in type with shared interior state (a
// mutex-protected string behind an Arc). The Rust type is not exported, so two threads
// come to share StringBufs the way any host can make them: as script constants (every
// read of a constant is a handle to the one buffer). The functions compare the two
// constants in both operand orders and are called from several threads at once.
// ---------------------------------------------------------------------------

fn shared_sb_src(n: usize, equal: bool) -> String {
    let text = "r".repeat(n);
    let other = if equal { text.clone() } else { format!("{text}!") };
    format!(
        "const SB_A: StringBuf = StringBuf.from(\"{text}\");\nconst SB_B: StringBuf = StringBuf.from(\"{other}\");\n\n\
         fn eq_ab() -> bool {{\n    SB_A == SB_B\n}}\n\nfn eq_ba() -> bool {{\n    SB_B == SB_A\n}}\n\n\
         fn ne_ab() -> bool {{\n    SB_A != SB_B\n}}\n\nfn ne_ba() -> bool {{\n    SB_B != SB_A\n}}\n\n\
         fn same() -> bool {{\n    SB_A == SB_A && SB_B == SB_B\n}}\n\n\
         fn lens() -> bool {{\n    SB_A.as_string() == SB_B.as_string()\n}}\n"
    )
}

type FSb = roto::TypedFunc<NoCtx, fn() -> bool>;

impl Concurrent {
    fn shared_stringbufs(&mut self, rng: &mut Rng, args: &Args) -> CaseOut {
        let mut out = CaseOut::default();
        // long contents keep a thread inside the comparison for a while
        let n = *rng.pick(&[0usize, 5, 4096, 1 << 18]);
        let equal = rng.bool();
        let src = shared_sb_src(n, equal);
        out.hash = hash_str(&src) ^ rng.next();
        out.sample = Some(J::obj().set("profile", "shared-stringbufs").set("source", if n > 64 { shared_sb_src(8, equal) } else { src.clone() }).set("len", n as u64));
        out.tags.push("profile:shared-stringbufs".into());
        let mut pkg = match catch(|| exec::compile(&src, &self.rt)) {
            Ok(Ok(p)) => p,
            Ok(Err(e)) => {
                out.viol("concurrent:shared-stringbufs-script-rejected", e.lines().next().unwrap_or("").to_string(), J::Null);
                return out;
            }
            Err(p) => {
                out.viol(format!("concurrent:compile-{}", panic_sig(&p)), p, J::Null);
                return out;
            }
        };
        let names = ["eq_ab", "eq_ba", "ne_ab", "ne_ba", "same", "lens"];
        let mut fs: Vec<FSb> = Vec::new();
        for nm in names {
            match pkg.get_function::<fn() -> bool>(nm) {
                Ok(f) => fs.push(f),
                Err(_) => {
                    out.skipped = Some("shared-stringbufs:no-function".into());
                    return out;
                }
            }
        }
        out.tags.push(format!("shared-stringbufs:len:{n}"));
        out.tags.push(format!("shared-stringbufs:equal-contents:{equal}"));
        let n_threads = *rng.pick(&[2usize, 2, 3, 4, 8]);
        out.tags.push(format!("threads:{n_threads}"));
        let rounds: usize = if n >= 1 << 18 { 2_000 } else if args.thorough() { 100_000 } else { 30_000 };
        let reference: Vec<bool> = fs.iter().map(|f| f.call()).collect();
        let (tx, rx) = mpsc::channel::<Result<u64, String>>();
        let start = Arc::new(std::sync::Barrier::new(n_threads));
        let progress = Arc::new(AtomicU64::new(0));
        for t in 0..n_threads {
            let progress = progress.clone();
            let fs = fs.clone();
            let reference = reference.clone();
            let tx = tx.clone();
            let start = start.clone();
            let seed = rng.next();
            std::thread::spawn(move || {
                let mut r = Rng::new(seed);
                start.wait();
                let mut calls = 0u64;
                for round in 0..rounds {
                    // mostly comparisons of the two buffers; neighbouring threads prefer
                    // opposite operand orders
                    let op = if r.chance(7, 8) { 2 * r.usize(2) + (if r.chance(7, 8) { t % 2 } else { r.usize(2) }) } else { 4 + r.usize(2) };
                    let got = fs[op].call();
                    calls += 1;
                    progress.fetch_add(1, Ordering::Relaxed);
                    if got != reference[op] {
                        let _ = tx.send(Err(format!("thread {t} round {round} function {}: got {got} single-threaded {}", ["eq_ab", "eq_ba", "ne_ab", "ne_ba", "same", "lens"][op], reference[op])));
                        return;
                    }
                }
                let _ = tx.send(Ok(calls));
            });
        }
        drop(tx);
        // as in shared_lists: "never returns" is decided on progress, not on a deadline
        let t0 = std::time::Instant::now();
        let mut last_progress = (progress.load(Ordering::Relaxed), std::time::Instant::now());
        let mut done = 0;
        let mut total = 0u64;
        while done < n_threads {
            match rx.recv_timeout(std::time::Duration::from_millis(500)) {
                Ok(Ok(c)) => {
                    done += 1;
                    total += c;
                }
                Ok(Err(m)) => {
                    done += 1;
                    out.viol("concurrent:shared-stringbufs-result-differs", m, J::obj().set("threads", n_threads as u64).set("len", n as u64));
                }
                Err(mpsc::RecvTimeoutError::Timeout) => {
                    let p = progress.load(Ordering::Relaxed);
                    if p != last_progress.0 {
                        last_progress = (p, std::time::Instant::now());
                    } else if last_progress.1.elapsed().as_secs() >= 15 {
                        out.viol(
                            "concurrent:shared-stringbufs-calls-never-return",
                            format!(
                                "{} of {n_threads} threads comparing two StringBuf constants (len {n}) in both operand orders are stuck: no call returned on any thread for 15 s after {p} completed calls: the calls wait for each other",
                                n_threads - done
                            ),
                            J::obj().set("threads", n_threads as u64).set("len", n as u64).set("calls_completed", p),
                        );
                        break;
                    }
                    if t0.elapsed().as_secs() >= 180 {
                        out.skipped = Some("shared-stringbufs:slow".into());
                        break;
                    }
                }
                Err(mpsc::RecvTimeoutError::Disconnected) => {
                    out.viol("concurrent:thread-panicked", "a worker thread of the shared-stringbufs scenario ended without a result", J::Null);
                    break;
                }
            }
        }
        out.evals = total;
        out.events = total;
        out.count("concurrent_calls", total);
        out.count("shared_stringbuf_calls", total);
        out.nontrivial = total > 0;
        out
    }
}

// ---------------------------------------------------------------------------
// shared list arguments: the same handles called from several threads with the same
// two lists in both argument orders
// ---------------------------------------------------------------------------

const SHARED_SRC: &str = "fn cc(a: List[u64], b: List[u64]) -> u64 {\n    a.concat(b).len()\n}\n\nfn eq(a: List[u64], b: List[u64]) -> bool {\n    a == b\n}\n\nfn has(a: List[u64], b: List[u64]) -> bool {\n    match b.get(0) {\n        Some(x) => a.contains(x),\n        None => false,\n    }\n}\n\nfn plus(a: List[u64], b: List[u64]) -> u64 {\n    (a + b + a).len()\n}\n";

static DELAY_SEED: AtomicU64 = AtomicU64::new(1);

/// Delay injection at the lock-acquisition hook of the list code: now and then a thread
/// that is about to take a list lock yields or sleeps for a moment.
fn delay_hook(ev: &roto::verif::ListEvent<'_>) {
    if let roto::verif::ListEvent::BeforeLock { .. } = ev {
        let x = DELAY_SEED.fetch_add(0x9E37_79B9_7F4A_7C15, Ordering::Relaxed);
        let h = (x ^ (x >> 29)).wrapping_mul(0xBF58_476D_1CE4_E5B9) >> 58;
        match h {
            0..=5 => std::thread::yield_now(),
            6 => std::thread::sleep(std::time::Duration::from_micros(50)),
            _ => {}
        }
    }
}

type F2u = roto::TypedFunc<NoCtx, fn(roto::List<u64>, roto::List<u64>) -> u64>;
type F2b = roto::TypedFunc<NoCtx, fn(roto::List<u64>, roto::List<u64>) -> bool>;

impl Concurrent {
    fn shared_lists(&mut self, rng: &mut Rng, args: &Args) -> CaseOut {
        let mut out = CaseOut::default();
        out.hash = hash_str(SHARED_SRC) ^ rng.next();
        out.sample = Some(J::obj().set("profile", "shared-lists").set("source", SHARED_SRC));
        out.tags.push("profile:shared-lists".into());
        let mut pkg = match catch(|| exec::compile(SHARED_SRC, &self.rt)) {
            Ok(Ok(p)) => p,
            Ok(Err(e)) => {
                out.viol("concurrent:shared-lists-script-rejected", e.lines().next().unwrap_or("").to_string(), J::Null);
                return out;
            }
            Err(p) => {
                out.viol(format!("concurrent:compile-{}", panic_sig(&p)), p, J::Null);
                return out;
            }
        };
        let get_u = |pkg: &mut roto::Package<NoCtx>, n: &str| -> Option<F2u> { pkg.get_function::<fn(roto::List<u64>, roto::List<u64>) -> u64>(n).ok() };
        let (Some(cc), Some(plus)) = (get_u(&mut pkg, "cc"), get_u(&mut pkg, "plus")) else {
            out.skipped = Some("shared-lists:no-function".into());
            return out;
        };
        let get_b = |pkg: &mut roto::Package<NoCtx>, n: &str| -> Option<F2b> { pkg.get_function::<fn(roto::List<u64>, roto::List<u64>) -> bool>(n).ok() };
        let (Some(eq), Some(has)) = (get_b(&mut pkg, "eq"), get_b(&mut pkg, "has")) else {
            out.skipped = Some("shared-lists:no-function".into());
            return out;
        };
        // long lists keep a thread inside a critical section for a while; short ones make
        // the acquisitions frequent
        let n = *rng.pick(&[0usize, 3, 64, 20_000, 200_000]);
        let x: roto::List<u64> = (0..n as u64).collect();
        let y: roto::List<u64> = (0..n as u64 + 1).collect();
        out.tags.push(format!("shared-lists:len:{n}"));
        let with_delays = rng.bool();
        out.tags.push(format!("shared-lists:injected-delays:{with_delays}"));
        let n_threads = *rng.pick(&[2usize, 2, 3, 4, 8]);
        out.tags.push(format!("threads:{n_threads}"));
        let rounds: usize = if n >= 20_000 { 40 } else if args.thorough() { 3000 } else { 800 };
        // single-threaded reference: (op, swapped) -> result
        let call = |op: usize, sw: bool, x: &roto::List<u64>, y: &roto::List<u64>| -> u64 {
            let (a, b) = if sw { (y.clone(), x.clone()) } else { (x.clone(), y.clone()) };
            match op {
                0 => cc.call(a, b),
                1 => eq.call(a, b) as u64,
                2 => has.call(a, b) as u64,
                3 => plus.call(a, b),
                _ => eq.call(a.clone(), a) as u64 + 10,
            }
        };
        let mut reference = [[0u64; 2]; 5];
        for (op, r) in reference.iter_mut().enumerate() {
            for sw in [false, true] {
                r[sw as usize] = call(op, sw, &x, &y);
            }
        }
        if with_delays {
            roto::verif::set_list_hook(Some(delay_hook));
        }
        let (tx, rx) = mpsc::channel::<Result<u64, String>>();
        let start = Arc::new(std::sync::Barrier::new(n_threads));
        let progress = Arc::new(AtomicU64::new(0));
        for t in 0..n_threads {
            let progress = progress.clone();
            let (cc, eq, has, plus) = (cc.clone(), eq.clone(), has.clone(), plus.clone());
            let (x, y) = (x.clone(), y.clone());
            let tx = tx.clone();
            let start = start.clone();
            let seed = rng.next();
            std::thread::spawn(move || {
                let mut r = Rng::new(seed);
                start.wait();
                let mut calls = 0u64;
                for round in 0..rounds {
                    let op = r.usize(5);
                    // neighbouring threads prefer opposite argument orders
                    let sw = if r.chance(3, 4) { t % 2 == 1 } else { r.bool() };
                    let (a, b) = if sw { (y.clone(), x.clone()) } else { (x.clone(), y.clone()) };
                    let got = match op {
                        0 => cc.call(a, b),
                        1 => eq.call(a, b) as u64,
                        2 => has.call(a, b) as u64,
                        3 => plus.call(a, b),
                        _ => eq.call(a.clone(), a) as u64 + 10,
                    };
                    calls += 1;
                    progress.fetch_add(1, Ordering::Relaxed);
                    if got != reference[op][sw as usize] {
                        let _ = tx.send(Err(format!(
                            "thread {t} round {round} op {op} swapped {sw}: got {got} single-threaded {}",
                            reference[op][sw as usize]
                        )));
                        return;
                    }
                }
                let _ = tx.send(Ok(calls));
            });
        }
        drop(tx);
        // The threads are not joined: if they wait for each other forever that is the finding.
        // "Forever" is decided on progress, not on a deadline: no call completes on any thread
        // for 15 s while threads are unfinished (one call takes far below a millisecond per
        // 10^4 elements). A run that is merely slow keeps making progress; it is given up
        // as inconclusive after 180 s.
        let t0 = std::time::Instant::now();
        let mut last_progress = (progress.load(Ordering::Relaxed), std::time::Instant::now());
        let mut done = 0;
        let mut total = 0u64;
        while done < n_threads {
            match rx.recv_timeout(std::time::Duration::from_millis(500)) {
                Ok(Ok(c)) => {
                    done += 1;
                    total += c;
                }
                Ok(Err(m)) => {
                    done += 1;
                    out.viol("concurrent:shared-lists-result-differs", m, J::obj().set("threads", n_threads as u64).set("len", n as u64));
                }
                Err(mpsc::RecvTimeoutError::Timeout) => {
                    let p = progress.load(Ordering::Relaxed);
                    if p != last_progress.0 {
                        last_progress = (p, std::time::Instant::now());
                    } else if last_progress.1.elapsed().as_secs() >= 15 {
                        out.viol(
                            "concurrent:shared-lists-calls-never-return",
                            format!(
                                "{} of {n_threads} threads calling cc/eq/has/plus on two shared lists (len {n}) in both argument orders are stuck: no call returned on any thread for 15 s after {p} completed calls: the calls wait for each other",
                                n_threads - done
                            ),
                            J::obj().set("threads", n_threads as u64).set("len", n as u64).set("injected_delays", with_delays).set("calls_completed", p),
                        );
                        break;
                    }
                    if t0.elapsed().as_secs() >= 180 {
                        out.skipped = Some("shared-lists:slow".into());
                        break;
                    }
                }
                Err(mpsc::RecvTimeoutError::Disconnected) => {
                    out.viol("concurrent:thread-panicked", "a worker thread of the shared-lists scenario ended without a result", J::Null);
                    break;
                }
            }
        }
        roto::verif::set_list_hook(None);
        out.evals = total;
        out.events = total;
        out.count("concurrent_calls", total);
        out.count("shared_list_calls", total);
        out.nontrivial = total > 0;
        out
    }
}


// ---------------------------------------------------------------------------
// shared runtime: threads compile against one `Runtime` and drop what they compiled,
// all at the same time; the registered closures' captured state is the observer
// ---------------------------------------------------------------------------

const SR_TAG: i64 = 40_000;

/// Every closure this returns has the same Rust type; they differ in the tracked value
/// they capture.
fn sr_closure(i: usize, cap: Arc<Trk>) -> roto::Function {
    roto::Function::new(
        format!("c{i}"),
        "a registered closure that captures a tracked value",
        vec!["x"],
        move |x: i64| -> i64 {
            cap.check("shared-runtime closure called");
            x.wrapping_mul(3).wrapping_add(cap.tag)
        },
        roto::location!(),
    )
    .expect("closure item")
}

/// what `c{i}(x)` returns
fn sr_model(i: usize, x: i64) -> i64 {
    x.wrapping_mul(3).wrapping_add(SR_TAG + i as i64)
}

/// Wait (bounded, spinning first) until `target` arrivals have been counted.
fn rendezvous(arrived: &AtomicU64, target: u64) {
    arrived.fetch_add(1, Ordering::SeqCst);
    let mut spins = 0u64;
    while arrived.load(Ordering::SeqCst) < target && spins < 3_000_000 {
        if spins < 30_000 {
            std::hint::spin_loop();
        } else {
            std::thread::yield_now();
        }
        spins += 1;
    }
}

type SrFn = roto::TypedFunc<NoCtx, fn(i64) -> i64>;

/// Something a thread of the scenario owns that refers to the registered closures.
enum SrObj {
    Pkg(roto::Package<NoCtx>),
    Handle(SrFn),
    RtClone(Runtime<NoCtx>),
}

#[derive(Default)]
struct SrStats {
    compiles: AtomicU64,
    calls: AtomicU64,
    packages_dropped: AtomicU64,
    handles_dropped: AtomicU64,
    closures_dropped: AtomicU64,
    runtime_clones: AtomicU64,
    handed_over: AtomicU64,
}

impl Concurrent {
    fn shared_runtime(&mut self, rng: &mut Rng, args: &Args) -> CaseOut {
        let mut out = CaseOut::default();
        out.tags.push("profile:shared-runtime".into());
        let n_closures = *rng.pick(&[3usize, 12, 48, 48]);
        let n_threads = *rng.pick(&[2usize, 4, 8, 8, 16]);
        // about the same number of compilations whatever the number of threads
        let rounds: usize = (if cfg!(debug_assertions) { 40 } else if args.thorough() { 250 } else { 120 }) * (8 / n_threads).max(1);
        // how the threads line up: before every compile and drop phase, or only now and then
        let lockstep = rng.chance(2, 3);
        let case_seed = rng.next();
        out.hash = hash_str("shared-runtime") ^ case_seed;
        out.tags.push(format!("threads:{n_threads}"));
        out.tags.push(format!("shared-runtime:closures:{n_closures}"));
        out.tags.push(format!("shared-runtime:lockstep:{lockstep}"));
        out.sample = Some(
            J::obj()
                .set("profile", "shared-runtime")
                .set("threads", n_threads as u64)
                .set("closures", n_closures as u64)
                .set("rounds", rounds as u64)
                .set("source", "fn main(x: i64) -> i64 { c<i>(c<j>(... x ...)) } for a random selection of the closures c0..c<n>, per thread and round"),
        );
        host::ledger_reset();
        let mut rt = Runtime::new();
        for i in 0..n_closures {
            rt.add(sr_closure(i, Arc::new(Trk::new(SR_TAG + i as i64)))).expect("closure registers");
        }
        let stats = SrStats::default();
        let mism: std::sync::Mutex<Vec<(String, String)>> = std::sync::Mutex::new(Vec::new());
        let arrived_compile = AtomicU64::new(0);
        let arrived_drop = AtomicU64::new(0);
        let inbox: Vec<std::sync::Mutex<Vec<SrObj>>> = (0..n_threads).map(|_| std::sync::Mutex::new(Vec::new())).collect();
        let start = std::sync::Barrier::new(n_threads);
        let scope_result = catch(|| {
            std::thread::scope(|s| {
                for t in 0..n_threads {
                    let (rt, stats, mism, arrived_compile, arrived_drop, inbox, start) = (&rt, &stats, &mism, &arrived_compile, &arrived_drop, &inbox, &start);
                    let seed = case_seed ^ (t as u64).wrapping_mul(0x9E37_79B9_7F4A_7C15);
                    s.spawn(move || {
                        let mut r = Rng::new(seed);
                        let report = |sig: &str, msg: String| mism.lock().unwrap_or_else(|e| e.into_inner()).push((sig.to_string(), msg));
                        start.wait();
                        // meeting points passed so far (the same on every thread)
                        let mut meetings = 0u64;
                        for round in 0..rounds {
                            let sync = lockstep || round % 4 == 0;
                            meetings += sync as u64;
                            // a selection of the closures, in some order
                            let mut sel: Vec<usize> = (0..n_closures).collect();
                            r.shuffle(&mut sel);
                            let n_sel = match r.below(4) {
                                0 => 1,
                                1 => 1 + r.usize(n_closures.min(4)),
                                _ => n_closures,
                            };
                            sel.truncate(n_sel);
                            let mut body = "x".to_string();
                            let x = r.range(-1000, 1000);
                            let mut expected = x;
                            for i in sel.iter().rev() {
                                body = format!("c{i}({body})");
                            }
                            // innermost call first
                            for i in sel.iter().rev() {
                                expected = sr_model(*i, expected);
                            }
                            let src = format!("fn main(x: i64) -> i64 {{\n    {body}\n}}\n");
                            let mut mine: Vec<SrObj> = Vec::new();
                            // now and then the thread works on its own clone of the runtime
                            let own_rt = r.chance(1, 5).then(|| rt.clone());
                            if own_rt.is_some() {
                                stats.runtime_clones.fetch_add(1, Ordering::Relaxed);
                            }
                            if sync {
                                rendezvous(arrived_compile, meetings * n_threads as u64);
                            }
                            let compiled = catch(|| exec::compile(&src, own_rt.as_ref().unwrap_or(rt)));
                            if let Some(c) = own_rt {
                                mine.push(SrObj::RtClone(c));
                            }
                            let mut pkg = match compiled {
                                Ok(Ok(p)) => p,
                                Ok(Err(e)) => {
                                    report("concurrent:shared-runtime:script-rejected", format!("thread {t} round {round}: {}", e.lines().next().unwrap_or("")));
                                    if sync {
                                        // keep the count of the meeting point this round skips
                                        arrived_drop.fetch_add(1, Ordering::SeqCst);
                                    }
                                    continue;
                                }
                                Err(p) => {
                                    report(&format!("concurrent:shared-runtime:compile-{}", panic_sig(&p)), format!("thread {t} round {round}: {p}"));
                                    if sync {
                                        // keep the count of the meeting point this round skips
                                        arrived_drop.fetch_add(1, Ordering::SeqCst);
                                    }
                                    continue;
                                }
                            };
                            stats.compiles.fetch_add(1, Ordering::Relaxed);
                            let h = match pkg.get_function::<fn(i64) -> i64>("main") {
                                Ok(h) => h,
                                Err(e) => {
                                    report("concurrent:shared-runtime:no-function", format!("thread {t} round {round}: {e}"));
                                    if sync {
                                        // keep the count of the meeting point this round skips
                                        arrived_drop.fetch_add(1, Ordering::SeqCst);
                                    }
                                    continue;
                                }
                            };
                            let mut closure: Option<Box<dyn Fn(i64) -> i64>> = None;
                            let check = |what: &str, got: i64| {
                                stats.calls.fetch_add(1, Ordering::Relaxed);
                                if got != expected {
                                    report(
                                        "concurrent:shared-runtime:result-differs",
                                        format!("thread {t} round {round}: {what} of `{body}` with x = {x} returned {got}, single-threaded {expected}"),
                                    );
                                }
                            };
                            check("handle", h.call(x));
                            match r.below(4) {
                                0 => {}
                                1 => {
                                    let c = h.clone();
                                    check("clone", c.call(x));
                                    mine.push(SrObj::Handle(c));
                                }
                                2 => {
                                    let c = h.clone().into_func();
                                    check("into_func closure", c(x));
                                    closure = Some(Box::new(c));
                                }
                                _ => {
                                    let c = h.clone();
                                    let c2 = c.clone().into_func();
                                    check("into_func closure", c2(x));
                                    closure = Some(Box::new(c2));
                                    mine.push(SrObj::Handle(c));
                                }
                            }
                            mine.push(SrObj::Handle(h));
                            mine.push(SrObj::Pkg(pkg));
                            r.shuffle(&mut mine);
                            if sync {
                                rendezvous(arrived_drop, meetings * n_threads as u64);
                            }
                            // what other threads handed over in earlier rounds goes now, too
                            let mut theirs = std::mem::take(&mut *inbox[t].lock().unwrap_or_else(|e| e.into_inner()));
                            mine.append(&mut theirs);
                            let hand_over = r.chance(1, 4);
                            let mut keep: Vec<SrObj> = Vec::new();
                            for o in mine {
                                match r.below(8) {
                                    0 => std::thread::yield_now(),
                                    1 => {
                                        for _ in 0..r.below(100) {
                                            std::hint::spin_loop();
                                        }
                                    }
                                    _ => {}
                                }
                                if hand_over && r.bool() {
                                    keep.push(o);
                                    continue;
                                }
                                match &o {
                                    SrObj::Pkg(_) => stats.packages_dropped.fetch_add(1, Ordering::Relaxed),
                                    SrObj::Handle(_) => stats.handles_dropped.fetch_add(1, Ordering::Relaxed),
                                    SrObj::RtClone(_) => 0,
                                };
                                drop(o);
                            }
                            if let Some(c) = closure {
                                // the closure may be the last owner of the round's module
                                if r.bool() {
                                    check("into_func closure (after the package was dropped)", c(x));
                                }
                                stats.closures_dropped.fetch_add(1, Ordering::Relaxed);
                                drop(c);
                            }
                            if !keep.is_empty() {
                                stats.handed_over.fetch_add(keep.len() as u64, Ordering::Relaxed);
                                inbox[(t + 1) % n_threads].lock().unwrap_or_else(|e| e.into_inner()).append(&mut keep);
                            }
                        }
                    });
                }
            })
        });
        if let Err(p) = scope_result {
            out.viol("concurrent:thread-panicked", format!("a thread of the shared-runtime scenario panicked: {p}"), J::Null);
        }
        // leftovers that were handed over in the last rounds
        for b in &inbox {
            b.lock().unwrap_or_else(|e| e.into_inner()).clear();
        }
        drop(inbox);
        let load = |a: &AtomicU64| a.load(Ordering::Relaxed);
        out.evals = load(&stats.calls);
        out.events = load(&stats.compiles) + load(&stats.packages_dropped) + load(&stats.handles_dropped) + load(&stats.closures_dropped);
        out.nontrivial = load(&stats.compiles) > 0;
        out.count("concurrent_calls", load(&stats.calls));
        out.count("shared_runtime_compiles", load(&stats.compiles));
        out.count("shared_runtime_packages_dropped_concurrently", load(&stats.packages_dropped));
        out.count("shared_runtime_handles_dropped_concurrently", load(&stats.handles_dropped));
        out.count("shared_runtime_into_func_closures_dropped", load(&stats.closures_dropped));
        out.count("shared_runtime_runtime_clones", load(&stats.runtime_clones));
        out.count("shared_runtime_objects_dropped_on_another_thread", load(&stats.handed_over));
        if load(&stats.handed_over) > 0 {
            out.tags.push("shared-runtime:dropped-on-another-thread".into());
        }
        if load(&stats.runtime_clones) > 0 {
            out.tags.push("shared-runtime:runtime-cloned-concurrently".into());
        }
        if load(&stats.closures_dropped) > 0 {
            out.tags.push("shared-runtime:into_func-closures".into());
        }
        let ms = std::mem::take(&mut *mism.lock().unwrap_or_else(|e| e.into_inner()));
        if let Some((sig, msg)) = ms.first() {
            out.viol(sig.clone(), msg.clone(), J::obj().set("threads", n_threads as u64).set("closures", n_closures as u64).set("count", ms.len() as u64));
        }
        // Everything compiled is gone, the runtime is alive: it owns every closure, each
        // captured value is live and none was touched after its release.
        let detail = |rep: &host::LedgerReport| {
            J::obj()
                .set("threads", n_threads as u64)
                .set("closures", n_closures as u64)
                .set("compiles", load(&stats.compiles))
                .set("created", rep.created)
                .set("drops", rep.drops)
                .set("live", rep.live.len() as u64)
        };
        let rep = host::ledger_report();
        let mut expected_live: Vec<i64> = (0..n_closures).map(|i| SR_TAG + i as i64).collect();
        let mut live: Vec<i64> = rep.live.iter().map(|x| x.1).collect();
        live.sort();
        expected_live.sort();
        if let Some(a) = rep.alarms.first() {
            out.viol(
                format!("concurrent:shared-runtime:ledger-{}", a.kind),
                format!("{} {} ({} alarms) while {n_threads} threads compiled against and dropped packages of one runtime", a.kind, a.info, rep.alarms.len()),
                detail(&rep),
            );
            // the runtime may refer to released state: it is not torn down
            std::mem::forget(rt);
            return out;
        }
        if live != expected_live {
            out.viol(
                "concurrent:shared-runtime:closure-state-released-early",
                format!(
                    "{} of {n_closures} values captured by the runtime's closures were released while the runtime is alive ({} compiles on {n_threads} threads)",
                    n_closures - live.len().min(n_closures),
                    load(&stats.compiles)
                ),
                detail(&rep),
            );
            std::mem::forget(rt);
            return out;
        }
        let r = catch(move || drop(rt));
        if let Err(p) = r {
            out.viol(format!("concurrent:shared-runtime:drop-runtime-{}", panic_sig(&p)), p, J::Null);
            return out;
        }
        let rep = host::ledger_report();
        if let Some(a) = rep.alarms.first() {
            out.viol(format!("concurrent:shared-runtime:ledger-{}", a.kind), format!("{} {} when the runtime was dropped", a.kind, a.info), detail(&rep));
        } else if !rep.live.is_empty() || rep.drops != n_closures as u64 {
            out.viol(
                "concurrent:shared-runtime:closure-state-leaked",
                format!(
                    "after the runtime and everything compiled from it ({} packages on {n_threads} threads) was dropped, {} of {n_closures} values captured by its closures are still live ({} drops)",
                    load(&stats.compiles),
                    rep.live.len(),
                    rep.drops
                ),
                detail(&rep),
            );
        }
        out
    }
}

impl Family for Concurrent {
    fn n_cases(&self, args: &Args) -> u64 {
        if args.thorough() { 6_000 } else { 400 }
    }

    fn describe(&mut self, k: u64, rng: &mut Rng, _args: &Args) -> Option<J> {
        if k % 16 == 13 {
            return Some(J::obj().set("profile", "shared-lists-mutating").set("source", SHARED_MUT_SRC).set("sig_hint", "concurrent:shared-lists-mutating"));
        }
        if k % 16 == 5 {
            return Some(J::obj().set("profile", "shared-stringbufs").set("source", shared_sb_src(5, true)).set("sig_hint", "concurrent:shared-stringbufs"));
        }
        if k % 8 == 7 {
            return Some(J::obj().set("profile", "shared-lists").set("source", SHARED_SRC));
        }
        if k % 8 == 6 {
            return Some(J::obj().set("profile", "shared-runtime").set("sig_hint", "concurrent:shared-runtime"));
        }
        let (_, _, src, name) = gen_program(rng);
        Some(J::obj().set("profile", name).set("source", src))
    }

    fn run(&mut self, k: u64, rng: &mut Rng, args: &Args) -> CaseOut {
        if k % 16 == 13 {
            return self.shared_lists_mutating(rng, args);
        }
        if k % 16 == 5 {
            return self.shared_stringbufs(rng, args);
        }
        if k % 8 == 7 {
            return self.shared_lists(rng, args);
        }
        if k % 8 == 6 {
            return self.shared_runtime(rng, args);
        }
        let mut out = CaseOut::default();
        let (prog, tags, src, profile) = gen_program(rng);
        out.hash = hash_str(&src);
        out.tags = tags;
        out.tags.push(format!("profile:{profile}"));
        out.sample = Some(J::obj().set("profile", profile).set("source", src.as_str()));
        // constants must not trap at compile time
        {
            let order: Vec<usize> = (0..prog.consts.len()).collect();
            let mut it = crate::rg::interp::Interp::new(&prog, &[], 100_000);
            if it.eval_consts(&order).is_err() {
                out.skipped = Some("const-stop".into());
                return out;
            }
        }
        let rt = &self.rt;
        let mut pkg = match catch(|| exec::compile(&src, rt)) {
            Ok(Ok(p)) => p,
            Ok(Err(e)) => {
                out.skipped = Some(format!("rejected:{}", e.lines().next().unwrap_or("")));
                return out;
            }
            Err(p) => {
                out.skipped = Some(format!("compile-panicked:{}", panic_sig(&p)));
                return out;
            }
        };
        let main_idx = prog.fns.len() - 1;
        let ret = prog.fns[main_idx].ret.clone();
        let f = match exec::get_main(&mut pkg, "main", &ret) {
            Ok(f) => Arc::new(f),
            Err(e) => {
                out.skipped = Some(format!("no-main:{e}"));
                return out;
            }
        };
        // inputs on which the program runs to completion (interpreter decides: no traps)
        let order: Vec<usize> = (0..prog.consts.len()).collect();
        let mut inputs = Vec::new();
        for _ in 0..12 {
            let iv = conv::input_vector(rng, 24, 50);
            let r = crate::rg::interp::run(&prog, main_idx, vec![], &iv, 200_000, &order);
            if r.result.is_ok() {
                inputs.push(iv);
            }
            if inputs.len() == 4 {
                break;
            }
        }
        if inputs.is_empty() {
            out.skipped = Some("all-inputs-trap-or-fuel".into());
            return out;
        }
        // single-threaded reference
        host::ledger_reset();
        let reference: Vec<(String, Vec<String>)> = inputs.iter().map(|i| run_once(&|| f.call(), i)).collect();
        let rep = host::ledger_report();
        if !rep.alarms.is_empty() || !rep.live.is_empty() {
            // ownership problems of the program itself are C03's business
            out.skipped = Some("single-threaded-ledger-not-clean".into());
            return out;
        }
        let reference = Arc::new(reference);
        let inputs = Arc::new(inputs);

        let n_threads = *rng.pick(&[2usize, 4, 4, 8, 16]);
        let calls = if args.thorough() { 400 } else { 150 };
        let with_compilers = rng.chance(1, 2);
        out.tags.push(format!("threads:{n_threads}"));
        out.tags.push(format!("background-compile:{with_compilers}"));
        let via = match rng.below(4) {
            0 => Via::SharedHandle,
            1 => Via::OwnClone,
            _ => Via::IntoFunc,
        };
        // threads that own what they call do not need the package or the original handle:
        // the main thread drops both while the calls are running
        let drop_owners = via != Via::SharedHandle;
        let drop_package = drop_owners || rng.bool();
        out.tags.push(format!("call-via:{via:?}"));
        out.tags.push(format!("package-dropped-during-calls:{drop_package}"));
        out.tags.push(format!("original-handle-dropped-during-calls:{drop_owners}"));

        host::ledger_reset();
        let stop = Arc::new(AtomicBool::new(false));
        let mismatches: Arc<std::sync::Mutex<Vec<String>>> = Arc::new(std::sync::Mutex::new(Vec::new()));
        let total_calls = Arc::new(AtomicU64::new(0));
        let total_events = Arc::new(AtomicU64::new(0));

        // background: two compiler threads and one dropper
        let mut bg = Vec::new();
        let compiled = Arc::new(AtomicU64::new(0));
        if with_compilers {
            let (tx, rx) = mpsc::channel::<(roto::Package<NoCtx>, crate::rg::ast::Ty, String)>();
            for t in 0..2u64 {
                let tx = tx.clone();
                let stop = stop.clone();
                let seed = rng.next() ^ t;
                let mism = mismatches.clone();
                bg.push(std::thread::spawn(move || {
                    // registering the harness types from several threads at once
                    let rt = host::runtime();
                    let mut r = Rng::new(seed);
                    while !stop.load(Ordering::Relaxed) {
                        let mut cfg = Cfg::scalar();
                        cfg.raw_div = false;
                        cfg.consts = 0;
                        cfg.effects = 0;
                        cfg.max_stmts = 3;
                        cfg.fns = (1, 2);
                        let g = Gen::new(Rng::new(r.next()), cfg);
                        let (p, _) = g.program();
                        let s = print::print_program(&p, None);
                        let mi = p.fns.len() - 1;
                        // without host inputs the program is a constant function
                        let exp = crate::rg::interp::run(&p, mi, vec![], &[], 100_000, &[]);
                        let Ok(expv) = exp.result else { continue };
                        match catch(|| exec::compile(&s, &rt)) {
                            Ok(Ok(pkg)) => {
                                let _ = tx.send((pkg, p.fns[mi].ret.clone(), expv.show()));
                            }
                            Ok(Err(e)) => mism.lock().unwrap().push(format!("concurrent-compile:rejected|{}|{s}", e.lines().next().unwrap_or(""))),
                            Err(pn) => mism.lock().unwrap().push(format!("concurrent-compile:{}|{pn}|{s}", panic_sig(&pn))),
                        }
                    }
                }));
            }
            drop(tx);
            let mism = mismatches.clone();
            let compiled2 = compiled.clone();
            bg.push(std::thread::spawn(move || {
                for (mut pkg, ret, expv) in rx {
                    compiled2.fetch_add(1, Ordering::Relaxed);
                    if let Ok(f) = exec::get_main(&mut pkg, "main", &ret) {
                        host::set_input(&[]);
                        let got = f.call().show();
                        if got != expv {
                            mism.lock().unwrap().push(format!(
                                "concurrent-compile:wrong-result|package compiled concurrently returned {got} expected {expv}|"
                            ));
                        }
                        // drop the last handle before / after the package at random
                        drop(f);
                    }
                    drop(pkg);
                }
            }));
        }

        let mut ths = Vec::new();
        let ready = Arc::new(std::sync::Barrier::new(n_threads + 1));
        for t in 0..n_threads {
            let shared = (via == Via::SharedHandle).then(|| f.clone());
            let own = (via != Via::SharedHandle).then(|| clone_main(&f));
            let ready = ready.clone();
            let inputs = inputs.clone();
            let reference = reference.clone();
            let mism = mismatches.clone();
            let total_calls = total_calls.clone();
            let total_events = total_events.clone();
            let seed = rng.next();
            let compiled3 = compiled.clone();
            let want_compiled: u64 = if with_compilers { 8 } else { 0 };
            ths.push(std::thread::spawn(move || {
                let mut r = Rng::new(seed);
                let f: Box<dyn Fn() -> V> = match (shared, own) {
                    (Some(f), _) => Box::new(move || f.call()),
                    (None, Some(own)) if via == Via::OwnClone => Box::new(move || own.call()),
                    (None, Some(own)) => into_caller(own),
                    (None, None) => unreachable!(),
                };
                ready.wait();
                let mut c = 0usize;
                // keep calling until the background threads have compiled (and the
                // dropper has called and dropped) a few packages
                while c < calls || (want_compiled > 0 && compiled3.load(Ordering::Relaxed) < want_compiled && c < calls * 200) {
                    c += 1;
                    let i = r.usize(inputs.len());
                    let (v, log) = run_once(&*f, &inputs[i]);
                    total_calls.fetch_add(1, Ordering::Relaxed);
                    total_events.fetch_add(log.len() as u64, Ordering::Relaxed);
                    let (ev, elog) = &reference[i];
                    if v != *ev {
                        mism.lock().unwrap().push(format!(
                            "concurrent:result-differs|thread {t} call {c} input {i}: got {v} single-threaded {ev}|"
                        ));
                        return;
                    }
                    if log != *elog {
                        let at = log.iter().zip(elog.iter()).position(|(a, b)| a != b).unwrap_or(log.len().min(elog.len()));
                        mism.lock().unwrap().push(format!(
                            "concurrent:host-calls-differ|thread {t} call {c} input {i}: event {at}: got {:?} single-threaded {:?}|",
                            log.get(at),
                            elog.get(at)
                        ));
                        return;
                    }
                    match r.below(6) {
                        0 => std::thread::yield_now(),
                        1 => {
                            for _ in 0..r.below(200) {
                                std::hint::spin_loop();
                            }
                        }
                        _ => {}
                    }
                }
            }));
        }
        // every thread has what it calls through; the calls start now
        ready.wait();
        if drop_package {
            for _ in 0..rng.below(3) {
                std::thread::yield_now();
            }
            drop(pkg);
        }
        if drop_owners {
            // the worker threads' clones / closures are the only owners from here on
            drop(f);
        }
        let mut panicked = false;
        for t in ths {
            panicked |= t.join().is_err();
        }
        stop.store(true, Ordering::Relaxed);
        for t in bg {
            panicked |= t.join().is_err();
        }
        out.evals = total_calls.load(Ordering::Relaxed);
        out.events = total_events.load(Ordering::Relaxed);
        out.count("concurrent_calls", out.evals);
        out.count("packages_compiled_concurrently", compiled.load(Ordering::Relaxed));
        out.nontrivial = out.evals > 0;
        if panicked {
            out.viol("concurrent:thread-panicked", "a worker thread panicked", J::Null);
        }
        let ms = mismatches.lock().unwrap().clone();
        if let Some(m) = ms.first() {
            let mut parts = m.splitn(3, '|');
            let sig = parts.next().unwrap_or("concurrent:mismatch").to_string();
            let msg = parts.next().unwrap_or("").to_string();
            let extra = parts.next().unwrap_or("").to_string();
            out.viol(sig, msg, J::obj().set("threads", n_threads as u64).set("other", extra).set("count", ms.len() as u64));
        }
        // all threads joined: the accounting of C03 must balance globally
        let rep = host::ledger_report();
        if let Some(a) = rep.alarms.first() {
            out.viol(format!("concurrent:ledger-{}", a.kind), format!("{} {} ({} alarms)", a.kind, a.info, rep.alarms.len()), J::Null);
        } else if !rep.live.is_empty() {
            out.viol(
                "concurrent:ledger-leak",
                format!("{} tracked instance(s) live after all threads joined", rep.live.len()),
                J::Null,
            );
        }
        out
    }
}
