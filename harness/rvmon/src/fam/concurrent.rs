//! C12: compiled functions are safe and deterministic under concurrent use.
//!
//! One handle is cloned into N threads that call it M times each on a set of input
//! vectors, while (optionally) two other threads compile fresh scripts and a third
//! calls and drops the resulting packages. Every concurrent result and host-call
//! log must equal the single-threaded one; afterwards the drop ledger must be
//! balanced and alarm-free. The TSan flavour of the same workload reports data
//! races in the (instrumented) host side.

use std::sync::Arc;
use std::sync::atomic::{AtomicBool, AtomicU64, Ordering};
use std::sync::mpsc;

use roto::{NoCtx, Runtime};

use crate::jsonw::J;
use crate::rg::ast::Program;
use crate::rg::generate::{Cfg, Gen};
use crate::rg::print;
use crate::rng::Rng;
use crate::work::{Args, CaseOut, Family, catch, hash_str, panic_sig};
use crate::{conv, exec, host};

pub struct Concurrent {
    rt: Runtime<NoCtx>,
}

impl Concurrent {
    pub fn new(_args: &Args) -> Concurrent {
        Concurrent { rt: host::runtime() }
    }
}

fn gen_program(rng: &mut Rng) -> (Program, Vec<String>, String, &'static str) {
    let (mut cfg, name) = match rng.below(4) {
        0 => (Cfg::scalar(), "scalar"),
        1 => (Cfg::aggregate(), "aggregate"),
        2 => (Cfg::ownership(), "ownership"),
        _ => (Cfg::effects(), "effects"),
    };
    cfg.raw_div = false;
    cfg.trkz = false;
    cfg.avoid.diverge_in_partial = true;
    cfg.max_stmts = 5;
    let g = Gen::new(Rng::new(rng.next()), cfg);
    let (p, tags) = g.program();
    let src = print::print_program(&p, None);
    (p, tags.into_iter().collect(), src, name)
}

/// One execution, rendered as text (values may hold `Rc`s and cannot cross threads).
fn run_once(f: &exec::MainFn, input: &[u64]) -> (String, Vec<String>) {
    host::set_input(input);
    host::log_clear();
    let v = f.call();
    let log: Vec<String> = host::log_take().iter().map(|e| e.show()).collect();
    (v.show(), log)
}

// ---------------------------------------------------------------------------
// shared list arguments: the same handles called from several threads with the same
// two lists in both argument orders
// ---------------------------------------------------------------------------

const SHARED_SRC: &str = "fn cc(a: List[u64], b: List[u64]) -> u64 {\n    a.concat(b).len()\n}\n\nfn eq(a: List[u64], b: List[u64]) -> bool {\n    a == b\n}\n\nfn has(a: List[u64], b: List[u64]) -> bool {\n    match b.get(0) {\n        Some(x) => a.contains(x),\n        None => false,\n    }\n}\n\nfn plus(a: List[u64], b: List[u64]) -> u64 {\n    (a + b + a).len()\n}\n";

static DELAY_SEED: AtomicU64 = AtomicU64::new(1);

/// Delay injection at the lock-acquisition hook of the list code: now and then a thread
/// that is about to take a list lock yields or sleeps for a moment.
fn delay_hook(ev: &roto::verif::ListEvent<'_>) {
    if let roto::verif::ListEvent::BeforeLock { .. } = ev {
        let x = DELAY_SEED.fetch_add(0x9E37_79B9_7F4A_7C15, Ordering::Relaxed);
        let h = (x ^ (x >> 29)).wrapping_mul(0xBF58_476D_1CE4_E5B9) >> 58;
        match h {
            0..=5 => std::thread::yield_now(),
            6 => std::thread::sleep(std::time::Duration::from_micros(50)),
            _ => {}
        }
    }
}

type F2u = roto::TypedFunc<NoCtx, fn(roto::List<u64>, roto::List<u64>) -> u64>;
type F2b = roto::TypedFunc<NoCtx, fn(roto::List<u64>, roto::List<u64>) -> bool>;

impl Concurrent {
    fn shared_lists(&mut self, rng: &mut Rng, args: &Args) -> CaseOut {
        let mut out = CaseOut::default();
        out.hash = hash_str(SHARED_SRC) ^ rng.next();
        out.sample = Some(J::obj().set("profile", "shared-lists").set("source", SHARED_SRC));
        out.tags.push("profile:shared-lists".into());
        let mut pkg = match catch(|| exec::compile(SHARED_SRC, &self.rt)) {
            Ok(Ok(p)) => p,
            Ok(Err(e)) => {
                out.viol("concurrent:shared-lists-script-rejected", e.lines().next().unwrap_or("").to_string(), J::Null);
                return out;
            }
            Err(p) => {
                out.viol(format!("concurrent:compile-{}", panic_sig(&p)), p, J::Null);
                return out;
            }
        };
        let get_u = |pkg: &mut roto::Package<NoCtx>, n: &str| -> Option<F2u> { pkg.get_function::<fn(roto::List<u64>, roto::List<u64>) -> u64>(n).ok() };
        let (Some(cc), Some(plus)) = (get_u(&mut pkg, "cc"), get_u(&mut pkg, "plus")) else {
            out.skipped = Some("shared-lists:no-function".into());
            return out;
        };
        let get_b = |pkg: &mut roto::Package<NoCtx>, n: &str| -> Option<F2b> { pkg.get_function::<fn(roto::List<u64>, roto::List<u64>) -> bool>(n).ok() };
        let (Some(eq), Some(has)) = (get_b(&mut pkg, "eq"), get_b(&mut pkg, "has")) else {
            out.skipped = Some("shared-lists:no-function".into());
            return out;
        };
        // long lists keep a thread inside a critical section for a while; short ones make
        // the acquisitions frequent
        let n = *rng.pick(&[0usize, 3, 64, 20_000, 200_000]);
        let x: roto::List<u64> = (0..n as u64).collect();
        let y: roto::List<u64> = (0..n as u64 + 1).collect();
        out.tags.push(format!("shared-lists:len:{n}"));
        let with_delays = rng.bool();
        out.tags.push(format!("shared-lists:injected-delays:{with_delays}"));
        let n_threads = *rng.pick(&[2usize, 2, 3, 4, 8]);
        out.tags.push(format!("threads:{n_threads}"));
        let rounds: usize = if n >= 20_000 { 40 } else if args.thorough() { 3000 } else { 800 };
        // single-threaded reference: (op, swapped) -> result
        let call = |op: usize, sw: bool, x: &roto::List<u64>, y: &roto::List<u64>| -> u64 {
            let (a, b) = if sw { (y.clone(), x.clone()) } else { (x.clone(), y.clone()) };
            match op {
                0 => cc.call(a, b),
                1 => eq.call(a, b) as u64,
                2 => has.call(a, b) as u64,
                3 => plus.call(a, b),
                _ => eq.call(a.clone(), a) as u64 + 10,
            }
        };
        let mut reference = [[0u64; 2]; 5];
        for (op, r) in reference.iter_mut().enumerate() {
            for sw in [false, true] {
                r[sw as usize] = call(op, sw, &x, &y);
            }
        }
        if with_delays {
            roto::verif::set_list_hook(Some(delay_hook));
        }
        let (tx, rx) = mpsc::channel::<Result<u64, String>>();
        let start = Arc::new(std::sync::Barrier::new(n_threads));
        let progress = Arc::new(AtomicU64::new(0));
        for t in 0..n_threads {
            let progress = progress.clone();
            let (cc, eq, has, plus) = (cc.clone(), eq.clone(), has.clone(), plus.clone());
            let (x, y) = (x.clone(), y.clone());
            let tx = tx.clone();
            let start = start.clone();
            let seed = rng.next();
            std::thread::spawn(move || {
                let mut r = Rng::new(seed);
                start.wait();
                let mut calls = 0u64;
                for round in 0..rounds {
                    let op = r.usize(5);
                    // neighbouring threads prefer opposite argument orders
                    let sw = if r.chance(3, 4) { t % 2 == 1 } else { r.bool() };
                    let (a, b) = if sw { (y.clone(), x.clone()) } else { (x.clone(), y.clone()) };
                    let got = match op {
                        0 => cc.call(a, b),
                        1 => eq.call(a, b) as u64,
                        2 => has.call(a, b) as u64,
                        3 => plus.call(a, b),
                        _ => eq.call(a.clone(), a) as u64 + 10,
                    };
                    calls += 1;
                    progress.fetch_add(1, Ordering::Relaxed);
                    if got != reference[op][sw as usize] {
                        let _ = tx.send(Err(format!(
                            "thread {t} round {round} op {op} swapped {sw}: got {got} single-threaded {}",
                            reference[op][sw as usize]
                        )));
                        return;
                    }
                }
                let _ = tx.send(Ok(calls));
            });
        }
        drop(tx);
        // The threads are not joined: if they wait for each other forever that is the finding.
        // "Forever" is decided on progress, not on a deadline: no call completes on any thread
        // for 15 s while threads are unfinished (one call takes far below a millisecond per
        // 10^4 elements). A run that is merely slow keeps making progress; it is given up
        // as inconclusive after 180 s.
        let t0 = std::time::Instant::now();
        let mut last_progress = (progress.load(Ordering::Relaxed), std::time::Instant::now());
        let mut done = 0;
        let mut total = 0u64;
        while done < n_threads {
            match rx.recv_timeout(std::time::Duration::from_millis(500)) {
                Ok(Ok(c)) => {
                    done += 1;
                    total += c;
                }
                Ok(Err(m)) => {
                    done += 1;
                    out.viol("concurrent:shared-lists-result-differs", m, J::obj().set("threads", n_threads as u64).set("len", n as u64));
                }
                Err(mpsc::RecvTimeoutError::Timeout) => {
                    let p = progress.load(Ordering::Relaxed);
                    if p != last_progress.0 {
                        last_progress = (p, std::time::Instant::now());
                    } else if last_progress.1.elapsed().as_secs() >= 15 {
                        out.viol(
                            "concurrent:shared-lists-calls-never-return",
                            format!(
                                "{} of {n_threads} threads calling cc/eq/has/plus on two shared lists (len {n}) in both argument orders are stuck: no call returned on any thread for 15 s after {p} completed calls: the calls wait for each other",
                                n_threads - done
                            ),
                            J::obj().set("threads", n_threads as u64).set("len", n as u64).set("injected_delays", with_delays).set("calls_completed", p),
                        );
                        break;
                    }
                    if t0.elapsed().as_secs() >= 180 {
                        out.skipped = Some("shared-lists:slow".into());
                        break;
                    }
                }
                Err(mpsc::RecvTimeoutError::Disconnected) => {
                    out.viol("concurrent:thread-panicked", "a worker thread of the shared-lists scenario ended without a result", J::Null);
                    break;
                }
            }
        }
        roto::verif::set_list_hook(None);
        out.evals = total;
        out.events = total;
        out.count("concurrent_calls", total);
        out.count("shared_list_calls", total);
        out.nontrivial = total > 0;
        out
    }
}

impl Family for Concurrent {
    fn n_cases(&self, args: &Args) -> u64 {
        if args.thorough() { 6_000 } else { 400 }
    }

    fn describe(&mut self, k: u64, rng: &mut Rng, _args: &Args) -> Option<J> {
        if k % 8 == 7 {
            return Some(J::obj().set("profile", "shared-lists").set("source", SHARED_SRC));
        }
        let (_, _, src, name) = gen_program(rng);
        Some(J::obj().set("profile", name).set("source", src))
    }

    fn run(&mut self, k: u64, rng: &mut Rng, args: &Args) -> CaseOut {
        if k % 8 == 7 {
            return self.shared_lists(rng, args);
        }
        let mut out = CaseOut::default();
        let (prog, tags, src, profile) = gen_program(rng);
        out.hash = hash_str(&src);
        out.tags = tags;
        out.tags.push(format!("profile:{profile}"));
        out.sample = Some(J::obj().set("profile", profile).set("source", src.as_str()));
        // constants must not trap at compile time
        {
            let order: Vec<usize> = (0..prog.consts.len()).collect();
            let mut it = crate::rg::interp::Interp::new(&prog, &[], 100_000);
            if it.eval_consts(&order).is_err() {
                out.skipped = Some("const-stop".into());
                return out;
            }
        }
        let rt = &self.rt;
        let mut pkg = match catch(|| exec::compile(&src, rt)) {
            Ok(Ok(p)) => p,
            Ok(Err(e)) => {
                out.skipped = Some(format!("rejected:{}", e.lines().next().unwrap_or("")));
                return out;
            }
            Err(p) => {
                out.skipped = Some(format!("compile-panicked:{}", panic_sig(&p)));
                return out;
            }
        };
        let main_idx = prog.fns.len() - 1;
        let ret = prog.fns[main_idx].ret.clone();
        let f = match exec::get_main(&mut pkg, "main", &ret) {
            Ok(f) => Arc::new(f),
            Err(e) => {
                out.skipped = Some(format!("no-main:{e}"));
                return out;
            }
        };
        // inputs on which the program runs to completion (interpreter decides: no traps)
        let order: Vec<usize> = (0..prog.consts.len()).collect();
        let mut inputs = Vec::new();
        for _ in 0..12 {
            let iv = conv::input_vector(rng, 24, 50);
            let r = crate::rg::interp::run(&prog, main_idx, vec![], &iv, 200_000, &order);
            if r.result.is_ok() {
                inputs.push(iv);
            }
            if inputs.len() == 4 {
                break;
            }
        }
        if inputs.is_empty() {
            out.skipped = Some("all-inputs-trap-or-fuel".into());
            return out;
        }
        // single-threaded reference
        host::ledger_reset();
        let reference: Vec<(String, Vec<String>)> = inputs.iter().map(|i| run_once(&f, i)).collect();
        let rep = host::ledger_report();
        if !rep.alarms.is_empty() || !rep.live.is_empty() {
            // ownership problems of the program itself are C03's business
            out.skipped = Some("single-threaded-ledger-not-clean".into());
            return out;
        }
        let reference = Arc::new(reference);
        let inputs = Arc::new(inputs);

        let n_threads = *rng.pick(&[2usize, 4, 4, 8, 16]);
        let calls = if args.thorough() { 400 } else { 150 };
        let with_compilers = rng.chance(1, 2);
        out.tags.push(format!("threads:{n_threads}"));
        out.tags.push(format!("background-compile:{with_compilers}"));

        host::ledger_reset();
        let stop = Arc::new(AtomicBool::new(false));
        let mismatches: Arc<std::sync::Mutex<Vec<String>>> = Arc::new(std::sync::Mutex::new(Vec::new()));
        let total_calls = Arc::new(AtomicU64::new(0));
        let total_events = Arc::new(AtomicU64::new(0));

        // background: two compiler threads and one dropper
        let mut bg = Vec::new();
        let compiled = Arc::new(AtomicU64::new(0));
        if with_compilers {
            let (tx, rx) = mpsc::channel::<(roto::Package<NoCtx>, crate::rg::ast::Ty, String)>();
            for t in 0..2u64 {
                let tx = tx.clone();
                let stop = stop.clone();
                let seed = rng.next() ^ t;
                let mism = mismatches.clone();
                bg.push(std::thread::spawn(move || {
                    // registering the harness types from several threads at once
                    let rt = host::runtime();
                    let mut r = Rng::new(seed);
                    while !stop.load(Ordering::Relaxed) {
                        let mut cfg = Cfg::scalar();
                        cfg.raw_div = false;
                        cfg.consts = 0;
                        cfg.effects = 0;
                        cfg.max_stmts = 3;
                        cfg.fns = (1, 2);
                        let g = Gen::new(Rng::new(r.next()), cfg);
                        let (p, _) = g.program();
                        let s = print::print_program(&p, None);
                        let mi = p.fns.len() - 1;
                        // without host inputs the program is a constant function
                        let exp = crate::rg::interp::run(&p, mi, vec![], &[], 100_000, &[]);
                        let Ok(expv) = exp.result else { continue };
                        match catch(|| exec::compile(&s, &rt)) {
                            Ok(Ok(pkg)) => {
                                let _ = tx.send((pkg, p.fns[mi].ret.clone(), expv.show()));
                            }
                            Ok(Err(e)) => mism.lock().unwrap().push(format!("concurrent-compile:rejected|{}|{s}", e.lines().next().unwrap_or(""))),
                            Err(pn) => mism.lock().unwrap().push(format!("concurrent-compile:{}|{pn}|{s}", panic_sig(&pn))),
                        }
                    }
                }));
            }
            drop(tx);
            let mism = mismatches.clone();
            let compiled2 = compiled.clone();
            bg.push(std::thread::spawn(move || {
                for (mut pkg, ret, expv) in rx {
                    compiled2.fetch_add(1, Ordering::Relaxed);
                    if let Ok(f) = exec::get_main(&mut pkg, "main", &ret) {
                        host::set_input(&[]);
                        let got = f.call().show();
                        if got != expv {
                            mism.lock().unwrap().push(format!(
                                "concurrent-compile:wrong-result|package compiled concurrently returned {got} expected {expv}|"
                            ));
                        }
                        // drop the last handle before / after the package at random
                        drop(f);
                    }
                    drop(pkg);
                }
            }));
        }

        let mut ths = Vec::new();
        for t in 0..n_threads {
            let f = f.clone();
            let inputs = inputs.clone();
            let reference = reference.clone();
            let mism = mismatches.clone();
            let total_calls = total_calls.clone();
            let total_events = total_events.clone();
            let seed = rng.next();
            let compiled3 = compiled.clone();
            let want_compiled: u64 = if with_compilers { 8 } else { 0 };
            ths.push(std::thread::spawn(move || {
                let mut r = Rng::new(seed);
                // every thread also works on its own clone of the handle half of the time
                let mut c = 0usize;
                // keep calling until the background threads have compiled (and the
                // dropper has called and dropped) a few packages
                while c < calls || (want_compiled > 0 && compiled3.load(Ordering::Relaxed) < want_compiled && c < calls * 200) {
                    c += 1;
                    let i = r.usize(inputs.len());
                    let (v, log) = run_once(&f, &inputs[i]);
                    total_calls.fetch_add(1, Ordering::Relaxed);
                    total_events.fetch_add(log.len() as u64, Ordering::Relaxed);
                    let (ev, elog) = &reference[i];
                    if v != *ev {
                        mism.lock().unwrap().push(format!(
                            "concurrent:result-differs|thread {t} call {c} input {i}: got {v} single-threaded {ev}|"
                        ));
                        return;
                    }
                    if log != *elog {
                        let at = log.iter().zip(elog.iter()).position(|(a, b)| a != b).unwrap_or(log.len().min(elog.len()));
                        mism.lock().unwrap().push(format!(
                            "concurrent:host-calls-differ|thread {t} call {c} input {i}: event {at}: got {:?} single-threaded {:?}|",
                            log.get(at),
                            elog.get(at)
                        ));
                        return;
                    }
                    match r.below(6) {
                        0 => std::thread::yield_now(),
                        1 => {
                            for _ in 0..r.below(200) {
                                std::hint::spin_loop();
                            }
                        }
                        _ => {}
                    }
                }
            }));
        }
        let mut panicked = false;
        for t in ths {
            panicked |= t.join().is_err();
        }
        stop.store(true, Ordering::Relaxed);
        for t in bg {
            panicked |= t.join().is_err();
        }
        out.evals = total_calls.load(Ordering::Relaxed);
        out.events = total_events.load(Ordering::Relaxed);
        out.count("concurrent_calls", out.evals);
        out.count("packages_compiled_concurrently", compiled.load(Ordering::Relaxed));
        out.nontrivial = out.evals > 0;
        if panicked {
            out.viol("concurrent:thread-panicked", "a worker thread panicked", J::Null);
        }
        let ms = mismatches.lock().unwrap().clone();
        if let Some(m) = ms.first() {
            let mut parts = m.splitn(3, '|');
            let sig = parts.next().unwrap_or("concurrent:mismatch").to_string();
            let msg = parts.next().unwrap_or("").to_string();
            let extra = parts.next().unwrap_or("").to_string();
            out.viol(sig, msg, J::obj().set("threads", n_threads as u64).set("other", extra).set("count", ms.len() as u64));
        }
        // all threads joined: the accounting of C03 must balance globally
        let rep = host::ledger_report();
        if let Some(a) = rep.alarms.first() {
            out.viol(format!("concurrent:ledger-{}", a.kind), format!("{} {} ({} alarms)", a.kind, a.info, rep.alarms.len()), J::Null);
        } else if !rep.live.is_empty() {
            out.viol(
                "concurrent:ledger-leak",
                format!("{} tracked instance(s) live after all threads joined", rep.live.len()),
                J::Null,
            );
        }
        out
    }
}
