//! C20: the IR evaluator agrees with the compiled code or stops loudly.
//! Both executions start from the same lowered IR (hook `roto::verif::lower`).

use roto::verif::EvalValue;
use roto::{FileTree, NoCtx, Runtime};

use crate::jsonw::J;
use crate::rg::ast::Ty;
use crate::rg::generate::{Cfg, Gen};
use crate::rg::print;
use crate::rng::Rng;
use crate::val::{self, IntTy, V};
use crate::work::{Args, CaseOut, Family, catch, hash_str, panic_sig};
use crate::{conv, exec, host};

pub struct EvalCmp {
    rt: Runtime<NoCtx>,
}

impl EvalCmp {
    pub fn new(_args: &Args) -> EvalCmp {
        EvalCmp { rt: host::runtime() }
    }
}

fn cfg(rng: &mut Rng) -> Cfg {
    let mut c = Cfg::scalar();
    c.name = "evaluator";
    c.recursion = false;
    c.consts = 0;
    c.raw_div = false;
    c.max_user_types = 3;
    c.anon_records = rng.bool();
    c.strings = rng.chance(1, 3);
    c.fstrings = false;
    c.lists = false;
    c.trk = false;
    c.trkz = false;
    c.fns = (1, 3);
    c.max_stmts = 5;
    c.effects = 30;
    c.no_out = true;
    // reads at offsets inside registered constants are a path of their own in the evaluator
    c.host_consts_in_3 = 2;
    c
}

fn to_v(ret: &Ty, v: Option<EvalValue>) -> Option<V> {
    Some(match (ret, v) {
        (Ty::Unit, _) => V::Unit,
        (Ty::Bool, Some(EvalValue::Bool(b))) => V::Bool(b),
        (Ty::Char, Some(EvalValue::Char(c))) => V::Char(c),
        // chars are plain u32 in the low-level IR
        (Ty::Char, Some(EvalValue::U32(x))) => V::Char(char::from_u32(x)?),
        (Ty::Int(IntTy::U8), Some(EvalValue::U8(x))) => V::Int(IntTy::U8, x as i128),
        (Ty::Int(IntTy::U16), Some(EvalValue::U16(x))) => V::Int(IntTy::U16, x as i128),
        (Ty::Int(IntTy::U32), Some(EvalValue::U32(x))) => V::Int(IntTy::U32, x as i128),
        (Ty::Int(IntTy::U64), Some(EvalValue::U64(x))) => V::Int(IntTy::U64, x as i128),
        (Ty::Int(IntTy::I8), Some(EvalValue::I8(x))) => V::Int(IntTy::I8, x as i128),
        (Ty::Int(IntTy::I16), Some(EvalValue::I16(x))) => V::Int(IntTy::I16, x as i128),
        (Ty::Int(IntTy::I32), Some(EvalValue::I32(x))) => V::Int(IntTy::I32, x as i128),
        (Ty::Int(IntTy::I64), Some(EvalValue::I64(x))) => V::Int(IntTy::I64, x as i128),
        (Ty::F32, Some(EvalValue::F32(x))) => V::F32(x),
        (Ty::F64, Some(EvalValue::F64(x))) => V::F64(x),
        _ => return None,
    })
}

impl EvalCmp {
    fn make(&self, rng: &mut Rng) -> (crate::rg::ast::Program, Vec<String>, String) {
        loop {
            let c = cfg(rng);
            let g = Gen::new(Rng::new(rng.next()), c);
            let (p, tags) = g.program();
            let ret = &p.fns[p.fns.len() - 1].ret;
            // the entry point must return a scalar directly (not through a pointer)
            if matches!(ret, Ty::Unit | Ty::Bool | Ty::Char | Ty::Int(_) | Ty::F32 | Ty::F64) {
                let src = print::print_program(&p, None);
                return (p, tags.into_iter().collect(), src);
            }
        }
    }
}

// ---------------------------------------------------------------------------
// addressing probes: small programs over nested records whose result depends on
// exactly one leaf of a nested aggregate
// ---------------------------------------------------------------------------

#[derive(Clone)]
enum PTy {
    Leaf(IntTy),
    Bool,
    Rec(usize),
}

struct PRec {
    name: String,
    anon: bool,
    fields: Vec<(String, PTy)>,
}

struct Probe {
    recs: Vec<PRec>,
    counter: u64,
}

impl Probe {
    /// record `depth` levels above the leaves; returns its index
    fn gen_rec(&mut self, rng: &mut Rng, depth: u32, anon: bool, regular: Option<IntTy>) -> usize {
        let n = 2 + rng.usize(3);
        let mut fields = Vec::new();
        if let Some(t) = regular {
            // one leaf width, all siblings of one shape: every sub-record then sits at a
            // multiple of its own size, which is what the evaluator's alignment check
            // (offset % access size == 0, also for whole-record copies) accepts
            let child = if depth > 0 { Some(self.gen_rec(rng, depth - 1, anon, regular)) } else { None };
            for i in 0..n {
                fields.push((format!("f{i}"), match child {
                    Some(c) => PTy::Rec(c),
                    None => PTy::Leaf(t),
                }));
            }
            let idx = self.recs.len();
            self.recs.push(PRec { name: format!("P{idx}"), anon, fields });
            return idx;
        }
        // at least one nested record, rarely in first position
        let nested_at = if depth > 0 { Some(if rng.chance(1, 5) { 0 } else { 1 + rng.usize(n - 1) }) } else { None };
        for i in 0..n {
            let t = if Some(i) == nested_at || (depth > 0 && rng.chance(1, 3)) {
                PTy::Rec(self.gen_rec(rng, depth - 1, anon, None))
            } else if rng.chance(1, 6) {
                PTy::Bool
            } else {
                // the evaluator stops on most 64-bit comparisons: mostly narrower leaves
                if rng.chance(1, 8) {
                    PTy::Leaf(*rng.pick(&[IntTy::U64, IntTy::I64]))
                } else {
                    PTy::Leaf(*rng.pick(&[IntTy::U8, IntTy::U16, IntTy::U32, IntTy::I8, IntTy::I16, IntTy::I32]))
                }
            };
            fields.push((format!("f{i}"), t));
        }
        let idx = self.recs.len();
        self.recs.push(PRec { name: format!("P{idx}"), anon, fields });
        idx
    }

    fn ty_src(&self, t: &PTy) -> String {
        match t {
            PTy::Leaf(i) => i.name().to_string(),
            PTy::Bool => "bool".into(),
            PTy::Rec(r) => {
                let rec = &self.recs[*r];
                if rec.anon {
                    let fs: Vec<String> = rec.fields.iter().map(|(n, t)| format!("{n}: {}", self.ty_src(t))).collect();
                    format!("{{{}}}", fs.join(", "))
                } else {
                    rec.name.clone()
                }
            }
        }
    }

    /// all leaf paths below `t`
    fn leaves(&self, t: &PTy, path: &mut Vec<String>, out: &mut Vec<(Vec<String>, PTy)>) {
        match t {
            PTy::Rec(r) => {
                for (n, ft) in &self.recs[*r].fields {
                    path.push(n.clone());
                    self.leaves(ft, path, out);
                    path.pop();
                }
            }
            _ => out.push((path.clone(), t.clone())),
        }
    }

    /// literal of `t`; every leaf gets a fresh small value, except `special` which gets `sv`
    fn value_src(&mut self, t: &PTy, path: &mut Vec<String>, special: &Option<(Vec<String>, String)>) -> String {
        match t {
            PTy::Rec(r) => {
                let fields = self.recs[*r].fields.clone();
                let mut fs = Vec::new();
                for (n, ft) in &fields {
                    path.push(n.clone());
                    fs.push(format!("{n}: {}", self.value_src(ft, path, special)));
                    path.pop();
                }
                let rec = &self.recs[*r];
                if rec.anon { format!("{{ {} }}", fs.join(", ")) } else { format!("{} {{ {} }}", rec.name, fs.join(", ")) }
            }
            _ => {
                self.counter += 1;
                if let Some((p, v)) = special
                    && p == path
                {
                    return v.clone();
                }
                leaf_lit(t, self.counter)
            }
        }
    }
}

fn leaf_lit(t: &PTy, k: u64) -> String {
    match t {
        PTy::Bool => (k % 2 == 0).to_string(),
        PTy::Leaf(i) => format!("{}{}", 1 + k % 100, i.name()),
        PTy::Rec(_) => unreachable!(),
    }
}

/// A probe program: (source, return type, tags).
fn probe_program(rng: &mut Rng) -> (String, Ty, Vec<String>) {
    let mut p = Probe { recs: Vec::new(), counter: rng.below(50) };
    let anon = rng.chance(1, 3);
    let depth = 1 + rng.below(2) as u32;
    let regular = if rng.chance(2, 3) { Some(*rng.pick(&[IntTy::U8, IntTy::U16, IntTy::U32, IntTy::I8, IntTy::I16, IntTy::I32])) } else { None };
    let top = PTy::Rec(p.gen_rec(rng, depth, anon, regular));
    let mut leaves = Vec::new();
    p.leaves(&top, &mut Vec::new(), &mut leaves);
    let (lpath, lty) = leaves[rng.usize(leaves.len())].clone();
    let mut src = String::new();
    if !anon {
        for r in &p.recs {
            let fs: Vec<String> = r.fields.iter().map(|(n, t)| format!("    {n}: {},\n", p.ty_src(t))).collect();
            src.push_str(&format!("record {} {{\n{}}}\n\n", r.name, fs.concat()));
        }
    }
    let tsrc = p.ty_src(&top);
    // the same values twice
    let start = p.counter;
    let lv = p.value_src(&top, &mut Vec::new(), &None);
    let kind = rng.below(6);
    let differ = rng.chance(2, 3);
    p.counter = start;
    let special = if differ { Some((lpath.clone(), leaf_lit(&lty, start + 977))) } else { None };
    let rv = p.value_src(&top, &mut Vec::new(), &special);
    let ret_of = |t: &PTy| match t {
        PTy::Bool => Ty::Bool,
        PTy::Leaf(i) => Ty::Int(*i),
        PTy::Rec(_) => unreachable!(),
    };
    let lp = lpath.join(".");
    let (ret, body, kname): (Ty, String, &str) = match kind {
        0 => (Ty::Bool, "    l == r\n".into(), "eq"),
        1 => (Ty::Bool, "    l != r\n".into(), "ne"),
        2 => (ret_of(&lty), format!("    r.{lp}\n"), "leaf-read"),
        3 => {
            // hand the enclosing inner record to a function that compares / reads
            if lpath.len() >= 2 {
                let outer = lpath[..lpath.len() - 1].join(".");
                (Ty::Bool, format!("    let a = l.{outer};\n    let b = r.{outer};\n    a == b\n"), "inner-copy-eq")
            } else {
                (Ty::Bool, "    let a = l;\n    a != r\n".into(), "copy-ne")
            }
        }
        4 => (ret_of(&lty), format!("    l.{lp} = r.{lp};\n    let c = l;\n    c.{lp}\n"), "leaf-write-read"),
        _ => (Ty::Bool, format!("    l.{lp} = r.{lp};\n    l == r\n"), "leaf-write-eq"),
    };
    let ret_src = match &ret {
        Ty::Bool => "bool".to_string(),
        Ty::Int(i) => i.name().to_string(),
        _ => unreachable!(),
    };
    src.push_str(&format!("fn main() -> {ret_src} {{\n    let l: {tsrc} = {lv};\n    let r: {tsrc} = {rv};\n{body}}}\n"));
    let first = lpath.iter().all(|n| n == "f0");
    let tags = vec![
        format!("probe:{kname}"),
        format!("probe:depth{}", lpath.len()),
        format!("probe:{}", if anon { "anonymous" } else { "named" }),
        format!("probe:leaf-{}", if first { "at-offset-0" } else { "at-inner-offset" }),
        format!("probe:{}", if differ { "differs" } else { "equal" }),
        format!("probe:shape-{}", if regular.is_some() { "regular" } else { "mixed" }),
    ];
    (src, ret, tags)
}

/// Outcome of comparing evaluator and compiled code on one program.
pub enum Cmp {
    Skipped(String),
    Done { completed: u64, panicked: Vec<String>, events: u64, finding: Option<(String, String, Vec<u64>)> },
}

pub fn compare(rt: &Runtime<NoCtx>, src: &str, ret: &Ty, inputs: &[Vec<u64>]) -> Cmp {
    let lowered = catch(|| roto::verif::lower(FileTree::test_file("gen.roto", src, 0), rt));
    let low = match lowered {
        Err(p) => return Cmp::Skipped(format!("lowering-panicked:{}", panic_sig(&p))),
        Ok(Err(_)) => return Cmp::Skipped("rejected".into()),
        Ok(Ok(l)) => l,
    };
    let mut evals = Vec::new();
    for input in inputs {
        host::set_input(input);
        host::log_clear();
        let r = low.eval_main(&[]);
        let log = host::log_take();
        evals.push((r, log));
    }
    let mut pkg = match catch(|| low.codegen()) {
        Ok(p) => p,
        Err(p) => return Cmp::Skipped(format!("codegen-panicked:{}", panic_sig(&p))),
    };
    let f = match exec::get_main(&mut pkg, "main", ret) {
        Ok(f) => f,
        Err(e) => return Cmp::Skipped(format!("no-main:{e}")),
    };
    let mut completed = 0;
    let mut panicked = Vec::new();
    let mut events = 0;
    let mut finding = None;
    for (input, (er, elog)) in inputs.iter().zip(evals) {
        match er {
            Err(msg) => {
                let norm: String =
                    msg.lines().next().unwrap_or("").chars().map(|c| if c.is_ascii_digit() { '#' } else { c }).take(60).collect();
                panicked.push(norm);
            }
            Ok(ev) => {
                host::set_input(input);
                host::log_clear();
                let jv = f.call();
                let jlog = host::log_take();
                completed += 1;
                events += jlog.len() as u64 + 1;
                if finding.is_some() {
                    continue;
                }
                let Some(evv) = to_v(ret, ev) else {
                    finding = Some((
                        "eval:result-kind".to_string(),
                        format!("evaluator returned {ev:?} for a function returning {ret:?}"),
                        input.clone(),
                    ));
                    continue;
                };
                if !evv.obs_eq(&jv) {
                    finding = Some((
                        "eval:value-differs".to_string(),
                        format!("evaluator completed with {} but the compiled code returned {}", evv.show(), jv.show()),
                        input.clone(),
                    ));
                } else if let Some(i) = val::logs_equal(&elog, &jlog) {
                    finding = Some((
                        "eval:host-calls-differ".to_string(),
                        format!(
                            "host-call logs differ at event {i}: evaluator {:?} compiled {:?}",
                            val::show_log(&elog, i),
                            val::show_log(&jlog, i)
                        ),
                        input.clone(),
                    ));
                }
            }
        }
    }
    Cmp::Done { completed, panicked, events, finding }
}

/// Which IR features does the minimised program use? (signature classes)
fn feature_of(p: &crate::rg::ast::Program) -> &'static str {
    use crate::rg::ast::{BinOp, EK, UnOp};
    let mut not = false;
    let mut neg = false;
    let mut cmp64 = false;
    let mut float = false;
    let mut div = false;
    let mut mat = false;
    let mut rec = false;
    let mut on = |e: &crate::rg::ast::Expr| match &e.k {
        EK::Un(UnOp::Not, _) => not = true,
        EK::Un(UnOp::Neg, _) => neg = true,
        EK::Bin(op, a, _) => {
            if a.ty.is_float() {
                float = true;
            }
            if matches!(op, BinOp::Div | BinOp::Mod) {
                div = true;
            }
            if (op.is_cmp() || matches!(op, BinOp::Eq | BinOp::Ne)) && matches!(a.ty, Ty::Int(IntTy::I64) | Ty::Int(IntTy::U64)) {
                cmp64 = true;
            }
        }
        EK::Match(..) => mat = true,
        EK::RecLit(..) | EK::Field(..) => rec = true,
        _ => {}
    };
    for f in &p.fns {
        crate::rg::generate::visit_block(&f.body, &mut on);
    }
    if not {
        "not"
    } else if neg {
        "negate"
    } else if div {
        "div-rem"
    } else if float {
        "float"
    } else if cmp64 {
        "compare-64-bit"
    } else if mat {
        "match"
    } else if rec {
        "record"
    } else {
        "other"
    }
}

impl Family for EvalCmp {
    fn n_cases(&self, args: &Args) -> u64 {
        if args.thorough() { 300_000 } else { 20_000 }
    }

    fn describe(&mut self, _k: u64, rng: &mut Rng, _args: &Args) -> Option<J> {
        if rng.chance(1, 4) {
            let (src, _, _) = probe_program(rng);
            return Some(J::obj().set("source", src).set("sig_hint", "evaluator/addressing-probe"));
        }
        let (prog, _, src) = self.make(rng);
        // class of the program for the signature of a worker death: the evaluator is
        // known to crash (instead of panicking) on some programs with string values
        // (a value whose type merely contains a string, e.g. a `String?` field that is `None`,
        // goes through the same drop function)
        fn has_str(p: &crate::rg::ast::Program, t: &Ty, fuel: u32) -> bool {
            if fuel == 0 {
                return false;
            }
            match t {
                Ty::Str => true,
                Ty::Opt(x) | Ty::List(x) => has_str(p, x, fuel - 1),
                Ty::Verdict(a, b) => has_str(p, a, fuel - 1) || has_str(p, b, fuel - 1),
                _ => {
                    if let Some(fs) = p.record_fields(t) {
                        return fs.iter().any(|(_, ft)| has_str(p, ft, fuel - 1));
                    }
                    if let Some(vs) = p.enum_variants(t) {
                        return vs.iter().any(|(_, ts)| ts.iter().any(|ft| has_str(p, ft, fuel - 1)));
                    }
                    false
                }
            }
        }
        let mut strings = false;
        for f in &prog.fns {
            crate::rg::generate::visit_block(&f.body, &mut |e| strings |= has_str(&prog, &e.ty, 6));
        }
        let hint = if strings { "evaluator/program-with-string-values" } else { "evaluator/scalar-program" };
        Some(J::obj().set("source", src).set("sig_hint", hint))
    }

    fn run(&mut self, _k: u64, rng: &mut Rng, args: &Args) -> CaseOut {
        let mut out = CaseOut::default();
        if rng.chance(1, 4) {
            let (src, ret, tags) = probe_program(rng);
            out.hash = hash_str(&src);
            out.tags = tags;
            out.sample = Some(J::obj().set("source", src.as_str()));
            match compare(&self.rt, &src, &ret, &[vec![0]]) {
                Cmp::Skipped(s) => out.skipped = Some(format!("probe:{s}")),
                Cmp::Done { completed, panicked, events, finding } => {
                    out.evals = completed + panicked.len() as u64;
                    out.events = events;
                    out.nontrivial = completed > 0;
                    out.count("evaluator_completed", completed);
                    out.count("evaluator_panicked", panicked.len() as u64);
                    out.count("probe_completed", completed);
                    for p in panicked {
                        out.tags.push(format!("eval-panic:{p}"));
                    }
                    if let Some((kind, msg, _)) = finding {
                        out.viol(format!("{kind}@addressing-probe"), msg, J::obj().set("source", src.as_str()));
                    }
                }
            }
            return out;
        }
        let (prog, tags, src) = self.make(rng);
        out.hash = hash_str(&src);
        out.tags = tags;
        out.sample = Some(J::obj().set("source", src.as_str()));
        let main_idx = prog.fns.len() - 1;
        let ret = prog.fns[main_idx].ret.clone();
        let n_inputs = if args.thorough() { 6 } else { 3 };
        let inputs: Vec<Vec<u64>> = (0..n_inputs).map(|_| conv::input_vector(rng, 24, 50)).collect();
        match compare(&self.rt, &src, &ret, &inputs) {
            Cmp::Skipped(s) => out.skipped = Some(s),
            Cmp::Done { completed, panicked, events, finding } => {
                out.evals = completed + panicked.len() as u64;
                out.events = events;
                out.nontrivial = completed > 0;
                out.count("evaluator_completed", completed);
                out.count("evaluator_panicked", panicked.len() as u64);
                for p in panicked {
                    out.tags.push(format!("eval-panic:{p}"));
                }
                if let Some((kind, msg, input)) = finding {
                    let rt = &self.rt;
                    let one = vec![input.clone()];
                    let kind2 = kind.clone();
                    let mut pred = |p: &crate::rg::ast::Program| -> bool {
                        let s = print::print_program(p, None);
                        let r = p.fns[p.fns.len() - 1].ret.clone();
                        match catch(|| compare(rt, &s, &r, &one)) {
                            Ok(Cmp::Done { finding: Some((k, _, _)), .. }) => k == kind2,
                            _ => false,
                        }
                    };
                    let small = if args.flag("no-shrink") || !pred(&prog) {
                        prog.clone()
                    } else {
                        crate::rg::shrink::shrink(&prog, 400, &mut pred)
                    };
                    let small_src = print::print_program(&small, None);
                    out.viol(
                        format!("{kind}@{}", feature_of(&small)),
                        msg,
                        J::obj().set("input", format!("{input:x?}")).set("minimised", small_src),
                    );
                }
            }
        }
        out
    }
}
