//! C20: the IR evaluator agrees with the compiled code or stops loudly.
//! Both executions start from the same lowered IR (hook `roto::verif::lower`).

use roto::verif::EvalValue;
use roto::{FileTree, NoCtx, Runtime};

use crate::jsonw::J;
use crate::rg::ast::Ty;
use crate::rg::generate::{Cfg, Gen};
use crate::rg::print;
use crate::rng::Rng;
use crate::val::{self, IntTy, V};
use crate::work::{Args, CaseOut, Family, catch, hash_str, panic_sig};
use crate::{conv, exec, host};

pub struct EvalCmp {
    rt: Runtime<NoCtx>,
}

impl EvalCmp {
    pub fn new(_args: &Args) -> EvalCmp {
        EvalCmp { rt: host::runtime() }
    }
}

fn cfg(rng: &mut Rng) -> Cfg {
    let mut c = Cfg::scalar();
    c.name = "evaluator";
    c.recursion = false;
    c.consts = 0;
    c.raw_div = false;
    c.max_user_types = 3;
    c.anon_records = rng.bool();
    c.strings = rng.chance(1, 3);
    c.fstrings = false;
    c.lists = false;
    c.trk = false;
    c.trkz = false;
    c.fns = (1, 3);
    c.max_stmts = 5;
    c.effects = 30;
    c.no_out = true;
    c
}

fn to_v(ret: &Ty, v: Option<EvalValue>) -> Option<V> {
    Some(match (ret, v) {
        (Ty::Unit, _) => V::Unit,
        (Ty::Bool, Some(EvalValue::Bool(b))) => V::Bool(b),
        (Ty::Char, Some(EvalValue::Char(c))) => V::Char(c),
        // chars are plain u32 in the low-level IR
        (Ty::Char, Some(EvalValue::U32(x))) => V::Char(char::from_u32(x)?),
        (Ty::Int(IntTy::U8), Some(EvalValue::U8(x))) => V::Int(IntTy::U8, x as i128),
        (Ty::Int(IntTy::U16), Some(EvalValue::U16(x))) => V::Int(IntTy::U16, x as i128),
        (Ty::Int(IntTy::U32), Some(EvalValue::U32(x))) => V::Int(IntTy::U32, x as i128),
        (Ty::Int(IntTy::U64), Some(EvalValue::U64(x))) => V::Int(IntTy::U64, x as i128),
        (Ty::Int(IntTy::I8), Some(EvalValue::I8(x))) => V::Int(IntTy::I8, x as i128),
        (Ty::Int(IntTy::I16), Some(EvalValue::I16(x))) => V::Int(IntTy::I16, x as i128),
        (Ty::Int(IntTy::I32), Some(EvalValue::I32(x))) => V::Int(IntTy::I32, x as i128),
        (Ty::Int(IntTy::I64), Some(EvalValue::I64(x))) => V::Int(IntTy::I64, x as i128),
        (Ty::F32, Some(EvalValue::F32(x))) => V::F32(x),
        (Ty::F64, Some(EvalValue::F64(x))) => V::F64(x),
        _ => return None,
    })
}

impl EvalCmp {
    fn make(&self, rng: &mut Rng) -> (crate::rg::ast::Program, Vec<String>, String) {
        loop {
            let c = cfg(rng);
            let g = Gen::new(Rng::new(rng.next()), c);
            let (p, tags) = g.program();
            let ret = &p.fns[p.fns.len() - 1].ret;
            // the entry point must return a scalar directly (not through a pointer)
            if matches!(ret, Ty::Unit | Ty::Bool | Ty::Char | Ty::Int(_) | Ty::F32 | Ty::F64) {
                let src = print::print_program(&p, None);
                return (p, tags.into_iter().collect(), src);
            }
        }
    }
}

/// Outcome of comparing evaluator and compiled code on one program.
pub enum Cmp {
    Skipped(String),
    Done { completed: u64, panicked: Vec<String>, events: u64, finding: Option<(String, String, Vec<u64>)> },
}

pub fn compare(rt: &Runtime<NoCtx>, src: &str, ret: &Ty, inputs: &[Vec<u64>]) -> Cmp {
    let lowered = catch(|| roto::verif::lower(FileTree::test_file("gen.roto", src, 0), rt));
    let low = match lowered {
        Err(p) => return Cmp::Skipped(format!("lowering-panicked:{}", panic_sig(&p))),
        Ok(Err(_)) => return Cmp::Skipped("rejected".into()),
        Ok(Ok(l)) => l,
    };
    let mut evals = Vec::new();
    for input in inputs {
        host::set_input(input);
        host::log_clear();
        let r = low.eval_main(&[]);
        let log = host::log_take();
        evals.push((r, log));
    }
    let mut pkg = match catch(|| low.codegen()) {
        Ok(p) => p,
        Err(p) => return Cmp::Skipped(format!("codegen-panicked:{}", panic_sig(&p))),
    };
    let f = match exec::get_main(&mut pkg, "main", ret) {
        Ok(f) => f,
        Err(e) => return Cmp::Skipped(format!("no-main:{e}")),
    };
    let mut completed = 0;
    let mut panicked = Vec::new();
    let mut events = 0;
    let mut finding = None;
    for (input, (er, elog)) in inputs.iter().zip(evals) {
        match er {
            Err(msg) => {
                let norm: String =
                    msg.lines().next().unwrap_or("").chars().map(|c| if c.is_ascii_digit() { '#' } else { c }).take(60).collect();
                panicked.push(norm);
            }
            Ok(ev) => {
                host::set_input(input);
                host::log_clear();
                let jv = f.call();
                let jlog = host::log_take();
                completed += 1;
                events += jlog.len() as u64 + 1;
                if finding.is_some() {
                    continue;
                }
                let Some(evv) = to_v(ret, ev) else {
                    finding = Some((
                        "eval:result-kind".to_string(),
                        format!("evaluator returned {ev:?} for a function returning {ret:?}"),
                        input.clone(),
                    ));
                    continue;
                };
                if !evv.obs_eq(&jv) {
                    finding = Some((
                        "eval:value-differs".to_string(),
                        format!("evaluator completed with {} but the compiled code returned {}", evv.show(), jv.show()),
                        input.clone(),
                    ));
                } else if let Some(i) = val::logs_equal(&elog, &jlog) {
                    finding = Some((
                        "eval:host-calls-differ".to_string(),
                        format!(
                            "host-call logs differ at event {i}: evaluator {:?} compiled {:?}",
                            val::show_log(&elog, i),
                            val::show_log(&jlog, i)
                        ),
                        input.clone(),
                    ));
                }
            }
        }
    }
    Cmp::Done { completed, panicked, events, finding }
}

/// Which IR features does the minimised program use? (signature classes)
fn feature_of(p: &crate::rg::ast::Program) -> &'static str {
    use crate::rg::ast::{BinOp, EK, UnOp};
    let mut not = false;
    let mut neg = false;
    let mut cmp64 = false;
    let mut float = false;
    let mut div = false;
    let mut mat = false;
    let mut rec = false;
    let mut on = |e: &crate::rg::ast::Expr| match &e.k {
        EK::Un(UnOp::Not, _) => not = true,
        EK::Un(UnOp::Neg, _) => neg = true,
        EK::Bin(op, a, _) => {
            if a.ty.is_float() {
                float = true;
            }
            if matches!(op, BinOp::Div | BinOp::Mod) {
                div = true;
            }
            if (op.is_cmp() || matches!(op, BinOp::Eq | BinOp::Ne)) && matches!(a.ty, Ty::Int(IntTy::I64) | Ty::Int(IntTy::U64)) {
                cmp64 = true;
            }
        }
        EK::Match(..) => mat = true,
        EK::RecLit(..) | EK::Field(..) => rec = true,
        _ => {}
    };
    for f in &p.fns {
        crate::rg::generate::visit_block(&f.body, &mut on);
    }
    if not {
        "not"
    } else if neg {
        "negate"
    } else if div {
        "div-rem"
    } else if float {
        "float"
    } else if cmp64 {
        "compare-64-bit"
    } else if mat {
        "match"
    } else if rec {
        "record"
    } else {
        "other"
    }
}

impl Family for EvalCmp {
    fn n_cases(&self, args: &Args) -> u64 {
        if args.thorough() { 300_000 } else { 20_000 }
    }

    fn describe(&mut self, _k: u64, rng: &mut Rng, _args: &Args) -> Option<J> {
        let (prog, _, src) = self.make(rng);
        // class of the program for the signature of a worker death: the evaluator is
        // known to crash (instead of panicking) on some programs with string values
        let mut strings = false;
        for f in &prog.fns {
            crate::rg::generate::visit_block(&f.body, &mut |e| strings |= e.ty == Ty::Str);
        }
        let hint = if strings { "evaluator/program-with-string-values" } else { "evaluator/scalar-program" };
        Some(J::obj().set("source", src).set("sig_hint", hint))
    }

    fn run(&mut self, _k: u64, rng: &mut Rng, args: &Args) -> CaseOut {
        let mut out = CaseOut::default();
        let (prog, tags, src) = self.make(rng);
        out.hash = hash_str(&src);
        out.tags = tags;
        out.sample = Some(J::obj().set("source", src.as_str()));
        let main_idx = prog.fns.len() - 1;
        let ret = prog.fns[main_idx].ret.clone();
        let n_inputs = if args.thorough() { 6 } else { 3 };
        let inputs: Vec<Vec<u64>> = (0..n_inputs).map(|_| conv::input_vector(rng, 24, 50)).collect();
        match compare(&self.rt, &src, &ret, &inputs) {
            Cmp::Skipped(s) => out.skipped = Some(s),
            Cmp::Done { completed, panicked, events, finding } => {
                out.evals = completed + panicked.len() as u64;
                out.events = events;
                out.nontrivial = completed > 0;
                out.count("evaluator_completed", completed);
                out.count("evaluator_panicked", panicked.len() as u64);
                for p in panicked {
                    out.tags.push(format!("eval-panic:{p}"));
                }
                if let Some((kind, msg, input)) = finding {
                    let rt = &self.rt;
                    let one = vec![input.clone()];
                    let kind2 = kind.clone();
                    let mut pred = |p: &crate::rg::ast::Program| -> bool {
                        let s = print::print_program(p, None);
                        let r = p.fns[p.fns.len() - 1].ret.clone();
                        match catch(|| compare(rt, &s, &r, &one)) {
                            Ok(Cmp::Done { finding: Some((k, _, _)), .. }) => k == kind2,
                            _ => false,
                        }
                    };
                    let small = if args.flag("no-shrink") || !pred(&prog) {
                        prog.clone()
                    } else {
                        crate::rg::shrink::shrink(&prog, 400, &mut pred)
                    };
                    let small_src = print::print_program(&small, None);
                    out.viol(
                        format!("{kind}@{}", feature_of(&small)),
                        msg,
                        J::obj().set("input", format!("{input:x?}")).set("minimised", small_src),
                    );
                }
            }
        }
        out
    }
}
