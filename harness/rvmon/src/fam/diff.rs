//! Differential execution of generated programs: JIT result, host-call log,
//! drop ledger and allocation balance against the reference interpreter.
//! Serves C01 (scalar), C02 (aggregate), C03 (ownership), C08 (effects).

use roto::{NoCtx, Runtime};

use crate::jsonw::J;
use crate::rg::ast::*;
use crate::rg::generate::{Cfg, Gen, node_partial_diverge, visit_block};
use crate::rg::interp::{self, Stop};
use crate::rg::{print, shrink};
use crate::rng::Rng;
use crate::val::{self, V};
use crate::work::{Args, CaseOut, Family, catch, hash_str, panic_sig};
use crate::{alloc, conv, exec, host};

#[derive(Clone, Debug)]
pub struct Finding {
    pub kind: String,
    pub msg: String,
    pub input: Option<Vec<u64>>,
}

#[derive(Debug, Default)]
pub struct RunStats {
    pub evals: u64,
    pub events: u64,
    pub skipped_inputs: u64,
    pub clone_drop_events: u64,
}

pub enum Outcome {
    /// constant initialiser traps or loops: the case belongs to C10
    ConstStop(String),
    Findings(Vec<Finding>, RunStats),
}

pub struct Monitors {
    pub result: bool,
    pub log: bool,
    pub ledger: bool,
    pub alloc: bool,
}

pub fn const_order(prog: &Program) -> Vec<usize> {
    (0..prog.consts.len()).collect()
}

/// Compile and run `prog` on every input vector with all monitors attached.
pub fn run_program(rt: &Runtime<NoCtx>, prog: &Program, src: &str, inputs: &[Vec<u64>], mon: &Monitors) -> Outcome {
    let order = const_order(prog);
    {
        let mut it = interp::Interp::new(prog, &[], 200_000);
        if let Err(s) = it.eval_consts(&order) {
            return Outcome::ConstStop(format!("{s:?}"));
        }
    }
    let mut stats = RunStats::default();
    let mut out = Vec::new();
    // tracked values created while the package is compiled (script constants) stay in the
    // ledger as the baseline of every call
    host::ledger_reset();
    let compiled = catch(|| exec::compile(src, rt));
    let mut pkg = match compiled {
        Err(p) => {
            out.push(Finding { kind: format!("compile-{}", panic_sig(&p)), msg: p, input: None });
            return Outcome::Findings(out, stats);
        }
        Ok(Err(report)) => {
            let first = report.lines().find(|l| l.contains("error")).unwrap_or("").to_string();
            out.push(Finding { kind: "rejected-well-typed".into(), msg: format!("{first}\n{report}"), input: None });
            return Outcome::Findings(out, stats);
        }
        Ok(Ok(p)) => p,
    };
    let main_idx = prog.fns.len() - 1;
    let f = match exec::get_main(&mut pkg, &prog.fns[main_idx].name, &prog.fns[main_idx].ret) {
        Ok(f) => f,
        Err(e) => {
            out.push(Finding { kind: "get-function-refused".into(), msg: e, input: None });
            return Outcome::Findings(out, stats);
        }
    };
    for input in inputs {
        let exp = interp::run(prog, main_idx, vec![], input, 300_000, &order);
        let expv = match exp.result {
            Ok(v) => v,
            Err(Stop::Trap(_)) | Err(Stop::Fuel) | Err(Stop::Unspecified(_)) => {
                stats.skipped_inputs += 1;
                continue;
            }
        };
        let mut attempt = 0;
        loop {
            host::set_input(input);
            host::ledger_mark();
            host::log_clear();
            alloc::begin();
            let got = f.call();
            let (live_blocks, live_bytes) = alloc::end();
            let log = host::log_take();
            let led = host::ledger_report();
            stats.evals += 1;
            stats.events += log.len() as u64;
            stats.clone_drop_events += led.created + led.cloned + led.drops + led.z_clones + led.z_drops;
            let mut here = Vec::new();
            if mon.result && !got.obs_eq(&expv) {
                here.push(Finding {
                    kind: "result".into(),
                    msg: format!("expected {} got {}", expv.show(), got.show()),
                    input: Some(input.clone()),
                });
            }
            if mon.log
                && let Some(i) = val::logs_equal(&exp.log, &log)
            {
                here.push(Finding {
                    kind: "log".into(),
                    msg: format!(
                        "host-call logs differ at event {i}: expected {:?} got {:?}",
                        val::show_log(&exp.log, i),
                        val::show_log(&log, i)
                    ),
                    input: Some(input.clone()),
                });
            }
            if mon.ledger {
                for a in &led.alarms {
                    here.push(Finding {
                        kind: format!("ledger:{}", a.kind),
                        msg: format!("instance {} {}", a.id, a.info),
                        input: Some(input.clone()),
                    });
                }
                if !led.live.is_empty() {
                    here.push(Finding {
                        kind: "ledger:leak".into(),
                        msg: format!("{} tracked instance(s) still live after return: tags {:?}", led.live.len(), led.live.iter().map(|x| x.1).collect::<Vec<_>>()),
                        input: Some(input.clone()),
                    });
                }
                if led.z_live != 0 {
                    here.push(Finding {
                        kind: if led.z_live > 0 { "ledger:zst-leak".into() } else { "ledger:zst-overdrop".into() },
                        msg: format!("zero-sized tracked balance {}", led.z_live),
                        input: Some(input.clone()),
                    });
                }
                if led.b_live != 0 || led.b_bad != 0 {
                    here.push(Finding {
                        kind: "ledger:byte-type".into(),
                        msg: format!("1-byte tracked balance {} bad reads {}", led.b_live, led.b_bad),
                        input: Some(input.clone()),
                    });
                }
            }
            let ledger_clean = !here.iter().any(|f| f.kind.starts_with("ledger:"));
            if mon.alloc && alloc::ENABLED && live_blocks != 0 && ledger_clean {
                // confirm by re-execution: one-time lazy initialisation does not repeat
                if attempt == 0 {
                    attempt = 1;
                    continue;
                }
                here.push(Finding {
                    kind: "alloc-leak".into(),
                    msg: format!("{live_blocks} heap block(s) / {live_bytes} bytes allocated during the call are still live after it returned"),
                    input: Some(input.clone()),
                });
            }
            out.extend(here);
            break;
        }
        if !out.is_empty() {
            break;
        }
    }
    Outcome::Findings(out, stats)
}

// ---------------------------------------------------------------------------
// pattern predicates: used both to keep known-defect patterns out of the random
// stream and to compute finding signatures on minimised programs
// ---------------------------------------------------------------------------

pub fn patterns(prog: &Program) -> Vec<&'static str> {
    let mut out = Vec::new();
    let mut partial = false;
    let mut on = |e: &Expr| partial |= node_partial_diverge(prog, e);
    for f in &prog.fns {
        visit_block(&f.body, &mut on);
    }
    if partial {
        out.push("diverge-in-partial-construct");
    }
    out
}

// ---------------------------------------------------------------------------
// the family
// ---------------------------------------------------------------------------

pub struct Diff {
    rt: Runtime<NoCtx>,
    profile: String,
}

impl Diff {
    pub fn new(profile: &str) -> Diff {
        Diff { rt: host::runtime(), profile: profile.to_string() }
    }

    fn cfg(&self, args: &Args) -> (Cfg, Monitors) {
        let mut cfg = match self.profile.as_str() {
            "aggregate" => Cfg::aggregate(),
            "ownership" => Cfg::ownership(),
            "effects" => Cfg::effects(),
            _ => Cfg::scalar(),
        };
        // a third of the entry points are filtermaps (accept / reject with payloads)
        cfg.filtermap_main = true;
        cfg.trk_consts = true;
        // zero-sized components: records and enums with `()` fields / payloads
        cfg.unit_fields = cfg.max_user_types > 0;
        if !args.flag("no-avoid") {
            // zero-sized tracked values are never cloned/dropped by compiled code
            // (known finding C03/zst-elided); the witnesses keep exercising it
            cfg.trkz = false;
            cfg.avoid.diverge_in_partial = true;
        }
        let mon = Monitors { result: true, log: true, ledger: true, alloc: true };
        (cfg, mon)
    }
}

pub fn finding_class(kind: &str) -> &str {
    // alarm class used while shrinking: the minimised program must show the same class
    if kind.starts_with("ledger:") || kind == "alloc-leak" {
        if kind.contains("leak") { "leak" } else { "ownership" }
    } else {
        kind
    }
}

impl Family for Diff {
    fn n_cases(&self, args: &Args) -> u64 {
        if args.thorough() { 200_000 } else { 6_000 }
    }

    fn describe(&mut self, _k: u64, rng: &mut Rng, args: &Args) -> Option<J> {
        let (cfg, _) = self.cfg(args);
        let g = Gen::new(Rng::new(rng.next()), cfg);
        let (prog, _) = g.program();
        let layout = rng.next();
        let n_inputs = if args.thorough() { 8 } else { 4 };
        let inputs: Vec<J> = (0..n_inputs)
            .map(|_| J::Str(conv::input_vector(rng, 24, 50).iter().map(|w| format!("{w:#x}")).collect::<Vec<_>>().join(" ")))
            .collect();
        Some(J::obj().set("source", print::print_program(&prog, Some(layout))).set("inputs", J::Arr(inputs)))
    }

    fn run(&mut self, _k: u64, rng: &mut Rng, args: &Args) -> CaseOut {
        let (cfg, mon) = self.cfg(args);
        let mut out = CaseOut::default();
        let g = Gen::new(Rng::new(rng.next()), cfg.clone());
        let (prog, tags) = g.program();
        let layout = rng.next();
        // every other program: anonymous record types are spelled with their fields in the opposite
        // order in function signatures (if that changes the text at all)
        let permute = rng.chance(1, 2);
        let plain_src = print::print_program(&prog, Some(layout));
        print::PERMUTE_ANON_LETS.store(permute, std::sync::atomic::Ordering::Relaxed);
        let src = print::print_program(&prog, Some(layout));
        let permuted = src != plain_src;
        if !permuted {
            print::PERMUTE_ANON_LETS.store(false, std::sync::atomic::Ordering::Relaxed);
        }
        // (the flag stays set while the case is shrunk: the shrinker prints candidates itself)
        struct ResetFlag;
        impl Drop for ResetFlag {
            fn drop(&mut self) {
                print::PERMUTE_ANON_LETS.store(false, std::sync::atomic::Ordering::Relaxed);
            }
        }
        let _reset = ResetFlag;
        out.hash = hash_str(&src);
        out.tags = tags.into_iter().collect();
        if permuted {
            out.tags.push("anon-record-type:spelled-in-two-field-orders".into());
        }
        // known-defect patterns are kept out of the random stream (the witnesses in
        // corpus/ still exercise them); the same predicates compute signatures
        let pats = patterns(&prog);
        if !args.flag("no-avoid") && !pats.is_empty() {
            out.skipped = Some(format!("pattern:{}", pats.join("+")));
            return out;
        }
        let n_inputs = if args.thorough() { 8 } else { 4 };
        let inputs: Vec<Vec<u64>> = (0..n_inputs).map(|_| conv::input_vector(rng, 24, 50)).collect();
        match run_program(&self.rt, &prog, &src, &inputs, &mon) {
            Outcome::ConstStop(s) => {
                out.skipped = Some(format!("const-stop:{s}"));
            }
            Outcome::Findings(fs, stats) => {
                out.evals = stats.evals;
                out.events = stats.events + stats.clone_drop_events;
                out.nontrivial = stats.evals > 0 && stats.events > 0;
                out.count("skipped_inputs", stats.skipped_inputs);
                out.count("host_call_events", stats.events);
                out.count("clone_drop_events", stats.clone_drop_events);
                if stats.evals == 0 && fs.is_empty() {
                    out.skipped = Some("all-inputs-trap-or-fuel".into());
                }
                if let Some(first) = fs.first()
                    && crate::work::is_env_artifact(&first.msg)
                {
                    out.skipped = Some("env:jit-relocation-out-of-range".into());
                } else if permuted && fs.first().is_some_and(|f| f.kind == "rejected-well-typed" && f.msg.contains("Type error")) {
                    // the documentation does not say that the two spellings are one type
                    out.skipped = Some("unspecified:anon-record-type-in-two-field-orders-refused".into());
                } else if let Some(first) = fs.first() {
                    // shrink, then classify
                    let class = finding_class(&first.kind).to_string();
                    let inputs2: Vec<Vec<u64>> = match &first.input {
                        Some(i) => vec![i.clone()],
                        None => inputs.clone(),
                    };
                    let rt = &self.rt;
                    let mut pred = |p: &Program| -> bool {
                        let s = print::print_program(p, None);
                        let r = catch(|| run_program(rt, p, &s, &inputs2, &mon));
                        match r {
                            Ok(Outcome::Findings(f2, _)) => f2.iter().any(|x| finding_class(&x.kind) == class),
                            _ => false,
                        }
                    };
                    let budget = if args.flag("no-shrink") { 0 } else { 600 };
                    let small = if budget > 0 && pred(&prog) { shrink::shrink(&prog, budget, &mut pred) } else { prog.clone() };
                    let small_src = print::print_program(&small, None);
                    let pats = patterns(&small);
                    let pat = pats.first().copied().unwrap_or("other");
                    let sig = format!("{}@{}", first.kind, pat);
                    out.viol(
                        sig,
                        first.msg.clone(),
                        J::obj()
                            .set("kind", first.kind.as_str())
                            .set("input", first.input.clone().map(|v| J::Arr(v.into_iter().map(|w| J::Str(format!("{w:#x}"))).collect())))
                            .set("minimised", small_src)
                            .set("all", J::Arr(fs.iter().map(|f| J::Str(format!("{}: {}", f.kind, f.msg))).collect())),
                    );
                }
            }
        }
        out.sample = Some(J::obj().set("source", src));
        out
    }
}

pub fn show_value(v: &V) -> String {
    v.show()
}
