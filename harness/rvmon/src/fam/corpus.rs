//! Hand-written witnesses: one file per known finding / fixed defect.
//!
//! Header (comment lines at the top of the file):
//!   // property: C03 C06        properties this witness belongs to
//!   // status: known|fixed
//!   // sig: <signature>          (known) signature reported when the monitor fires
//!   // monitor: ledger|alloc|log|result|compile|any   which alarm is the finding
//!   // ret: i32                  return type of `main`
//!   // input: 0x1 2 3            input words
//!   // expect: <value>           expected result (V::show format), optional
//!   // expect-log: a ; b ; c     expected host-call log, optional

use std::path::PathBuf;

use roto::{NoCtx, Runtime};

use crate::jsonw::J;
use crate::rg::ast::Ty;
use crate::rng::Rng;
use crate::val::IntTy;
use crate::work::{Args, CaseOut, Family, catch, hash_str, panic_sig};
use crate::{alloc, exec, host};

pub struct Corpus {
    rt: Runtime<NoCtx>,
    files: Vec<PathBuf>,
}

fn corpus_dir() -> PathBuf {
    // <verif>/harness/rvmon -> <verif>/corpus ; the driver runs workers with cwd = <verif>
    let p = PathBuf::from("corpus");
    if p.is_dir() {
        return p;
    }
    PathBuf::from(env!("CARGO_MANIFEST_DIR")).join("../../corpus")
}

impl Corpus {
    pub fn new(args: &Args) -> Corpus {
        let prop = args.opt("prop").unwrap_or("").to_string();
        let mut files = Vec::new();
        if let Ok(rd) = std::fs::read_dir(corpus_dir()) {
            for e in rd.flatten() {
                let p = e.path();
                if p.extension().and_then(|x| x.to_str()) != Some("roto") {
                    continue;
                }
                let Ok(text) = std::fs::read_to_string(&p) else { continue };
                let h = header(&text);
                if prop.is_empty() || h.get("property").is_some_and(|v| v.split_whitespace().any(|x| x == prop)) {
                    files.push(p);
                }
            }
        }
        files.sort();
        Corpus { rt: host::runtime(), files }
    }
}

fn header(text: &str) -> std::collections::BTreeMap<String, String> {
    let mut m = std::collections::BTreeMap::new();
    for l in text.lines() {
        let Some(rest) = l.strip_prefix("//") else { break };
        if let Some((k, v)) = rest.split_once(':') {
            m.insert(k.trim().to_string(), v.trim().to_string());
        }
    }
    m
}

fn parse_ty(s: &str) -> Option<Ty> {
    Some(match s {
        "()" | "unit" | "" => Ty::Unit,
        "bool" => Ty::Bool,
        "char" => Ty::Char,
        "u8" => Ty::Int(IntTy::U8),
        "u16" => Ty::Int(IntTy::U16),
        "u32" => Ty::Int(IntTy::U32),
        "u64" => Ty::Int(IntTy::U64),
        "i8" => Ty::Int(IntTy::I8),
        "i16" => Ty::Int(IntTy::I16),
        "i32" => Ty::Int(IntTy::I32),
        "i64" => Ty::Int(IntTy::I64),
        "f32" => Ty::F32,
        "f64" => Ty::F64,
        "String" => Ty::Str,
        "Trk" => Ty::Trk,
        "i64?" => Ty::opt(Ty::Int(IntTy::I64)),
        "Trk?" => Ty::opt(Ty::Trk),
        "Verdict[i64, i64]" => Ty::Verdict(Box::new(Ty::Int(IntTy::I64)), Box::new(Ty::Int(IntTy::I64))),
        _ => return None,
    })
}

fn parse_words(s: &str) -> Vec<u64> {
    s.split_whitespace()
        .filter_map(|w| {
            if let Some(h) = w.strip_prefix("0x") { u64::from_str_radix(h, 16).ok() } else { w.parse::<u64>().ok() }
        })
        .collect()
}

impl Family for Corpus {
    fn n_cases(&self, _args: &Args) -> u64 {
        self.files.len() as u64
    }

    fn run(&mut self, k: u64, _rng: &mut Rng, _args: &Args) -> CaseOut {
        let mut out = CaseOut::default();
        let Some(path) = self.files.get(k as usize) else {
            out.skipped = Some("no-such-file".into());
            return out;
        };
        let name = path.file_name().unwrap().to_string_lossy().to_string();
        let text = std::fs::read_to_string(path).unwrap_or_default();
        let h = header(&text);
        out.hash = hash_str(&text);
        out.nontrivial = true;
        out.keep_sample = true;
        out.sample = Some(J::obj().set("file", name.as_str()).set("source", text.as_str()));
        out.tags.push(format!("corpus:{name}"));
        let status = h.get("status").map(|s| s.as_str()).unwrap_or("fixed");
        let monitor = h.get("monitor").map(|s| s.as_str()).unwrap_or("any");
        let ret = parse_ty(h.get("ret").map(|s| s.as_str()).unwrap_or("()"));
        let input = parse_words(h.get("input").map(|s| s.as_str()).unwrap_or(""));

        // (kind, message)
        let mut findings: Vec<(String, String)> = Vec::new();
        let rt = &self.rt;
        if let Some(want) = h.get("expect-compile") {
            // the witness must be rejected with an error of the given kind, and the
            // report must render in both modes
            let r = catch(|| {
                let tree = roto::FileTree::test_file(&name, &text, 0);
                match tree.compile(rt) {
                    Ok(_) => Ok(()),
                    Err(rep) => {
                        let kinds = roto::verif::report_kinds(&rep);
                        let mut a = String::new();
                        let mut b = String::new();
                        let _ = rep.write(&mut a, true);
                        let _ = rep.write(&mut b, false);
                        Err((kinds, b))
                    }
                }
            });
            out.evals += 1;
            out.events += 1;
            match r {
                Err(p) => findings.push(("compile".into(), format!("{}: {p}", panic_sig(&p)))),
                Ok(Ok(())) => findings.push(("compile".into(), format!("compiled, expected {want}"))),
                Ok(Err((kinds, text))) => {
                    let got = format!("{}-error", kinds.first().copied().unwrap_or("no"));
                    if got != *want {
                        findings.push(("compile".into(), format!("expected {want}, got {got}: {text}")));
                    }
                }
            }
            let sig = h.get("sig").cloned().unwrap_or_default();
            for (kind, msg) in findings {
                if status == "known" {
                    out.viol(sig.clone(), msg, J::obj().set("file", name.as_str()).set("kind", kind.as_str()));
                } else {
                    out.viol(format!("regression:{name}:{kind}"), msg, J::obj().set("file", name.as_str()));
                }
            }
            return out;
        }
        let compiled = catch(|| exec::compile(&text, rt));
        match compiled {
            Err(p) => findings.push(("compile".into(), format!("{}: {p}", panic_sig(&p)))),
            Ok(Err(rep)) => findings.push(("compile".into(), format!("rejected: {rep}"))),
            Ok(Ok(mut pkg)) => match ret.as_ref().ok_or("bad ret header".to_string()).and_then(|t| exec::get_main(&mut pkg, "main", t)) {
                Err(e) => findings.push(("compile".into(), format!("get_function: {e}"))),
                Ok(f) => {
                    let mut attempt = 0;
                    loop {
                        host::set_input(&input);
                        host::ledger_reset();
                        host::log_clear();
                        alloc::begin();
                        let got = f.call();
                        let (blocks, bytes) = alloc::end();
                        let log = host::log_take();
                        let led = host::ledger_report();
                        out.evals += 1;
                        out.events += log.len() as u64 + led.created + led.cloned + led.drops;
                        let mut here = Vec::new();
                        if let Some(exp) = h.get("expect")
                            && got.show() != *exp
                        {
                            here.push(("result".to_string(), format!("expected {exp} got {}", got.show())));
                        }
                        if let Some(exp) = h.get("expect-log") {
                            let got_log: Vec<String> = log.iter().map(|e| e.show()).collect();
                            let exp_log: Vec<String> =
                                exp.split(" ; ").map(|s| s.trim().to_string()).filter(|s| !s.is_empty()).collect();
                            if got_log != exp_log {
                                here.push(("log".to_string(), format!("expected log {exp_log:?} got {got_log:?}")));
                            }
                        }
                        for a in &led.alarms {
                            here.push(("ledger".to_string(), format!("{}: instance {} {}", a.kind, a.id, a.info)));
                        }
                        if !led.live.is_empty() {
                            here.push(("ledger".to_string(), format!("leak: {} tracked instance(s) live after return", led.live.len())));
                        }
                        if led.z_live != 0 {
                            here.push(("ledger".to_string(), format!("zero-sized tracked balance {}", led.z_live)));
                        }
                        if led.b_live != 0 || led.b_bad != 0 {
                            here.push(("ledger".to_string(), format!("1-byte tracked balance {} bad {}", led.b_live, led.b_bad)));
                        }
                        if alloc::ENABLED && blocks != 0 && !here.iter().any(|x| x.0 == "ledger") {
                            if attempt == 0 {
                                attempt = 1;
                                continue;
                            }
                            here.push(("alloc".to_string(), format!("{blocks} block(s) / {bytes} bytes live after return")));
                        }
                        findings.extend(here);
                        break;
                    }
                }
            },
        }

        let sig = h.get("sig").cloned().unwrap_or_default();
        for (kind, msg) in findings {
            if status == "known" && (monitor == "any" || monitor == kind) {
                out.viol(sig.clone(), msg, J::obj().set("file", name.as_str()).set("kind", kind.as_str()));
            } else if status == "known" {
                out.viol(format!("corpus:{name}:{kind}"), msg, J::obj().set("file", name.as_str()));
            } else {
                out.viol(format!("regression:{name}:{kind}"), msg, J::obj().set("file", name.as_str()));
            }
        }
        out
    }
}
