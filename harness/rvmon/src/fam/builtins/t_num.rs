//! Probes for `to_string` of the primitives and for the float methods.

use super::*;

macro_rules! int_to_string {
    ($v:expr, $($t:ident),*) => {$(
        probe!($v, &[concat!(stringify!($t), ".to_string")], "",
            &[concat!("fn f(x: ", stringify!($t), ") -> String { x.to_string() }")],
            (x: $t) -> String,
            gen: |g| {
                let mut v: Vec<($t,)> = Vec::new();
                if g.round == 0 {
                    for x in [<$t>::MIN, <$t>::MIN + 1, <$t>::MAX, <$t>::MAX - 1, 0, 1, 9, 10, 99, 100, 127, <$t>::MAX / 2, <$t>::MAX / 2 + 1] {
                        v.push((x,));
                    }
                    #[allow(unused_comparisons)]
                    if <$t>::MIN < 0 {
                        for x in [1 as $t, 9, 10, 100, 127] {
                            v.push((x.wrapping_neg(),));
                        }
                    }
                    let mut p: $t = 1;
                    while let Some(q) = p.checked_mul(10) {
                        v.push((q,));
                        v.push((q - 1,));
                        p = q;
                    }
                    return v;
                }
                for _ in 0..100 {
                    let bits = g.rng.next();
                    let sh = g.rng.below(64) as u32;
                    v.push(((bits >> sh) as $t,));
                    v.push((bits as $t,));
                }
                v
            },
            class: |a| {
                #[allow(unused_comparisons)]
                let c = if a.0 == <$t>::MIN { "min" } else if a.0 == <$t>::MAX { "max" } else if a.0 == 0 { "zero" } else if a.0 < 0 { "negative" } else { "positive" };
                format!("{}:{c}", stringify!($t))
            },
            oracle: |a| Exp::Is(format!("{}", a.0)));
    )*};
}

macro_rules! interest {
    ($name:ident, $t:ident, $u:ident, $mant:expr) => {
        pub fn $name() -> Vec<$t> {
            let m: $t = (1u64 << $mant) as $t; // 2^mantissa-bits: the first magnitude without fraction
            let mut v: Vec<$t> = vec![
                0.0, -0.0, 0.5, -0.5, 1.0, -1.0, 1.5, -1.5, 2.0, -2.0, 2.5, -2.5, 3.0, 4.0, -8.0, 10.0, 0.25, 0.1, 0.2, 0.75, -0.75,
                0.1 + 0.2, 1e-7, 1e7, 1e15, 1e16, 1e21, 1e-5, 123456.79, 16777217.0, 3.4e38, 1e-38, 1e-45,
                $t::from_bits(1), -$t::from_bits(1), $t::MIN_POSITIVE, -$t::MIN_POSITIVE, $t::MIN_POSITIVE / 2.0,
                $t::EPSILON, 1.0 + $t::EPSILON, 1.0 - $t::EPSILON / 2.0,
                $t::MAX, $t::MIN, $t::INFINITY, $t::NEG_INFINITY, $t::NAN, -$t::NAN,
                m - 0.5, -(m - 0.5), m, -m, m + 1.0, m * 2.0, m * 2.0 + 2.0, m / 2.0 + 0.5, m / 2.0 - 0.25,
            ];
            // the neighbours of one half: 0.5 -/+ one ulp
            v.push($t::from_bits((0.5 as $t).to_bits() - 1));
            v.push(-$t::from_bits((0.5 as $t).to_bits() - 1));
            v.push($t::from_bits((0.5 as $t).to_bits() + 1));
            // signalling NaN, NaN with payload
            let exp_all: $u = $t::INFINITY.to_bits();
            v.push($t::from_bits(exp_all | 1));
            v.push($t::from_bits(exp_all | 1 | (1 << ($u::BITS - 1))));
            for k in 0..8 {
                v.push(k as $t + 0.5);
                v.push(-(k as $t) - 0.5);
            }
            v
        }
    };
}
interest!(interest32, f32, u32, 23);
interest!(interest64, f64, u64, 52);

fn fclass(bits: u64, exp_bits: u32, mant_bits: u32) -> &'static str {
    let e = (bits >> mant_bits) & ((1 << exp_bits) - 1);
    let m = bits & ((1u64 << mant_bits) - 1);
    let bias = (1u64 << (exp_bits - 1)) - 1;
    if e == (1 << exp_bits) - 1 {
        if m == 0 { "inf" } else { "nan" }
    } else if e == 0 {
        if m == 0 { "zero" } else { "subnormal" }
    } else if e < bias {
        "below-one"
    } else if e >= bias + mant_bits as u64 {
        "integral-large"
    } else if m & ((1u64 << (mant_bits as u64 - (e - bias))) - 1) == 0 {
        "integral"
    } else if m & ((1u64 << (mant_bits as u64 - (e - bias) - 1)) - 1) == 0 {
        "half-way"
    } else {
        "fractional"
    }
}

macro_rules! float_probes {
    ($v:expr, $t:ident, $u:ident, $interest:ident, $eb:expr, $mb:expr) => {{
        fn cls(x: $t) -> String {
            format!("{}{}", if x.is_sign_negative() { "-" } else { "+" }, fclass(x.to_bits() as u64, $eb, $mb))
        }
        fn rnd(g: &mut G) -> $t {
            match g.rng.weighted(&[4, 3, 2, 2]) {
                0 => $t::from_bits(g.rng.next() as $u),
                1 => (g.rng.range(-4000, 4000) as $t) / 4.0,
                2 => *g.rng.pick(&$interest()),
                _ => {
                    // random mantissa, exponent near the integer/fraction boundary
                    let x = $t::from_bits(g.rng.next() as $u);
                    let m = (1u64 << $mb) as $t;
                    let y = (x % 4.0) * m / (*g.rng.pick(&[1.0, 2.0, 4.0, 8.0, 1024.0]) as $t);
                    if y.is_nan() { 0.5 } else { y }
                }
            }
        }
        fn g1(g: &mut G) -> Vec<($t,)> {
            if g.round == 0 {
                return $interest().into_iter().map(|x| (x,)).collect();
            }
            (0..200).map(|_| (rnd(g),)).collect()
        }
        macro_rules! un {
            ($name:literal, $r:ty, $f:expr) => {
                probe!($v, &[concat!(stringify!($t), ".", $name)], "",
                    &[concat!("fn f(x: ", stringify!($t), ") -> ", stringify!($r), " { x.", $name, "() }")],
                    (x: $t) -> $r,
                    gen: g1, class: |a| cls(a.0), oracle: |a| Exp::Is($f(a.0)));
            };
        }
        un!("floor", $t, $t::floor);
        un!("ceil", $t, $t::ceil);
        un!("round", $t, $t::round);
        un!("abs", $t, $t::abs);
        un!("sqrt", $t, $t::sqrt);
        un!("is_nan", bool, $t::is_nan);
        un!("is_infinite", bool, $t::is_infinite);
        un!("is_finite", bool, $t::is_finite);
        // floor / ceil against the sentence the runtime documents them with (read at run time):
        // "smallest integer greater than or equal" is ceil, "largest integer less than or equal" is floor
        macro_rules! as_documented {
            ($name:literal) => {
                probe!($v, &[concat!(stringify!($t), ".", $name)], "/as-documented",
                    &[concat!("fn f(x: ", stringify!($t), ") -> ", stringify!($t), " { x.", $name, "() }")],
                    (x: $t) -> $t,
                    gen: g1, class: |a| cls(a.0),
                    oracle: |a| {
                        let Some(d) = doc_of(concat!(stringify!($t), ".", $name)) else { return Exp::Unspec("documentation-not-read") };
                        let d = d.to_lowercase();
                        if d.contains("smallest integer greater than or equal") {
                            Exp::Is(a.0.ceil())
                        } else if d.contains("largest integer less than or equal") {
                            Exp::Is(a.0.floor())
                        } else {
                            Exp::Unspec("documentation-sentence-not-recognised")
                        }
                    },
                    diag: |_, _| {
                        let d = doc_of(concat!(stringify!($t), ".", $name)).unwrap_or("").to_lowercase();
                        if d.contains("greater than or equal") { Some("documented-as-ceil") } else { Some("documented-as-floor") }
                    });
            };
        }
        as_documented!("floor");
        as_documented!("ceil");
        probe!($v, &[concat!(stringify!($t), ".pow")], "",
            &[concat!("fn f(x: ", stringify!($t), ", y: ", stringify!($t), ") -> ", stringify!($t), " { x.pow(y) }")],
            (x: $t, y: $t) -> $t,
            gen: |g| {
                let mut v = Vec::new();
                if g.round == 0 {
                    let core: [$t; 17] = [0.0, -0.0, 1.0, -1.0, 0.5, -0.5, 2.0, -2.0, 3.0, 10.0, 0.1, $t::INFINITY, $t::NEG_INFINITY, $t::NAN, $t::MAX, $t::MIN_POSITIVE, 1e3];
                    for x in core {
                        for y in core {
                            v.push((x, y));
                        }
                    }
                    return v;
                }
                for _ in 0..200 {
                    v.push((rnd(g), if g.rng.bool() { rnd(g) } else { g.rng.range(-6, 6) as $t / 2.0 }));
                }
                v
            },
            class: |a| format!("{}^{}", cls(a.0), cls(a.1)),
            oracle: |a| Exp::Is(a.0.powf(a.1)));
        probe!($v, &[concat!(stringify!($t), ".to_string")], "",
            &[concat!("fn f(x: ", stringify!($t), ") -> String { x.to_string() }")],
            (x: $t) -> String,
            gen: g1, class: |a| cls(a.0), oracle: |a| Exp::Is(format!("{}", a.0)));
    }};
}

pub fn add(v: &mut Vec<Box<dyn Probe>>) {
    probe!(v, &["bool.to_string"], "", &["fn f(x: bool) -> String { x.to_string() }"],
        (x: bool) -> String,
        gen: |_| vec![(true,), (false,)], class: |a| format!("bool:{}", a.0), oracle: |a| Exp::Is(format!("{}", a.0)));

    // a bool produced by an operation inside the script rather than passed in
    probe!(v, &["bool.to_string"], "/computed", &["fn f(a: u8, b: u8) -> String { (a != b).to_string() }"],
        (a: u8, b: u8) -> String,
        gen: |g| {
            let mut v = vec![(0u8, 0u8), (0, 1), (1, 0), (255, 255), (255, 0), (1, 2), (2, 1), (128, 127)];
            if g.round > 0 {
                for _ in 0..60 {
                    let a = g.rng.below(256) as u8;
                    v.push((a, if g.rng.bool() { a } else { g.rng.below(256) as u8 }));
                }
            }
            v
        },
        class: |a| format!("bool:computed-{}", a.0 != a.1), oracle: |a| Exp::Is(format!("{}", a.0 != a.1)));

    int_to_string!(v, u8, u16, u32, u64, i8, i16, i32, i64);

    probe!(v, &["char.to_string"], "", &["fn f(x: char) -> String { x.to_string() }"],
        (x: char) -> String,
        gen: |g| {
            let mut v: Vec<(char,)> = Vec::new();
            if g.round == 0 {
                for c in ['\0', 'a', 'Z', ' ', '\n', '\r', '\t', '"', '\'', '\\', '{', '}', '\u{7f}', '\u{80}', 'é', 'ß', '\u{7ff}', '\u{800}', '€', '\u{d7ff}',
                          '\u{e000}', '\u{ffff}', '\u{10000}', '😀', '\u{10ffff}', '\u{301}', '\u{200d}', '\u{feff}'] {
                    v.push((c,));
                }
                return v;
            }
            while v.len() < 150 {
                let r = match g.rng.below(4) {
                    0 => g.rng.below(0x80),
                    1 => g.rng.below(0x800),
                    2 => g.rng.below(0x10000),
                    _ => g.rng.below(0x110000),
                } as u32;
                if let Some(c) = char::from_u32(r) {
                    v.push((c,));
                }
            }
            v
        },
        class: |a| format!("char:{}-byte", a.0.len_utf8()),
        oracle: |a| Exp::Is(format!("{}", a.0)));

    float_probes!(v, f32, u32, interest32, 8, 23);
    float_probes!(v, f64, u64, interest64, 11, 52);
}
