//! Probes for `String` and its byte / char / line views.

use super::*;

pub fn all() -> Vec<Box<dyn Probe>> {
    let mut v: Vec<Box<dyn Probe>> = Vec::new();
    strings(&mut v);
    views(&mut v);
    super::t_num::add(&mut v);
    super::t_net::add(&mut v);
    super::t_coll::add(&mut v);
    v
}

// ---- generators ------------------------------------------------------------

pub fn g_s1(g: &mut G) -> Vec<(String,)> {
    if g.round == 0 {
        return EDGE_STRS.iter().map(|s| (s.to_string(),)).collect();
    }
    (0..80).map(|_| (g.string(),)).collect()
}

pub fn g_s2(g: &mut G) -> Vec<(String, String)> {
    let mut v = Vec::new();
    if g.round == 0 {
        for s in EDGE_STRS {
            for n in G::relatives(s) {
                v.push((s.to_string(), n));
            }
        }
        return v;
    }
    for _ in 0..40 {
        let s = g.string();
        for _ in 0..4 {
            let n = g.related(&s);
            v.push((s.clone(), n));
        }
    }
    v
}

fn g_idx(g: &mut G, unit: fn(&str) -> usize) -> Vec<(String, u64)> {
    let mut v = Vec::new();
    let all = |s: &str, v: &mut Vec<(String, u64)>| {
        for i in 0..=(unit(s) as u64 + 2) {
            v.push((s.to_string(), i));
        }
        for h in HUGE {
            v.push((s.to_string(), h));
        }
    };
    if g.round == 0 {
        for s in EDGE_STRS {
            all(s, &mut v);
        }
        return v;
    }
    for _ in 0..6 {
        let s = if g.rng.chance(1, 3) { g.lines() } else { g.short() };
        all(&s, &mut v);
    }
    for _ in 0..3 {
        let s = if g.rng.bool() { g.long() } else { g.string() };
        for _ in 0..24 {
            let i = g.index(unit(&s));
            v.push((s.clone(), i));
        }
    }
    v
}

fn g_pair(g: &mut G, unit: fn(&str) -> usize) -> Vec<(String, u64, u64)> {
    let mut v = Vec::new();
    let all = |s: &str, v: &mut Vec<(String, u64, u64)>| {
        let n = unit(s) as u64 + 2;
        for i in 0..=n {
            for j in 0..=n {
                v.push((s.to_string(), i, j));
            }
        }
        for h in [u64::MAX, 1 << 32] {
            v.push((s.to_string(), 0, h));
            v.push((s.to_string(), h, h));
            v.push((s.to_string(), h, 0));
            v.push((s.to_string(), unit(s) as u64, h));
        }
    };
    if g.round == 0 {
        for s in EDGE_STRS {
            if s.len() <= 12 {
                all(s, &mut v);
            }
        }
        return v;
    }
    let s = match g.rng.below(3) {
        0 => g.lines(),
        _ => g.short(),
    };
    if s.len() <= 12 {
        all(&s, &mut v);
    }
    for _ in 0..2 {
        let s = match g.rng.below(3) {
            0 => g.long(),
            1 => g.lines(),
            _ => g.string(),
        };
        for _ in 0..40 {
            let (i, j) = (g.index(unit(&s)), g.index(unit(&s)));
            v.push((s.clone(), i, j));
        }
    }
    v
}

fn g_sn(g: &mut G) -> Vec<(String, u64, String)> {
    let mut v = Vec::new();
    let counts: [u64; 9] = [0, 1, 2, 3, 4, 5, 1 << 40, u64::MAX, 6];
    if g.round == 0 {
        for s in EDGE_STRS {
            for n in [0u64, 1, 2, 3, 5, u64::MAX] {
                for sep in ["", ",", "\n", "a", "aa", "!", "X", "é"] {
                    v.push((s.to_string(), n, sep.to_string()));
                }
                if let Some(c) = s.chars().next() {
                    v.push((s.to_string(), n, c.to_string()));
                }
            }
        }
        return v;
    }
    for _ in 0..30 {
        let s = g.string();
        for _ in 0..4 {
            v.push((s.clone(), *g.rng.pick(&counts), g.related(&s)));
        }
    }
    v
}

// ---- classes ---------------------------------------------------------------

fn c_s1(a: &(String,)) -> String {
    format!("str:{}", sclass(&a.0))
}

fn c_s2(a: &(String, String)) -> String {
    format!("str:{},arg:{}", sclass(&a.0), nclass(&a.0, &a.1))
}

fn c_idx(s: &str, i: u64, len: usize, bytes: bool) -> String {
    let mid = bytes && (i as usize) < s.len() && i < s.len() as u64 && !s.is_char_boundary(i as usize);
    format!("str:{},idx{}{}", sclass(s), irel(i, len), if mid { ",mid-code-point" } else { "" })
}

fn c_pair(s: &str, i: u64, j: u64, len: usize, bytes: bool) -> String {
    let mid = |x: u64| bytes && x < s.len() as u64 && !s.is_char_boundary(x as usize);
    let ord = if i < j {
        "start<end"
    } else if i == j {
        "start=end"
    } else {
        "start>end"
    };
    format!(
        "str:{},{ord},start{},end{}{}",
        sclass(s),
        irel(i, len),
        irel(j, len),
        if mid(i) || mid(j) { ",mid-code-point" } else { "" }
    )
}

fn c_sn(a: &(String, u64, String)) -> String {
    let parts = if a.2.is_empty() { 0 } else { a.0.matches(a.2.as_str()).count() as u64 + 1 };
    let n = if a.1 == 0 {
        "n=0"
    } else if a.1 >= 1 << 32 {
        "n-huge"
    } else if a.1 < parts {
        "n<parts"
    } else if a.1 == parts {
        "n=parts"
    } else {
        "n>parts"
    };
    format!("str:{},sep:{},{n}", sclass(&a.0), nclass(&a.0, &a.2))
}

fn sv<'a>(i: impl Iterator<Item = &'a str>) -> Vec<String> {
    i.map(|x| x.to_string()).collect()
}

// ---- String ----------------------------------------------------------------

fn strings(v: &mut Vec<Box<dyn Probe>>) {
    probe!(v, &["String.from_chars"], "", &["fn f(cs: List[char]) -> String { String.from_chars(cs) }"],
        (cs: Vec<char>) -> String,
        gen: |g| g_s1(g).into_iter().map(|(s,)| (s.chars().collect(),)).collect(),
        class: |a| format!("chars:{}", sclass(&a.0.iter().collect::<String>())),
        oracle: |a| Exp::Is(a.0.iter().collect::<String>()));

    probe!(v, &["String.append"], "", &["fn f(a: String, b: String) -> String { a.append(b) }"],
        (a: String, b: String) -> String,
        gen: g_s2, class: |a| format!("str:{},str:{}", sclass(&a.0), sclass(&a.1)),
        oracle: |a| Exp::Is(format!("{}{}", a.0, a.1)));

    probe!(v, &["String.contains"], "", &["fn f(s: String, n: String) -> bool { s.contains(n) }"],
        (s: String, n: String) -> bool,
        gen: g_s2, class: c_s2, oracle: |a| Exp::Is(a.0.contains(a.1.as_str())));

    probe!(v, &["String.starts_with"], "", &["fn f(s: String, n: String) -> bool { s.starts_with(n) }"],
        (s: String, n: String) -> bool,
        gen: g_s2, class: c_s2, oracle: |a| Exp::Is(a.0.starts_with(a.1.as_str())));

    probe!(v, &["String.ends_with"], "", &["fn f(s: String, n: String) -> bool { s.ends_with(n) }"],
        (s: String, n: String) -> bool,
        gen: g_s2, class: c_s2, oracle: |a| Exp::Is(a.0.ends_with(a.1.as_str())));

    probe!(v, &["String.to_lowercase"], "", &["fn f(s: String) -> String { s.to_lowercase() }"],
        (s: String) -> String,
        gen: g_s1, class: c_s1, oracle: |a| Exp::Is(a.0.to_lowercase()));

    probe!(v, &["String.to_uppercase"], "", &["fn f(s: String) -> String { s.to_uppercase() }"],
        (s: String) -> String,
        gen: g_s1, class: c_s1, oracle: |a| Exp::Is(a.0.to_uppercase()));

    probe!(v, &["String.repeat"], "", &["fn f(s: String, n: u64) -> String { s.repeat(n) }"],
        (s: String, n: u64) -> String,
        gen: |g| {
            let mut v = Vec::new();
            let strs: Vec<String> = if g.round == 0 { EDGE_STRS.iter().map(|s| s.to_string()).collect() } else { (0..24).map(|_| g.string()).collect() };
            for s in strs {
                for n in 0..=5u64 {
                    v.push((s.clone(), n));
                }
                if s.is_empty() {
                    v.push((s.clone(), u64::MAX));
                    v.push((s.clone(), 1 << 40));
                }
            }
            // large counts: the result stays within 1 MiB
            for _ in 0..2 {
                let s = if g.round == 0 { "é€".to_string() } else { g.short() };
                if !s.is_empty() {
                    let max = (1u64 << 20) / s.len() as u64;
                    let n = if g.round == 0 { max } else { 6 + g.rng.below(max - 5) };
                    v.push((s, n));
                }
            }
            v
        },
        class: |a| format!("str:{},n:{}", sclass(&a.0), match a.1 { 0 => "0", 1 => "1", 2..=5 => "2..5", x if x >= 1 << 32 => "huge", _ => "large" }),
        // a result that cannot be allocated is not a question of value
        oracle: |a| match (a.0.len() as u64).checked_mul(a.1) {
            Some(t) if t <= 1 << 20 => Exp::Is(a.0.repeat(a.1 as usize)),
            _ => Exp::Unspec("result-beyond-1MiB"),
        });

    probe!(v, &["String.eq"], "", &["fn f(a: String, b: String) -> bool { a.eq(b) }"],
        (a: String, b: String) -> bool,
        gen: g_s2, class: c_s2, oracle: |a| Exp::Is(a.0 == a.1));

    probe!(v, &["String.replace"], "", &["fn f(s: String, from: String, to: String) -> String { s.replace(from, to) }"],
        (s: String, from: String, to: String) -> String,
        gen: |g| {
            let mut v = Vec::new();
            for (s, n) in g_s2(g) {
                let tos: Vec<String> = if g.round == 0 {
                    vec!["".into(), "Z".into(), n.clone(), format!("{n}{n}"), "é€".into()]
                } else {
                    vec![g.related(&s), g.related(&n)]
                };
                for t in tos {
                    v.push((s.clone(), n.clone(), t));
                }
            }
            v
        },
        class: |a| format!("str:{},from:{},to:{}", sclass(&a.0), nclass(&a.0, &a.1), if a.2.is_empty() { "empty" } else if a.2.contains(a.1.as_str()) { "contains-from" } else { "other" }),
        oracle: |a| Exp::Is(a.0.replace(a.1.as_str(), a.2.as_str())));

    probe!(v, &["String.split"], "", &["fn f(s: String, sep: String) -> List[String] { s.split(sep) }"],
        (s: String, sep: String) -> Vec<String>,
        gen: g_s2, class: c_s2, oracle: |a| Exp::Is(sv(a.0.split(a.1.as_str()))));

    probe!(v, &["String.splitn"], "", &["fn f(s: String, n: u64, sep: String) -> List[String] { s.splitn(n, sep) }"],
        (s: String, n: u64, sep: String) -> Vec<String>,
        gen: g_sn, class: c_sn, oracle: |a| Exp::Is(sv(a.0.splitn(a.1 as usize, a.2.as_str()))));

    probe!(v, &["String.rsplitn"], "", &["fn f(s: String, n: u64, sep: String) -> List[String] { s.rsplitn(n, sep) }"],
        (s: String, n: u64, sep: String) -> Vec<String>,
        gen: g_sn, class: c_sn, oracle: |a| Exp::Is(sv(a.0.rsplitn(a.1 as usize, a.2.as_str()))));

    probe!(v, &["String.trim"], "", &["fn f(s: String) -> String { s.trim() }"],
        (s: String) -> String,
        gen: g_trim, class: c_trim, oracle: |a| Exp::Is(a.0.trim().to_string()));

    probe!(v, &["String.trim_start"], "", &["fn f(s: String) -> String { s.trim_start() }"],
        (s: String) -> String,
        gen: g_trim, class: c_trim, oracle: |a| Exp::Is(a.0.trim_start().to_string()));

    probe!(v, &["String.trim_end"], "", &["fn f(s: String) -> String { s.trim_end() }"],
        (s: String) -> String,
        gen: g_trim, class: c_trim, oracle: |a| Exp::Is(a.0.trim_end().to_string()));

    probe!(v, &["String.strip_prefix"], "", &["fn f(s: String, p: String) -> String? { s.strip_prefix(p) }"],
        (s: String, p: String) -> Option<String>,
        gen: g_s2, class: c_s2, oracle: |a| Exp::Is(a.0.strip_prefix(a.1.as_str()).map(|x| x.to_string())));

    probe!(v, &["String.strip_suffix"], "", &["fn f(s: String, p: String) -> String? { s.strip_suffix(p) }"],
        (s: String, p: String) -> Option<String>,
        gen: g_s2, class: c_s2, oracle: |a| Exp::Is(a.0.strip_suffix(a.1.as_str()).map(|x| x.to_string())));

    probe!(v, &["String.to_string"], "", &["fn f(s: String) -> String { s.to_string() }"],
        (s: String) -> String,
        gen: g_s1, class: c_s1, oracle: |a| Exp::Is(a.0.to_string()));
}

fn g_trim(g: &mut G) -> Vec<(String,)> {
    if g.round == 0 {
        let mut v = g_s1(g);
        for w in ["\u{b}", "\u{c}", "\u{1680}", "\u{2028}", "\u{200b}", "\u{feff}", "\u{85}", " \t\r\n"] {
            v.push((format!("{w}a{w}"),));
            v.push((format!("{w}{w}"),));
            v.push((format!("a{w}b"),));
        }
        return v;
    }
    (0..80).map(|_| (if g.rng.chance(2, 3) { g.padded() } else { g.string() },)).collect()
}

fn c_trim(a: &(String,)) -> String {
    let s = &a.0;
    let lead = s.chars().next().is_some_and(|c| c.is_whitespace());
    let trail = s.chars().last().is_some_and(|c| c.is_whitespace());
    let nonascii_ws = s.chars().any(|c| c.is_whitespace() && !c.is_ascii());
    format!("str:{},ws:{}{}{}", sclass(s), if lead { "L" } else { "-" }, if trail { "T" } else { "-" }, if nonascii_ws { "+unicode" } else { "" })
}

// ---- views -----------------------------------------------------------------

fn blen(s: &str) -> usize {
    s.len()
}
fn clen(s: &str) -> usize {
    s.chars().count()
}
fn llen(s: &str) -> usize {
    s.lines().count()
}

/// The lines of `s` with their terminators: the pieces a line-indexed slice is made of.
fn whole_lines(s: &str) -> Vec<&str> {
    s.split_inclusive('\n').collect()
}

/// char starting at byte `i`, `None` out of range or inside a code point
fn char_at_byte(s: &str, i: u64) -> Option<char> {
    let i = usize::try_from(i).ok()?;
    if i < s.len() && s.is_char_boundary(i) { s[i..].chars().next() } else { None }
}

fn views(v: &mut Vec<Box<dyn Probe>>) {
    // bytes
    probe!(v, &["StringBytes.len", "String.bytes"], "", &["fn f(s: String) -> u64 { s.bytes().len() }"],
        (s: String) -> u64,
        gen: g_s1, class: c_s1, oracle: |a| Exp::Is(a.0.len() as u64));

    probe!(v, &["StringBytes.get", "String.bytes"], "", &["fn f(s: String, i: u64) -> char? { s.bytes().get(i) }"],
        (s: String, i: u64) -> Option<char>,
        gen: |g| g_idx(g, blen), class: |a| c_idx(&a.0, a.1, a.0.len(), true),
        oracle: |a| Exp::Is(char_at_byte(&a.0, a.1)));

    probe!(v, &["StringBytes.slice", "String.bytes"], "", &["fn f(s: String, i: u64, j: u64) -> String? { s.bytes().slice(i, j) }"],
        (s: String, i: u64, j: u64) -> Option<String>,
        gen: |g| g_pair(g, blen), class: |a| c_pair(&a.0, a.1, a.2, a.0.len(), true),
        oracle: |a| Exp::Is(match (usize::try_from(a.1), usize::try_from(a.2)) {
            (Ok(i), Ok(j)) => a.0.get(i..j).map(|x| x.to_string()),
            _ => None,
        }));

    probe!(v, &["StringBytes.list", "String.bytes"], "", &["fn f(s: String) -> List[u8] { s.bytes().list() }"],
        (s: String) -> Vec<u8>,
        gen: g_s1, class: c_s1, oracle: |a| Exp::Is(a.0.as_bytes().to_vec()));

    // chars
    probe!(v, &["StringChars.len", "String.chars"], "", &["fn f(s: String) -> u64 { s.chars().len() }"],
        (s: String) -> u64,
        gen: g_s1, class: c_s1, oracle: |a| Exp::Is(a.0.chars().count() as u64));

    probe!(v, &["StringChars.get", "String.chars"], "", &["fn f(s: String, i: u64) -> char? { s.chars().get(i) }"],
        (s: String, i: u64) -> Option<char>,
        gen: |g| g_idx(g, clen), class: |a| c_idx(&a.0, a.1, clen(&a.0), false),
        oracle: |a| Exp::Is(usize::try_from(a.1).ok().and_then(|i| a.0.chars().nth(i))));

    probe!(v, &["StringChars.slice", "String.chars"], "", &["fn f(s: String, i: u64, j: u64) -> String? { s.chars().slice(i, j) }"],
        (s: String, i: u64, j: u64) -> Option<String>,
        gen: |g| g_pair(g, clen), class: |a| c_pair(&a.0, a.1, a.2, clen(&a.0), false),
        oracle: |a| {
            let n = clen(&a.0) as u64;
            Exp::Is(if a.1 <= a.2 && a.2 <= n { Some(a.0.chars().skip(a.1 as usize).take((a.2 - a.1) as usize).collect()) } else { None })
        });

    probe!(v, &["StringChars.list", "String.chars"], "", &["fn f(s: String) -> List[char] { s.chars().list() }"],
        (s: String) -> Vec<char>,
        gen: g_s1, class: c_s1, oracle: |a| Exp::Is(a.0.chars().collect()));

    // lines
    probe!(v, &["StringLines.len", "String.lines"], "", &["fn f(s: String) -> u64 { s.lines().len() }"],
        (s: String) -> u64,
        gen: g_lines1, class: c_s1, oracle: |a| Exp::Is(a.0.lines().count() as u64));

    // documented "Get the nth line in this string"; the declared result type is `char?`, so the
    // second wrapper turns the result into a string to make it comparable with a line at all
    probe!(v, &["StringLines.get", "String.lines"], "",
        &["fn f(s: String, i: u64) -> String? { s.lines().get(i) }",
          "fn f(s: String, i: u64) -> String? { match s.lines().get(i) { Some(c) => Some(c.to_string()), None => None, } }"],
        (s: String, i: u64) -> Option<String>,
        gen: |g| g_idx(g, |s| llen(s).max(s.len().min(6))), class: |a| c_idx(&a.0, a.1, llen(&a.0), false),
        oracle: |a| Exp::Is(usize::try_from(a.1).ok().and_then(|i| a.0.lines().nth(i)).map(|x| x.to_string())),
        diag: |a, got| if *got == char_at_byte(&a.0, a.1).map(|c| c.to_string()) { Some("byte-index") } else { None });

    probe!(v, &["StringLines.slice", "String.lines"], "", &["fn f(s: String, i: u64, j: u64) -> String? { s.lines().slice(i, j) }"],
        (s: String, i: u64, j: u64) -> Option<String>,
        gen: |g| g_pair(g, llen), class: |a| c_pair(&a.0, a.1, a.2, llen(&a.0), false),
        oracle: |a| {
            let w = whole_lines(&a.0);
            if w.len() != llen(&a.0) {
                return Exp::Unspec("oracle-disagrees-on-line-count");
            }
            let n = w.len() as u64;
            // Not determined by the documentation (lead decision): whether "out of bounds" refers to
            // `len()` or to the slicing model with an implicit final line. The repository's unit test
            // pins "".lines().slice(0, 1) == Some("") and slice(1, 1) == None although len() == 0, and a
            // zero-length slice at the very end depends on the same reading. Neither class is judged.
            if a.0.is_empty() && a.1 <= 1 && a.2 <= 1 && (a.1, a.2) != (0, 0) {
                return Exp::Unspec("empty-string");
            }
            if !a.0.is_empty() && a.1 == n && a.2 == n {
                return Exp::Unspec("zero-length-at-end");
            }
            Exp::Is(if a.1 <= a.2 && a.2 <= n { Some(w[a.1 as usize..a.2 as usize].concat()) } else { None })
        });

    probe!(v, &["StringLines.list", "String.lines"], "", &["fn f(s: String) -> List[String] { s.lines().list() }"],
        (s: String) -> Vec<String>,
        gen: g_lines1, class: c_s1, oracle: |a| Exp::Is(sv(a.0.lines())));
}

fn g_lines1(g: &mut G) -> Vec<(String,)> {
    if g.round == 0 {
        return g_s1(g);
    }
    (0..80).map(|_| (if g.rng.chance(2, 3) { g.lines() } else { g.string() },)).collect()
}
