//! Probes for `IpAddr`, `Prefix` and `Asn`.

use super::*;

fn v4(a: u32) -> IpAddr {
    IpAddr::V4(Ipv4Addr::from(a))
}
fn v6(a: u128) -> IpAddr {
    IpAddr::V6(Ipv6Addr::from(a))
}

pub fn edge_ips() -> Vec<IpAddr> {
    let mut v = vec![
        v4(0), v4(0x7f00_0001), v4(u32::MAX), v4(0x0a00_0000), v4(0xc0a8_0101), v4(0x0102_0304), v4(0x8000_0000), v4(1), v4(0xc0a9_0000),
        v6(0), v6(1), v6(u128::MAX), v6(0xffff_0102_0304), v6(0x0102_0304), v6(0xffff_0000_0000), v6(0xffff_7f00_0001),
        v6(0x2001_0db8 << 96 | 1), v6(0xfe80 << 112 | 1), v6(0x0064_ff9b << 96 | 0x0102_0304), v6(1 << 127), v6(0x2001_0db8_85a3_0000_0000_8a2e_0370_7334),
        v6(0xffff_ffff_0102_0304), v6(0x1_0000_ffff_0102_0304),
    ];
    v.dedup();
    v
}

pub fn rnd_ip(g: &mut G) -> IpAddr {
    match g.rng.weighted(&[3, 3, 2, 2, 1]) {
        0 => v4(g.rng.next() as u32),
        1 => v6((g.rng.next() as u128) << 64 | g.rng.next() as u128),
        2 => *g.rng.pick(&edge_ips()),
        3 => v6(0xffff_0000_0000 | (g.rng.next() as u32) as u128),
        _ => {
            // sparse bit patterns: long runs of zeros and ones
            let a = g.rng.below(129) as u32;
            let x = if a == 128 { u128::MAX } else { (1u128 << a) - 1 };
            if g.rng.bool() { v6(x) } else { v6(!x) }
        }
    }
}

fn maxlen(ip: &IpAddr) -> u8 {
    if ip.is_ipv4() { 32 } else { 128 }
}

fn ipclass(ip: &IpAddr) -> &'static str {
    match ip {
        IpAddr::V4(_) => "v4",
        IpAddr::V6(a) => {
            if a.to_ipv4_mapped().is_some() { "v6-mapped" } else { "v6" }
        }
    }
}

/// hand-written model of a prefix: (smallest, largest) address
fn span(ip: IpAddr, len: u8) -> (IpAddr, IpAddr) {
    match ip {
        IpAddr::V4(a) => {
            let b = u32::from(a);
            let m = if len == 0 { 0 } else { u32::MAX << (32 - len as u32) };
            (v4(b & m), v4(b | !m))
        }
        IpAddr::V6(a) => {
            let b = u128::from(a);
            let m = if len == 0 { 0 } else { u128::MAX << (128 - len as u32) };
            (v6(b & m), v6(b | !m))
        }
    }
}

fn mk(ip: IpAddr, len: u8) -> Prefix {
    Prefix::new_relaxed(ip, len).expect("valid length")
}

fn lenclass(ip: &IpAddr, len: u8) -> &'static str {
    if len == 0 {
        "len=0"
    } else if len == maxlen(ip) {
        "len=max"
    } else if len % 8 == 0 {
        "len-byte-aligned"
    } else {
        "len-unaligned"
    }
}

/// (address, every valid length)
fn g_ip_len(g: &mut G) -> Vec<(IpAddr, u8)> {
    let mut v = Vec::new();
    let ips: Vec<IpAddr> = if g.round == 0 {
        vec![v4(0xc0a8_01ff), v4(u32::MAX), v4(0), v6(u128::MAX), v6(0x2001_0db8_85a3_0000_0000_8a2e_0370_7334), v6(0xffff_0102_0304), v6(0)]
    } else {
        (0..3).map(|_| rnd_ip(g)).collect()
    };
    for ip in ips {
        for len in 0..=maxlen(&ip) {
            v.push((ip, len));
        }
    }
    v
}

fn g_prefix(g: &mut G) -> Vec<(Prefix,)> {
    g_ip_len(g).into_iter().map(|(ip, l)| (mk(ip, l),)).collect()
}

fn c_prefix(p: &Prefix) -> String {
    format!("{},{}", ipclass(&p.addr()), lenclass(&p.addr(), p.len()))
}

fn g_ip1(g: &mut G) -> Vec<(IpAddr,)> {
    if g.round == 0 {
        return edge_ips().into_iter().map(|x| (x,)).collect();
    }
    (0..120).map(|_| (rnd_ip(g),)).collect()
}

fn g_ip2(g: &mut G) -> Vec<(IpAddr, IpAddr)> {
    let mut v = Vec::new();
    if g.round == 0 {
        for a in edge_ips() {
            for b in edge_ips() {
                v.push((a, b));
            }
        }
        return v;
    }
    for _ in 0..120 {
        let a = rnd_ip(g);
        let b = match g.rng.below(5) {
            0 => a,
            1 => match a {
                // the same bits in the other family
                IpAddr::V4(x) => IpAddr::V6(x.to_ipv6_mapped()),
                IpAddr::V6(x) => v4(u128::from(x) as u32),
            },
            2 => match a {
                // one bit flipped
                IpAddr::V4(x) => v4(u32::from(x) ^ (1 << g.rng.below(32))),
                IpAddr::V6(x) => v6(u128::from(x) ^ (1 << g.rng.below(128))),
            },
            _ => rnd_ip(g),
        };
        v.push((a, b));
    }
    v
}

fn c_ip2(a: &(IpAddr, IpAddr)) -> String {
    format!("{},{},{}", ipclass(&a.0), ipclass(&a.1), if a.0 == a.1 { "same" } else { "different" })
}

fn g_prefix2(g: &mut G) -> Vec<(Prefix, Prefix)> {
    let mut v = Vec::new();
    let base = g_ip_len(g);
    for (i, (ip, len)) in base.iter().enumerate() {
        let p = mk(*ip, *len);
        v.push((p, p));
        let (ip2, len2) = base[(i + 1) % base.len()];
        v.push((p, mk(ip2, len2)));
        // same address, other length; same length, neighbouring prefix
        let l2 = if *len == maxlen(ip) { len - 1 } else { len + 1 };
        v.push((p, mk(*ip, l2)));
        if *len > 0 {
            let flipped = match ip {
                IpAddr::V4(x) => v4(u32::from(*x) ^ (1 << (32 - *len as u32))),
                IpAddr::V6(x) => v6(u128::from(*x) ^ (1 << (128 - *len as u32))),
            };
            v.push((p, mk(flipped, *len)));
        }
        // same leading bits in the other family
        if let IpAddr::V4(x) = ip {
            v.push((p, mk(v6((u32::from(*x) as u128) << 96), *len)));
        }
    }
    v
}

pub fn add(v: &mut Vec<Box<dyn Probe>>) {
    // ---- IpAddr
    probe!(v, &["IpAddr.eq"], "", &["fn f(a: IpAddr, b: IpAddr) -> bool { a.eq(b) }"],
        (a: IpAddr, b: IpAddr) -> bool,
        gen: g_ip2, class: c_ip2, oracle: |a| Exp::Is(a.0 == a.1));

    // documented: "A more convenient but equivalent method for checking equality is via the `==` operator."
    probe!(v, &["IpAddr.eq"], "/operator", &["fn f(a: IpAddr, b: IpAddr) -> bool { a == b }"],
        (a: IpAddr, b: IpAddr) -> bool,
        gen: g_ip2, class: c_ip2, oracle: |a| Exp::Is(a.0 == a.1));

    probe!(v, &["IpAddr.is_ipv4"], "", &["fn f(a: IpAddr) -> bool { a.is_ipv4() }"],
        (a: IpAddr) -> bool,
        gen: g_ip1, class: |a| ipclass(&a.0).to_string(), oracle: |a| Exp::Is(a.0.is_ipv4()));

    probe!(v, &["IpAddr.is_ipv6"], "", &["fn f(a: IpAddr) -> bool { a.is_ipv6() }"],
        (a: IpAddr) -> bool,
        gen: g_ip1, class: |a| ipclass(&a.0).to_string(), oracle: |a| Exp::Is(a.0.is_ipv6()));

    probe!(v, &["IpAddr.to_canonical"], "", &["fn f(a: IpAddr) -> IpAddr { a.to_canonical() }"],
        (a: IpAddr) -> IpAddr,
        gen: g_ip1, class: |a| ipclass(&a.0).to_string(),
        oracle: |a| Exp::Is(match a.0 {
            IpAddr::V6(x) if u128::from(x) >> 32 == 0xffff => v4(u128::from(x) as u32),
            x => x,
        }));

    probe!(v, &["IpAddr.to_string"], "", &["fn f(a: IpAddr) -> String { a.to_string() }"],
        (a: IpAddr) -> String,
        gen: g_ip1, class: |a| ipclass(&a.0).to_string(), oracle: |a| Exp::Is(format!("{}", a.0)));

    probe!(v, &["IpAddr.LOCALHOSTV4"], "", &["fn f() -> IpAddr { IpAddr.LOCALHOSTV4 }"],
        () -> IpAddr,
        gen: |_| vec![()], class: |_| "constant".to_string(), oracle: |_| Exp::Is(v4(0x7f00_0001)));

    probe!(v, &["IpAddr.LOCALHOSTV6"], "", &["fn f() -> IpAddr { IpAddr.LOCALHOSTV6 }"],
        () -> IpAddr,
        gen: |_| vec![()], class: |_| "constant".to_string(), oracle: |_| Exp::Is(v6(1)));

    // ---- Prefix
    // `Prefix.min_addr` is documented as "the smallest address of the prefix. This is the same as
    // `Prefix.addr`", which fixes the result for addresses with host bits set: they are cleared.
    probe!(v, &["Prefix.new"], "", &["fn f(ip: IpAddr, len: u8) -> Prefix { Prefix.new(ip, len) }"],
        (ip: IpAddr, len: u8) -> Prefix,
        gen: g_ip_len,
        class: |a| format!("{},{},{}", ipclass(&a.0), lenclass(&a.0, a.1), if span(a.0, a.1).0 == a.0 { "host-bits-zero" } else { "host-bits-set" }),
        oracle: |a| if a.1 > maxlen(&a.0) { Exp::Unspec("invalid-length") } else { Exp::Is(mk(span(a.0, a.1).0, a.1)) });

    // documented: "A prefix can also be constructed with the `/` operator ... or equivalently"
    probe!(v, &["Prefix.new"], "/operator", &["fn f(ip: IpAddr, len: u8) -> Prefix { ip / len }"],
        (ip: IpAddr, len: u8) -> Prefix,
        gen: g_ip_len,
        class: |a| format!("{},{},{}", ipclass(&a.0), lenclass(&a.0, a.1), if span(a.0, a.1).0 == a.0 { "host-bits-zero" } else { "host-bits-set" }),
        oracle: |a| if a.1 > maxlen(&a.0) { Exp::Unspec("invalid-length") } else { Exp::Is(mk(span(a.0, a.1).0, a.1)) });

    probe!(v, &["Prefix.addr"], "", &["fn f(p: Prefix) -> IpAddr { p.addr() }"],
        (p: Prefix) -> IpAddr,
        gen: g_prefix, class: |a| c_prefix(&a.0), oracle: |a| Exp::Is(a.0.addr()));

    probe!(v, &["Prefix.min_addr"], "", &["fn f(p: Prefix) -> IpAddr { p.min_addr() }"],
        (p: Prefix) -> IpAddr,
        gen: g_prefix, class: |a| c_prefix(&a.0),
        oracle: |a| {
            let m = span(a.0.addr(), a.0.len()).0;
            if m == a.0.min_addr() { Exp::Is(m) } else { Exp::Unspec("oracle-disagrees-with-inetnum") }
        });

    probe!(v, &["Prefix.max_addr"], "", &["fn f(p: Prefix) -> IpAddr { p.max_addr() }"],
        (p: Prefix) -> IpAddr,
        gen: g_prefix, class: |a| c_prefix(&a.0),
        oracle: |a| {
            let m = span(a.0.addr(), a.0.len()).1;
            if m == a.0.max_addr() { Exp::Is(m) } else { Exp::Unspec("oracle-disagrees-with-inetnum") }
        });

    probe!(v, &["Prefix.len"], "", &["fn f(p: Prefix) -> u8 { p.len() }"],
        (p: Prefix) -> u8,
        gen: g_prefix, class: |a| c_prefix(&a.0), oracle: |a| Exp::Is(a.0.len()));

    // the accessors applied to a freshly constructed prefix: what `Prefix.new` must produce
    probe!(v, &["Prefix.new", "Prefix.min_addr", "Prefix.max_addr", "Prefix.len", "Prefix.addr"], "/accessors",
        &["fn f(ip: IpAddr, len: u8) -> List[String] { let p = Prefix.new(ip, len); [p.addr().to_string(), p.min_addr().to_string(), p.max_addr().to_string(), p.len().to_string()] }"],
        (ip: IpAddr, len: u8) -> Vec<String>,
        gen: g_ip_len,
        class: |a| format!("{},{}", ipclass(&a.0), lenclass(&a.0, a.1)),
        oracle: |a| {
            let (lo, hi) = span(a.0, a.1);
            Exp::Is(vec![lo.to_string(), lo.to_string(), hi.to_string(), a.1.to_string()])
        });

    probe!(v, &["Prefix.eq"], "", &["fn f(a: Prefix, b: Prefix) -> bool { a.eq(b) }"],
        (a: Prefix, b: Prefix) -> bool,
        gen: g_prefix2, class: |a| format!("{};{};{}", c_prefix(&a.0), c_prefix(&a.1), if a.0 == a.1 { "same" } else { "different" }),
        oracle: |a| Exp::Is(a.0.addr() == a.1.addr() && a.0.len() == a.1.len()));

    probe!(v, &["Prefix.to_string"], "", &["fn f(p: Prefix) -> String { p.to_string() }"],
        (p: Prefix) -> String,
        gen: g_prefix, class: |a| c_prefix(&a.0),
        oracle: |a| {
            let hand = format!("{}/{}", a.0.addr(), a.0.len());
            if hand == format!("{}", a.0) { Exp::Is(hand) } else { Exp::Unspec("oracle-disagrees-with-inetnum") }
        });

    // ---- Asn
    probe!(v, &["Asn.to_string"], "", &["fn f(a: Asn) -> String { a.to_string() }"],
        (a: Asn) -> String,
        gen: |g| {
            if g.round == 0 {
                return [0u32, 1, 23456, 65535, 65536, 64512, 4200000000, u32::MAX - 1, u32::MAX].iter().map(|x| (Asn::from_u32(*x),)).collect();
            }
            (0..100).map(|_| { let sh = g.rng.below(32); (Asn::from_u32((g.rng.next() as u32) >> sh),) }).collect()
        },
        class: |a| if a.0.into_u32() <= 65535 { "asn:2-byte".to_string() } else { "asn:4-byte".to_string() },
        oracle: |a| Exp::Is(format!("{}", a.0)));
}
