//! Probes for `StringBuf` and `List`.

use super::*;

fn g_list(g: &mut G) -> Vec<u64> {
    let n = *g.rng.pick(&[0usize, 0, 1, 2, 3, 4, 5, 8, 9, 17, 40]);
    let dom = *g.rng.pick(&[2u64, 5, 1 << 40]);
    (0..n).map(|_| if dom > 5 { g.rng.next() >> g.rng.below(64) } else { g.rng.below(dom) }).collect()
}

fn g_slist(g: &mut G) -> Vec<String> {
    let n = *g.rng.pick(&[0usize, 0, 1, 2, 3, 5, 9]);
    let pool: Vec<String> = (0..3).map(|_| g.short()).collect();
    (0..n).map(|_| if g.rng.bool() { g.rng.pick(&pool).clone() } else { g.short() }).collect()
}

fn edge_lists() -> Vec<Vec<u64>> {
    vec![vec![], vec![0], vec![7], vec![1, 2], vec![1, 1], vec![1, 2, 3, 2, 1], (0..9).collect(), vec![u64::MAX, 0, u64::MAX], (0..33).map(|x| x % 4).collect()]
}

fn edge_slists() -> Vec<Vec<String>> {
    let s = |v: &[&str]| v.iter().map(|x| x.to_string()).collect::<Vec<_>>();
    vec![s(&[]), s(&[""]), s(&["a"]), s(&["a", "b"]), s(&["", ""]), s(&["é", "€", "😀"]), s(&["a", "", "a"]), s(&["x\n", "y"]), s(&["a", "b", "c", "d", "e", "f", "g", "h", "i"])]
}

fn lclass<T>(l: &[T]) -> &'static str {
    match l.len() {
        0 => "list:empty",
        1 => "list:one",
        2..=8 => "list:few",
        _ => "list:grown",
    }
}

/// (list, element): elements from the list, near them, and absent ones
fn g_list_elem(g: &mut G) -> Vec<(Vec<u64>, u64)> {
    let mut v = Vec::new();
    let ls = if g.round == 0 { edge_lists() } else { (0..30).map(|_| g_list(g)).collect() };
    for l in ls {
        for x in l.iter().take(6) {
            v.push((l.clone(), *x));
        }
        for x in [0, 1, 2, 3, 99, u64::MAX] {
            v.push((l.clone(), x));
        }
    }
    v
}

fn g_slist_elem(g: &mut G) -> Vec<(Vec<String>, String)> {
    let mut v = Vec::new();
    let ls = if g.round == 0 { edge_slists() } else { (0..30).map(|_| g_slist(g)).collect() };
    for l in ls {
        for x in l.iter().take(5) {
            v.push((l.clone(), x.clone()));
            v.push((l.clone(), format!("{x}a")));
        }
        v.push((l.clone(), String::new()));
        v.push((l.clone(), "a".to_string()));
        v.push((l.clone(), "absent".to_string()));
    }
    v
}

fn c_elem<T: PartialEq>(l: &[T], x: &T) -> String {
    let pos = l.iter().position(|y| y == x);
    let occ = l.iter().filter(|y| *y == x).count();
    format!("{},elem:{}", lclass(l), match (pos, occ) { (None, _) => "absent", (Some(0), 1) => "first", (Some(p), 1) if p + 1 == l.len() => "last", (Some(_), 1) => "middle", _ => "repeated" })
}

fn g_list_idx(g: &mut G) -> Vec<(Vec<u64>, u64)> {
    let mut v = Vec::new();
    let ls = if g.round == 0 { edge_lists() } else { (0..12).map(|_| g_list(g)).collect() };
    for l in ls {
        for i in 0..=(l.len() as u64 + 2) {
            v.push((l.clone(), i));
        }
        for h in HUGE {
            v.push((l.clone(), h));
        }
    }
    v
}

pub fn add(v: &mut Vec<Box<dyn Probe>>) {
    // ---- StringBuf
    probe!(v, &["StringBuf.new", "StringBuf.as_string"], "", &["fn f() -> String { StringBuf.new().as_string() }"],
        () -> String,
        gen: |_| vec![()], class: |_| "new".to_string(), oracle: |_| Exp::Is(String::new()));

    probe!(v, &["StringBuf.from", "StringBuf.as_string"], "", &["fn f(s: String) -> String { StringBuf.from(s).as_string() }"],
        (s: String) -> String,
        gen: table::g_s1, class: |a| format!("str:{}", sclass(&a.0)), oracle: |a| Exp::Is(a.0.clone()));

    probe!(v, &["StringBuf.push_char", "StringBuf.from", "StringBuf.as_string"], "",
        &["fn f(s: String, cs: List[char]) -> String { let b = StringBuf.from(s); for c in cs { b.push_char(c); } b.as_string() }"],
        (s: String, cs: Vec<char>) -> String,
        gen: |g| table::g_s2(g).into_iter().map(|(s, t)| (s, t.chars().collect())).collect(),
        class: |a| format!("str:{},pushed:{}-chars:{}", sclass(&a.0), match a.1.len() { 0 => "0", 1 => "1", _ => "many" }, sclass(&a.1.iter().collect::<String>())),
        oracle: |a| { let mut s = a.0.clone(); for c in &a.1 { s.push(*c); } Exp::Is(s) });

    probe!(v, &["StringBuf.push_string", "StringBuf.from", "StringBuf.as_string"], "",
        &["fn f(s: String, ps: List[String]) -> String { let b = StringBuf.from(s); for p in ps { b.push_string(p); } b.as_string() }"],
        (s: String, ps: Vec<String>) -> String,
        gen: |g| {
            let mut v = Vec::new();
            if g.round == 0 {
                for s in ["", "a", "é\n"] {
                    for l in edge_slists() {
                        v.push((s.to_string(), l));
                    }
                }
                return v;
            }
            for _ in 0..60 {
                let s = g.string();
                v.push((s, g_slist(g)));
            }
            // growth: many pushes onto one buffer
            let big: Vec<String> = (0..200).map(|_| g.short()).collect();
            v.push((g.short(), big));
            v
        },
        class: |a| format!("str:{},pushed:{}", sclass(&a.0), lclass(&a.1)),
        oracle: |a| { let mut s = a.0.clone(); for p in &a.1 { s.push_str(p); } Exp::Is(s) });

    probe!(v, &["StringBuf.push_char", "StringBuf.push_string", "StringBuf.new", "StringBuf.as_string"], "/mixed",
        &["fn f(s: String, c: char, t: String, d: char) -> String { let b = StringBuf.new(); b.push_string(s); b.push_char(c); b.push_string(t); b.push_char(d); b.as_string() }"],
        (s: String, c: char, t: String, d: char) -> String,
        gen: |g| table::g_s2(g).into_iter().map(|(s, t)| {
            let c = t.chars().next().unwrap_or('"');
            let d = s.chars().last().unwrap_or('😀');
            (s, c, t, d)
        }).collect(),
        class: |a| format!("str:{},char:{}-byte,str:{},char:{}-byte", sclass(&a.0), a.1.len_utf8(), sclass(&a.2), a.3.len_utf8()),
        oracle: |a| { let mut s = String::new(); s.push_str(&a.0); s.push(a.1); s.push_str(&a.2); s.push(a.3); Exp::Is(s) });

    // a String obtained from the buffer is a value: later pushes do not change it
    probe!(v, &["StringBuf.as_string", "StringBuf.push_string", "StringBuf.from"], "/snapshot",
        &["fn f(s: String, t: String) -> List[String] { let b = StringBuf.from(s); let x = b.as_string(); b.push_string(t); [x, b.as_string()] }"],
        (s: String, t: String) -> Vec<String>,
        gen: table::g_s2, class: |a| format!("str:{},str:{}", sclass(&a.0), sclass(&a.1)),
        oracle: |a| Exp::Is(vec![a.0.clone(), format!("{}{}", a.0, a.1)]));

    // ---- List
    probe!(v, &["List.new"], "", &["fn f() -> List[u64] { List.new() }"],
        () -> Vec<u64>,
        gen: |_| vec![()], class: |_| "new".to_string(), oracle: |_| Exp::Is(Vec::new()));

    probe!(v, &["List.new", "List.push"], "/String", &["fn f(s: String) -> List[String] { let l = List.new(); l.push(s); l }"],
        (s: String) -> Vec<String>,
        gen: table::g_s1, class: |a| format!("str:{}", sclass(&a.0)), oracle: |a| Exp::Is(vec![a.0.clone()]));

    probe!(v, &["List.push"], "", &["fn f(l: List[u64], x: u64, y: u64) -> List[u64] { l.push(x); l.push(y); l }"],
        (l: Vec<u64>, x: u64, y: u64) -> Vec<u64>,
        gen: |g| g_list_elem(g).into_iter().map(|(l, x)| { let y = x.wrapping_mul(3) ^ l.len() as u64; (l, x, y) }).collect(),
        class: |a| lclass(&a.0).to_string(),
        oracle: |a| { let mut l = a.0.clone(); l.push(a.1); l.push(a.2); Exp::Is(l) });

    probe!(v, &["List.push"], "/String", &["fn f(l: List[String], x: String) -> List[String] { l.push(x); l }"],
        (l: Vec<String>, x: String) -> Vec<String>,
        gen: g_slist_elem, class: |a| lclass(&a.0).to_string(),
        oracle: |a| { let mut l = a.0.clone(); l.push(a.1.clone()); Exp::Is(l) });

    probe!(v, &["List.contains"], "", &["fn f(l: List[u64], x: u64) -> bool { l.contains(x) }"],
        (l: Vec<u64>, x: u64) -> bool,
        gen: g_list_elem, class: |a| c_elem(&a.0, &a.1), oracle: |a| Exp::Is(a.0.contains(&a.1)));

    probe!(v, &["List.contains"], "/String", &["fn f(l: List[String], x: String) -> bool { l.contains(x) }"],
        (l: Vec<String>, x: String) -> bool,
        gen: g_slist_elem, class: |a| c_elem(&a.0, &a.1), oracle: |a| Exp::Is(a.0.contains(&a.1)));

    probe!(v, &["List.index"], "", &["fn f(l: List[u64], x: u64) -> u64? { l.index(x) }"],
        (l: Vec<u64>, x: u64) -> Option<u64>,
        gen: g_list_elem, class: |a| c_elem(&a.0, &a.1), oracle: |a| Exp::Is(a.0.iter().position(|y| *y == a.1).map(|i| i as u64)));

    probe!(v, &["List.index"], "/String", &["fn f(l: List[String], x: String) -> u64? { l.index(x) }"],
        (l: Vec<String>, x: String) -> Option<u64>,
        gen: g_slist_elem, class: |a| c_elem(&a.0, &a.1), oracle: |a| Exp::Is(a.0.iter().position(|y| *y == a.1).map(|i| i as u64)));

    // documented: "The arguments are not mutated by this function."
    probe!(v, &["List.concat"], "", &["fn f(a: List[u64], b: List[u64]) -> List[List[u64]] { let c = a.concat(b); [c, a, b] }"],
        (a: Vec<u64>, b: Vec<u64>) -> Vec<Vec<u64>>,
        gen: |g| {
            let mut v = Vec::new();
            if g.round == 0 {
                for a in edge_lists() {
                    for b in edge_lists() {
                        v.push((a.clone(), b));
                    }
                }
                return v;
            }
            (0..80).map(|_| (g_list(g), g_list(g))).collect()
        },
        class: |a| format!("{}+{}", lclass(&a.0), lclass(&a.1)),
        oracle: |a| Exp::Is(vec![[a.0.clone(), a.1.clone()].concat(), a.0.clone(), a.1.clone()]));

    probe!(v, &["List.concat"], "/self", &["fn f(a: List[String]) -> List[List[String]] { let c = a.concat(a); [c, a] }"],
        (a: Vec<String>) -> Vec<Vec<String>>,
        gen: |g| if g.round == 0 { edge_slists().into_iter().map(|l| (l,)).collect() } else { (0..60).map(|_| (g_slist(g),)).collect() },
        class: |a| format!("{}+self", lclass(&a.0)),
        oracle: |a| Exp::Is(vec![[a.0.clone(), a.0.clone()].concat(), a.0.clone()]));

    probe!(v, &["List.get"], "", &["fn f(l: List[u64], i: u64) -> u64? { l.get(i) }"],
        (l: Vec<u64>, i: u64) -> Option<u64>,
        gen: g_list_idx, class: |a| format!("{},idx{}", lclass(&a.0), irel(a.1, a.0.len())),
        oracle: |a| Exp::Is(usize::try_from(a.1).ok().and_then(|i| a.0.get(i).copied())));

    probe!(v, &["List.get"], "/String", &["fn f(l: List[String], i: u64) -> String? { l.get(i) }"],
        (l: Vec<String>, i: u64) -> Option<String>,
        gen: |g| {
            let mut v = Vec::new();
            let ls = if g.round == 0 { edge_slists() } else { (0..12).map(|_| g_slist(g)).collect() };
            for l in ls {
                for i in (0..=(l.len() as u64 + 2)).chain([u64::MAX, 1 << 32]) {
                    v.push((l.clone(), i));
                }
            }
            v
        },
        class: |a| format!("{},idx{}", lclass(&a.0), irel(a.1, a.0.len())),
        oracle: |a| Exp::Is(usize::try_from(a.1).ok().and_then(|i| a.0.get(i).cloned())));

    // documented: "This function does nothing if either `i` or `j` is out of bounds."
    probe!(v, &["List.swap"], "", &["fn f(l: List[u64], i: u64, j: u64) -> List[u64] { l.swap(i, j); l }"],
        (l: Vec<u64>, i: u64, j: u64) -> Vec<u64>,
        gen: |g| {
            let mut v = Vec::new();
            let ls: Vec<Vec<u64>> = if g.round == 0 { vec![vec![], vec![5], vec![1, 2], vec![1, 2, 3, 4]] } else { (0..3).map(|_| (0..g.rng.below(7)).collect()).collect() };
            for l in ls {
                let n = l.len() as u64 + 2;
                for i in 0..=n {
                    for j in 0..=n {
                        v.push((l.clone(), i, j));
                    }
                }
                for h in [u64::MAX, 1 << 32] {
                    v.push((l.clone(), 0, h));
                    v.push((l.clone(), h, 0));
                    v.push((l.clone(), h, h));
                }
            }
            v
        },
        class: |a| format!("{},i{},j{}{}", lclass(&a.0), irel(a.1, a.0.len()), irel(a.2, a.0.len()), if a.1 == a.2 { ",i=j" } else { "" }),
        // indices that do not fit the platform's index type are out of bounds as well
        oracle: |a| {
            let mut l = a.0.clone();
            let n = l.len() as u64;
            if a.1 < n && a.2 < n { l.swap(a.1 as usize, a.2 as usize); }
            Exp::Is(l)
        });

    probe!(v, &["List.len"], "", &["fn f(l: List[u64]) -> u64 { l.len() }"],
        (l: Vec<u64>) -> u64,
        gen: g_l1, class: |a| lclass(&a.0).to_string(), oracle: |a| Exp::Is(a.0.len() as u64));

    probe!(v, &["List.is_empty"], "", &["fn f(l: List[u64]) -> bool { l.is_empty() }"],
        (l: Vec<u64>) -> bool,
        gen: g_l1, class: |a| lclass(&a.0).to_string(), oracle: |a| Exp::Is(a.0.is_empty()));

    // the documentation ("the capacity of the current allocation") only fixes capacity >= len,
    // also after the list has grown inside the script
    probe!(v, &["List.capacity"], "", &["fn f(l: List[u64], x: u64) -> bool { let a = l.capacity() >= l.len(); l.push(x); a && l.capacity() >= l.len() }"],
        (l: Vec<u64>, x: u64) -> bool,
        gen: |g| g_l1(g).into_iter().map(|(l,)| (l, 1)).collect(), class: |a| lclass(&a.0).to_string(), oracle: |_| Exp::Is(true));

    probe!(v, &["List.join"], "", &["fn f(l: List[String], sep: String) -> String { l.join(sep) }"],
        (l: Vec<String>, sep: String) -> String,
        gen: |g| {
            let mut v = Vec::new();
            let ls = if g.round == 0 { edge_slists() } else { (0..40).map(|_| g_slist(g)).collect() };
            for l in ls {
                for sep in ["", ",", ", ", "\n", "é€"] {
                    v.push((l.clone(), sep.to_string()));
                }
                if g.round > 0 {
                    v.push((l.clone(), g.short()));
                }
            }
            v
        },
        class: |a| format!("{},sep:{}", lclass(&a.0), sclass(&a.1)),
        oracle: |a| {
            let mut s = String::new();
            for (i, x) in a.0.iter().enumerate() {
                if i > 0 { s.push_str(&a.1); }
                s.push_str(x);
            }
            Exp::Is(s)
        });
}

fn g_l1(g: &mut G) -> Vec<(Vec<u64>,)> {
    if g.round == 0 {
        return edge_lists().into_iter().map(|l| (l,)).collect();
    }
    (0..80).map(|_| (g_list(g),)).collect()
}
