//! Compile generated source with the harness runtime and call `main` under a
//! statically known Rust signature chosen from the program's return type.

use roto::{FileTree, NoCtx, Package, RotoString, Runtime, TypedFunc, Val, Verdict};

use crate::rg::ast::Ty;
use crate::host::Trk;
use crate::val::{IntTy, V};

pub fn compile(src: &str, rt: &Runtime<NoCtx>) -> Result<Package<NoCtx>, String> {
    let tree = FileTree::test_file("gen.roto", src, 0);
    match tree.compile(rt) {
        Ok(p) => Ok(p),
        Err(e) => {
            let mut s = String::new();
            let _ = e.write(&mut s, false);
            Err(s)
        }
    }
}

macro_rules! main_fns {
    ($( $var:ident : $t:ty ),* $(,)?) => {
        pub enum MainFn {
            $( $var(TypedFunc<NoCtx, fn() -> $t>), )*
        }
    };
}

main_fns! {
    Unit: (), Bool: bool, Char: char,
    U8: u8, U16: u16, U32: u32, U64: u64,
    I8: i8, I16: i16, I32: i32, I64: i64,
    F32: f32, F64: f64, Str: RotoString,
    OptI64: Option<i64>, OptTrk: Option<Val<Trk>>, TrkV: Val<Trk>,
    VerdI64: Verdict<i64, i64>,
    VerdUU: Verdict<(), ()>,
    VerdIU: Verdict<i64, ()>,
    VerdUI: Verdict<(), i64>,
}

pub fn get_main(pkg: &mut Package<NoCtx>, name: &str, ret: &Ty) -> Result<MainFn, String> {
    macro_rules! g {
        ($var:ident, $t:ty) => {
            pkg.get_function::<fn() -> $t>(name).map(MainFn::$var).map_err(|e| format!("{e}"))
        };
    }
    match ret {
        Ty::Unit => g!(Unit, ()),
        Ty::Bool => g!(Bool, bool),
        Ty::Char => g!(Char, char),
        Ty::Int(IntTy::U8) => g!(U8, u8),
        Ty::Int(IntTy::U16) => g!(U16, u16),
        Ty::Int(IntTy::U32) => g!(U32, u32),
        Ty::Int(IntTy::U64) => g!(U64, u64),
        Ty::Int(IntTy::I8) => g!(I8, i8),
        Ty::Int(IntTy::I16) => g!(I16, i16),
        Ty::Int(IntTy::I32) => g!(I32, i32),
        Ty::Int(IntTy::I64) => g!(I64, i64),
        Ty::F32 => g!(F32, f32),
        Ty::F64 => g!(F64, f64),
        Ty::Str => g!(Str, RotoString),
        Ty::Trk => g!(TrkV, Val<Trk>),
        Ty::Opt(t) if **t == Ty::Int(IntTy::I64) => g!(OptI64, Option<i64>),
        Ty::Opt(t) if **t == Ty::Trk => g!(OptTrk, Option<Val<Trk>>),
        Ty::Verdict(a, r) if **a == Ty::Int(IntTy::I64) && **r == Ty::Int(IntTy::I64) => {
            g!(VerdI64, Verdict<i64, i64>)
        }
        Ty::Verdict(a, r) if **a == Ty::Unit && **r == Ty::Unit => g!(VerdUU, Verdict<(), ()>),
        Ty::Verdict(a, r) if **a == Ty::Int(IntTy::I64) && **r == Ty::Unit => g!(VerdIU, Verdict<i64, ()>),
        Ty::Verdict(a, r) if **a == Ty::Unit && **r == Ty::Int(IntTy::I64) => g!(VerdUI, Verdict<(), i64>),
        t => Err(format!("harness: no monomorphised main for return type {t:?}")),
    }
}

impl MainFn {
    /// Call and convert the result into the harness' value universe. The Rust
    /// value (and anything it owns) is dropped before returning. The conversion
    /// runs in the allocation-exempt region: it is the harness' own memory.
    pub fn call(&self) -> V {
        use crate::alloc::exempt;
        match self {
            MainFn::Unit(f) => {
                f.call();
                V::Unit
            }
            MainFn::Bool(f) => V::Bool(f.call()),
            MainFn::Char(f) => V::Char(f.call()),
            MainFn::U8(f) => V::Int(IntTy::U8, f.call() as i128),
            MainFn::U16(f) => V::Int(IntTy::U16, f.call() as i128),
            MainFn::U32(f) => V::Int(IntTy::U32, f.call() as i128),
            MainFn::U64(f) => V::Int(IntTy::U64, f.call() as i128),
            MainFn::I8(f) => V::Int(IntTy::I8, f.call() as i128),
            MainFn::I16(f) => V::Int(IntTy::I16, f.call() as i128),
            MainFn::I32(f) => V::Int(IntTy::I32, f.call() as i128),
            MainFn::I64(f) => V::Int(IntTy::I64, f.call() as i128),
            MainFn::F32(f) => V::F32(f.call()),
            MainFn::F64(f) => V::F64(f.call()),
            MainFn::Str(f) => {
                let r = f.call();
                exempt(move || V::Str(r.to_string()))
            }
            MainFn::OptI64(f) => {
                let r = f.call();
                exempt(move || V::Opt(r.map(|x| Box::new(V::Int(IntTy::I64, x as i128)))))
            }
            MainFn::OptTrk(f) => {
                let r = f.call();
                exempt(move || {
                    V::Opt(r.map(|x| {
                        x.check("returned-to-rust");
                        Box::new(V::Trk(x.tag))
                    }))
                })
            }
            MainFn::TrkV(f) => {
                let x = f.call();
                x.check("returned-to-rust");
                V::Trk(x.tag)
            }
            MainFn::VerdI64(f) => {
                let r = f.call();
                exempt(move || match r {
                    Verdict::Accept(x) => V::Enum(0, "Accept".into(), vec![V::Int(IntTy::I64, x as i128)]),
                    Verdict::Reject(x) => V::Enum(1, "Reject".into(), vec![V::Int(IntTy::I64, x as i128)]),
                })
            }
            MainFn::VerdUU(f) => {
                let r = f.call();
                exempt(move || match r {
                    Verdict::Accept(()) => V::Enum(0, "Accept".into(), vec![V::Unit]),
                    Verdict::Reject(()) => V::Enum(1, "Reject".into(), vec![V::Unit]),
                })
            }
            MainFn::VerdIU(f) => {
                let r = f.call();
                exempt(move || match r {
                    Verdict::Accept(x) => V::Enum(0, "Accept".into(), vec![V::Int(IntTy::I64, x as i128)]),
                    Verdict::Reject(()) => V::Enum(1, "Reject".into(), vec![V::Unit]),
                })
            }
            MainFn::VerdUI(f) => {
                let r = f.call();
                exempt(move || match r {
                    Verdict::Accept(()) => V::Enum(0, "Accept".into(), vec![V::Unit]),
                    Verdict::Reject(x) => V::Enum(1, "Reject".into(), vec![V::Int(IntTy::I64, x as i128)]),
                })
            }
        }
    }
}
